//! C15, engine E2: explicit-state search over short programs of word operations and re-preparation.
//!
//! Register file: two registers, each holding a packed ciphertext `ct` (with its plain value) and a prepared form
//! `prep` (with the plain value it was prepared from; it lags behind `ct` until the register is re-prepared).
//! Actions: Prepare(r): prep[r] <- circuit-bootstrap(ct[r]);  Op2(op, dst, swap): ct[dst] <- op(prep[x], prep[y]) with
//! (x, y) = (0, 1) or (1, 0);  Ident(src, dst): ct[dst] <- identity(prep[src]).  46 actions, all enabled in every state.
//! State identity = the program (initial pair + action sequence): no merging, every program up to the depth bound is
//! executed; every transition performs the real call and compares the written object with the plain u32 semantics
//! (ciphertexts: exact phase at every coefficient; prepared words: every bit through CMux).

use crate::c15::*;
use crate::uctx::*;
use poulpy_bin_fhe::bdd_arithmetic::FheUint;
use poulpy_core::ScratchTakeCore;
use poulpy_hal::api::{ScratchOwnedAlloc, ScratchOwnedBorrow};
use poulpy_hal::layouts::{Module, Scratch, ScratchOwned};
use pvc_common::{Bk, CoreAll, HalAll};
use pvc_engine::{Rec, Run, fnv, guarded};
use serde::{Deserialize, Serialize};
use serde_json::{Value, json};
use stateright::{Checker, Model, Property};
use std::hash::{Hash, Hasher};
use std::sync::atomic::{AtomicU64, Ordering};
use std::sync::{Arc, Mutex};

#[derive(Clone, Copy, Debug, PartialEq, Eq, Hash, Serialize, Deserialize)]
pub enum Act {
    Prepare(u8),
    Op2 { op: WOp, dst: u8, swap: bool },
    Ident { src: u8, dst: u8 },
}

pub fn all_actions() -> Vec<Act> {
    let mut v = vec![Act::Prepare(0), Act::Prepare(1)];
    for op in ALL_WOPS {
        if op == WOp::Identity {
            continue;
        }
        for dst in 0..2u8 {
            for swap in [false, true] {
                v.push(Act::Op2 { op, dst, swap });
            }
        }
    }
    for src in 0..2u8 {
        for dst in 0..2u8 {
            v.push(Act::Ident { src, dst });
        }
    }
    v
}

#[derive(Clone, Debug, Serialize, Deserialize)]
pub struct ProgCase {
    pub backend: String,
    pub p: Params,
    pub init: (u32, u32),
    pub program: Vec<Act>,
}

pub struct Regs<B: Bk> {
    pub ct: [Arc<FheUint<Vec<u8>, u32>>; 2],
    pub ct_plain: [u32; 2],
    pub prep: [Arc<Prep<B, u32>>; 2],
    pub prep_plain: [u32; 2],
}

impl<B: Bk> Clone for Regs<B> {
    fn clone(&self) -> Self {
        Regs {
            ct: [self.ct[0].clone(), self.ct[1].clone()],
            ct_plain: self.ct_plain,
            prep: [self.prep[0].clone(), self.prep[1].clone()],
            prep_plain: self.prep_plain,
        }
    }
}

/// a failed step: (op name, kind, details)
pub type StepFail = (String, &'static str, Value);

fn check_prepared<B: Bk>(ctx: &Ctx<B>, p: &Prep<B, u32>, want: u32) -> Result<(), StepFail>
where
    Module<B>: HalAll<B> + CoreAll<B> + UintAll<B>,
    Scratch<B>: ScratchTakeCore<B>,
    ScratchOwned<B>: ScratchOwnedAlloc<B> + ScratchOwnedBorrow<B>,
{
    let mut s = arena::<B>(ctx, 0);
    match observe_prepared::<B, u32, _>(ctx, p, B::borrow(&mut s)) {
        Err(e) => Err(("prepare".into(), "panic", json!({"panic": e}))),
        Ok(o) => {
            NOISE_PREPARED.update(o.max_rel);
            if o.value != want as u64 || !o.bad.is_empty() {
                Err(("prepare".into(), "wrong_value", json!({"got": o.value, "want": want, "bad_bits": o.bad.iter().take(8).collect::<Vec<_>>()})))
            } else {
                Ok(())
            }
        }
    }
}

pub fn init_regs<B: Bk>(ctx: &Ctx<B>, init: (u32, u32), seed: u64) -> Result<Regs<B>, StepFail>
where
    Module<B>: HalAll<B> + CoreAll<B> + UintAll<B>,
    Scratch<B>: ScratchTakeCore<B>,
    ScratchOwned<B>: ScratchOwnedAlloc<B> + ScratchOwnedBorrow<B>,
{
    let mk = |w: u32, tag: u64| -> Result<(FheUint<Vec<u8>, u32>, Prep<B, u32>), StepFail> {
        let ct = guarded(|| encrypt_word::<B, u32>(ctx, w, seed ^ tag)).map_err(|e| ("encrypt_sk".to_string(), "panic", json!({"panic": e})))?;
        let p = prepare_word::<B, u32>(ctx, &ct, 0).map_err(|e| ("prepare".to_string(), "panic", json!({"panic": e})))?;
        check_prepared(ctx, &p, w)?;
        Ok((ct, p))
    };
    let (c0, p0) = mk(init.0, 0x1000 + init.0 as u64)?;
    let (c1, p1) = mk(init.1, 0x2000 + ((init.1 as u64) << 1))?;
    Ok(Regs {
        ct: [Arc::new(c0), Arc::new(c1)],
        ct_plain: [init.0, init.1],
        prep: [Arc::new(p0), Arc::new(p1)],
        prep_plain: [init.0, init.1],
    })
}

/// one transition: performs the real call, validates the written object, returns the new register file and the
/// value written (for the determinism digest)
pub fn step<B: Bk>(ctx: &Ctx<B>, r: &Regs<B>, act: Act, gf: usize) -> Result<(Regs<B>, u32), StepFail>
where
    Module<B>: HalAll<B> + CoreAll<B> + UintAll<B>,
    Scratch<B>: ScratchTakeCore<B>,
    ScratchOwned<B>: ScratchOwnedAlloc<B> + ScratchOwnedBorrow<B>,
{
    let mut n = r.clone();
    match act {
        Act::Prepare(i) => {
            let i = i as usize;
            let p = prepare_word::<B, u32>(ctx, &r.ct[i], gf).map_err(|e| ("prepare".to_string(), "panic", json!({"panic": e})))?;
            check_prepared(ctx, &p, r.ct_plain[i])?;
            n.prep[i] = Arc::new(p);
            n.prep_plain[i] = r.ct_plain[i];
            Ok((n, r.ct_plain[i]))
        }
        Act::Op2 { .. } | Act::Ident { .. } => {
            let (op, x, y, dst) = match act {
                Act::Op2 { op, dst, swap } => (op, if swap { 1 } else { 0 }, if swap { 0 } else { 1 }, dst as usize),
                Act::Ident { src, dst } => (WOp::Identity, src as usize, src as usize, dst as usize),
                _ => unreachable!(),
            };
            let want = op.plain(r.prep_plain[x], r.prep_plain[y]);
            let mut res = alloc_word::<B, u32>(ctx, gf);
            let mut s = garbage_scratch::<B>(op_bytes::<B>(ctx, op, 1), gf);
            guarded(|| apply_op::<B, _, _>(ctx, op, &mut res, &*r.prep[x], &*r.prep[y], 1, B::borrow(&mut s)))
                .map_err(|e| (op.name().to_string(), "panic", json!({"panic": e})))?;
            let rd = read_ct(ctx, &res, 32);
            NOISE_PACKED.update(rd.max_rel);
            if let Some((kind, extra)) = judge_word(&rd, want as u64) {
                return Err((op.name().to_string(), kind, extra));
            }
            n.ct[dst] = Arc::new(res);
            n.ct_plain[dst] = want;
            Ok((n, want))
        }
    }
}

// ---------------------------------------------------------------------------------------------
// stateright model
// ---------------------------------------------------------------------------------------------

pub struct PState<B: Bk> {
    pub init_idx: u8,
    pub prog: Vec<u8>,
    pub regs: Option<Regs<B>>,
    pub failed: bool,
}

impl<B: Bk> Clone for PState<B> {
    fn clone(&self) -> Self {
        PState {
            init_idx: self.init_idx,
            prog: self.prog.clone(),
            regs: self.regs.clone(),
            failed: self.failed,
        }
    }
}
impl<B: Bk> Hash for PState<B> {
    fn hash<H: Hasher>(&self, state: &mut H) {
        self.init_idx.hash(state);
        self.prog.hash(state);
    }
}
impl<B: Bk> PartialEq for PState<B> {
    fn eq(&self, o: &Self) -> bool {
        self.init_idx == o.init_idx && self.prog == o.prog
    }
}

#[derive(Default)]
pub struct Sink {
    pub failures: Mutex<Vec<Value>>,
    pub transitions: AtomicU64,
    pub leaves_ok: AtomicU64,
    /// order-independent digest of (program, written value) per depth
    pub digest: [AtomicU64; 8],
    pub per_depth: [AtomicU64; 8],
    /// the wall cap was reached: no further states are expanded
    pub capped: std::sync::atomic::AtomicBool,
}

pub struct ProgModel<B: Bk> {
    pub ctx: Arc<Ctx<B>>,
    pub depth: usize,
    pub inits: Vec<(u32, u32)>,
    /// initial register files (None: the initial encryption / preparation already failed and was reported)
    pub init_regs: Vec<Option<Regs<B>>>,
    /// shard: only this action is enabled in the initial states (stateright shares work between its threads in blocks
    /// of 1500 states, far more than a whole shard here, so parallelism comes from running one checker per first action)
    pub first: Option<u8>,
    pub acts: Vec<Act>,
    pub sink: Arc<Sink>,
    pub deadline: std::time::Instant,
}

impl<B: Bk> ProgModel<B> {
    fn case(&self, s: &PState<B>, upto: &[u8]) -> ProgCase {
        ProgCase {
            backend: B::NAME.into(),
            p: self.ctx.p,
            init: self.inits[s.init_idx as usize],
            program: upto.iter().map(|i| self.acts[*i as usize]).collect(),
        }
    }
}

impl<B: Bk> Model for ProgModel<B>
where
    Module<B>: HalAll<B> + CoreAll<B> + UintAll<B>,
    Scratch<B>: ScratchTakeCore<B>,
    ScratchOwned<B>: ScratchOwnedAlloc<B> + ScratchOwnedBorrow<B>,
{
    type State = PState<B>;
    type Action = u8;

    fn init_states(&self) -> Vec<PState<B>> {
        self.init_regs
            .iter()
            .enumerate()
            .map(|(i, r)| PState {
                init_idx: i as u8,
                prog: vec![],
                regs: r.clone(),
                failed: r.is_none(),
            })
            .collect()
    }

    fn actions(&self, s: &PState<B>, out: &mut Vec<u8>) {
        if s.failed || s.prog.len() >= self.depth {
            return;
        }
        if std::time::Instant::now() > self.deadline {
            self.sink.capped.store(true, Ordering::Relaxed);
            return;
        }
        match (s.prog.is_empty(), self.first) {
            (true, Some(f)) => out.push(f),
            _ => out.extend(0..self.acts.len() as u8),
        }
    }

    fn next_state(&self, s: &PState<B>, a: u8) -> Option<PState<B>> {
        let mut prog = s.prog.clone();
        prog.push(a);
        let d = prog.len();
        let gf = (fnv(&prog) & 1) as usize;
        self.sink.transitions.fetch_add(1, Ordering::Relaxed);
        self.sink.per_depth[d.min(7)].fetch_add(1, Ordering::Relaxed);
        let mut next = PState {
            init_idx: s.init_idx,
            prog,
            regs: None,
            failed: false,
        };
        match step::<B>(&self.ctx, s.regs.as_ref().expect("live state has registers"), self.acts[a as usize], gf) {
            Ok((regs, written)) => {
                let mut key = vec![s.init_idx];
                key.extend(&next.prog);
                key.extend(written.to_le_bytes());
                self.sink.digest[d.min(7)].fetch_xor(fnv(&key), Ordering::Relaxed);
                if d == self.depth {
                    self.sink.leaves_ok.fetch_add(1, Ordering::Relaxed);
                    // leaves are never expanded: drop the heavy payload
                } else {
                    next.regs = Some(regs);
                }
            }
            Err((op, kind, extra)) => {
                next.failed = true;
                let c = self.case(&next, &next.prog);
                self.sink.failures.lock().unwrap().push(desc(&op, B::NAME, kind, &c, json!({"step": d, "action": self.acts[a as usize]}), extra));
            }
        }
        Some(next)
    }

    fn properties(&self) -> Vec<Property<Self>> {
        vec![
            Property::always("every transition writes the plain u32 result", |_, s: &PState<B>| !s.failed),
            // never satisfied: keeps the search running to exhaustion after a first counterexample
            Property::sometimes("sentinel", |_, _| false),
        ]
    }
}

fn run_model<B: Bk>(
    ctx: &Arc<Ctx<B>>,
    depth: usize,
    inits: &[(u32, u32)],
    seed: u64,
    deadline: std::time::Instant,
) -> (Arc<Sink>, usize, usize)
where
    Module<B>: HalAll<B> + CoreAll<B> + UintAll<B>,
    Scratch<B>: ScratchTakeCore<B>,
    ScratchOwned<B>: ScratchOwnedAlloc<B> + ScratchOwnedBorrow<B>,
    Ctx<B>: Send + Sync,
    PState<B>: Send + Sync,
{
    let sink = Arc::new(Sink::default());
    let acts = all_actions();
    // initial register files, once
    let mut init_r: Vec<Option<Regs<B>>> = vec![];
    for init in inits {
        sink.per_depth[0].fetch_add(1, Ordering::Relaxed);
        match init_regs::<B>(ctx, *init, seed) {
            Ok(r) => init_r.push(Some(r)),
            Err((op, kind, extra)) => {
                let c = ProgCase {
                    backend: B::NAME.into(),
                    p: ctx.p,
                    init: *init,
                    program: vec![],
                };
                sink.failures.lock().unwrap().push(desc(&op, B::NAME, kind, &c, json!({"step": 0}), extra));
                init_r.push(None);
            }
        }
    }
    let shards: Vec<u8> = if depth == 0 { vec![] } else { (0..acts.len() as u8).collect() };
    let next = std::sync::atomic::AtomicUsize::new(0);
    let unique = std::sync::atomic::AtomicUsize::new(inits.len());
    let total = std::sync::atomic::AtomicUsize::new(inits.len());
    let workers = pvc_engine::threads().min(shards.len().max(1));
    std::thread::scope(|sc| {
        for _ in 0..workers {
            sc.spawn(|| {
                loop {
                    let i = next.fetch_add(1, Ordering::Relaxed);
                    if i >= shards.len() {
                        break;
                    }
                    let model = ProgModel::<B> {
                        ctx: ctx.clone(),
                        depth,
                        inits: inits.to_vec(),
                        init_regs: init_r.clone(),
                        first: Some(shards[i]),
                        acts: acts.clone(),
                        sink: sink.clone(),
                        deadline,
                    };
                    let checker = model.checker().threads(1).spawn_dfs().join();
                    // the initial states are shared by all shards: count them once
                    unique.fetch_add(checker.unique_state_count() - inits.len(), Ordering::Relaxed);
                    total.fetch_add(checker.state_count() - inits.len(), Ordering::Relaxed);
                }
            });
        }
    });
    (sink, unique.into_inner(), total.into_inner())
}

pub fn fam_programs<B: Bk>(run: &mut Run, pool: &Pool<B>, plans: &[(Params, usize, Vec<(u32, u32)>)])
where
    Module<B>: HalAll<B> + CoreAll<B> + UintAll<B>,
    Scratch<B>: ScratchTakeCore<B>,
    ScratchOwned<B>: ScratchOwnedAlloc<B> + ScratchOwnedBorrow<B>,
    Ctx<B>: Send + Sync,
    PState<B>: Send + Sync,
{
    let seed = run.seed;
    let deadline = run.start + std::time::Duration::from_secs_f64(run.wall_cap_s);
    for (p, depth, inits) in plans {
        let ctx = pool.get(p).clone();
        let name = format!("programs/{}/N{}/depth{}", B::NAME, p.n_glwe, depth);
        if !run.wants(&name) {
            continue;
        }
        if std::time::Instant::now() > deadline {
            run.note(&format!("capped/{name}"), json!("wall cap reached before this search started: not run"));
            continue;
        }
        let nacts = all_actions().len() as u64;
        let mut states = 0u64;
        let mut transitions = 0u64;
        let mut traces = 0u64;
        run.single(
            &name,
            "E2 (stateright DFS, one checker per first action run on all cores): registers = 2 x (packed ciphertext, prepared form) + plain values; 46 actions (10 two-word operations x destination x operand order, identity x source x destination, re-preparation of either register), all enabled everywhere; state identity = initial pair + action sequence (no merging): ALL programs up to the depth bound; every transition = real library call + validation of the written object against Rust u32 semantics; run twice to the comparison depth, per-depth digests of (program, written value) must agree",
            |rec: &mut Rec| {
                let (sink, unique, total) = run_model::<B>(&ctx, *depth, inits, seed, deadline);
                for f in sink.failures.lock().unwrap().drain(..) {
                    rec.fail(f);
                }
                transitions = sink.transitions.load(Ordering::Relaxed);
                traces = sink.leaves_ok.load(Ordering::Relaxed);
                states = unique as u64;
                rec.evals(transitions);
                rec.add("states_unique", unique as u64);
                rec.add("states_generated", total as u64);
                rec.add("transitions", transitions);
                rec.add("programs_validated_to_full_depth", traces);
                for d in 0..=*depth {
                    rec.add(&format!("states_at_depth_{d}"), sink.per_depth[d].load(Ordering::Relaxed));
                    rec.distinct(sink.digest[d].load(Ordering::Relaxed) ^ d as u64);
                }
                rec.sample(|| json!({"init": inits, "depth": depth, "actions": nacts}));
                let capped = sink.capped.load(Ordering::Relaxed);
                rec.add("capped_by_wall_clock", capped as u64);
                let clean = rec.failures.is_empty() && !capped;
                // expected size of the program tree when nothing fails
                let expect: u64 = (0..=*depth as u32).map(|d| inits.len() as u64 * nacts.pow(d)).sum();
                if clean && states != expect {
                    rec.fail(json!({"op": "programs", "backend": B::NAME, "kind": "engine_mismatch", "case": {"p": p, "backend": B::NAME}, "inner": {},
                        "states": states, "expected": expect}));
                }
                // determinism: re-run to the comparison depth (full depth when <= 2) and compare per-depth digests
                let cmp = (*depth).min(2);
                let (sink2, _, _) = run_model::<B>(&ctx, cmp, inits, seed, deadline);
                rec.add("rerun_transitions", sink2.transitions.load(Ordering::Relaxed));
                if clean && !sink2.capped.load(Ordering::Relaxed) {
                    for d in 1..=cmp {
                        let (x, y) = (sink.digest[d].load(Ordering::Relaxed), sink2.digest[d].load(Ordering::Relaxed));
                        if x != y {
                            rec.fail(json!({"op": "programs", "backend": B::NAME, "kind": "nondeterministic", "case": {"p": p, "backend": B::NAME}, "inner": {"depth": d},
                                "digest_first": x, "digest_second": y}));
                        }
                    }
                }
            },
        );
        run.states += states;
        run.transitions += transitions;
        run.traces_validated += traces;
    }
}

/// sequential re-execution of one program
pub fn exec_program<B: Bk>(ctx: &Ctx<B>, c: &ProgCase, seed: u64, rec: &mut Rec)
where
    Module<B>: HalAll<B> + CoreAll<B> + UintAll<B>,
    Scratch<B>: ScratchTakeCore<B>,
    ScratchOwned<B>: ScratchOwnedAlloc<B> + ScratchOwnedBorrow<B>,
{
    let acts = all_actions();
    let mut regs = match init_regs::<B>(ctx, c.init, seed) {
        Ok(r) => r,
        Err((op, kind, extra)) => return rec.fail(desc(&op, B::NAME, kind, c, json!({"step": 0}), extra)),
    };
    let mut prog: Vec<u8> = vec![];
    for (i, a) in c.program.iter().enumerate() {
        let idx = acts.iter().position(|x| x == a).expect("action of the alphabet") as u8;
        prog.push(idx);
        let gf = (fnv(&prog) & 1) as usize;
        rec.evals(1);
        match step::<B>(ctx, &regs, *a, gf) {
            Ok((r, _)) => regs = r,
            Err((op, kind, extra)) => {
                return rec.fail(desc(&op, B::NAME, kind, c, json!({"step": i + 1, "action": a}), extra));
            }
        }
    }
}

pub fn replay<B: Bk>(run: &mut Run, fam: &str, ctx: &Ctx<B>, d: &Value)
where
    Module<B>: HalAll<B> + CoreAll<B> + UintAll<B>,
    Scratch<B>: ScratchTakeCore<B>,
    ScratchOwned<B>: ScratchOwnedAlloc<B> + ScratchOwnedBorrow<B>,
{
    let seed = d["seed"].as_u64().unwrap_or(0);
    let c: ProgCase = serde_json::from_value(d["case"].clone()).expect("program case");
    run.single(fam, "replay", |rec| exec_program::<B>(ctx, &c, seed, rec));
}

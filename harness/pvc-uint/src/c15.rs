//! C15 - encrypted integers: bootstrap, word operations and bit surgery match u32 (engines E1 + E2).
//!
//! Families (one instance per backend and parameter set):
//!   pack            encrypt / decrypt / documented bit layout of FheUint and FheUintPrepared, every boundary word x u8/u16/u32
//!   bits            get_bit_glwe / get_bit_lwe at every bit index, get_byte at every byte
//!   splice          splice_u8 / splice_u16 at every (dst, src), zero_byte, sext from every byte
//!   wordops         all provided word operations on a grid of boundary pairs, through real circuit bootstrapping
//!   shifts          sll/srl/sra for every shift amount 0..63 (and high-bit aliases)
//!   swap/select/retrieve/retriever/blind_rotation/ggsw_rotation   (c15b.rs)
//!   retriever_history  explicit-state search over call histories on one GLWEBlindRetriever (c15b.rs)
//!   cbt             circuit bootstrapping, constant and exponent mode, every GGSW cell decrypted (c15b.rs)
//!   debug_prepare   FheUintPreparedDebug::prepare + noise at every (row, col) (c15b.rs)
//!   prepare_custom  partial preparation for every (start, length), four entry points (c15b.rs)
//!   programs        explicit-state search over short programs of word operations + re-preparation (c15p.rs)

use crate::uctx::*;
use poulpy_bin_fhe::bdd_arithmetic::{
    Add, And, FheUint, FheUintPrepare, FheUintPrepared, FheUintPreparedEncryptSk, FheUintPreparedFactory, GetGGSWBit, Identity,
    Or, ScratchTakeBDD, Sll, Slt, Sltu, Sra, Srl, Sub, Xor,
};
use poulpy_core::layouts::{GLWE, GLWEToMut, GLWEToRef, LWEInfos};
use poulpy_core::{EncryptionLayout, ScratchTakeCore};
use poulpy_hal::api::{ScratchOwnedAlloc, ScratchOwnedBorrow};
use poulpy_hal::layouts::{DataView, DeviceBuf, Module, Scratch, ScratchOwned, ZnxViewMut};
use poulpy_hal::source::Source;
use pvc_common::{Bk, CoreAll, FFT64Avx, FFT64Ref, HalAll, NTT120Avx, NTT120Ref, host_has_avx};
use pvc_engine::rng::{Rng, garbage};
use pvc_engine::{Rec, Run, Tier, fnv, guarded};
use serde::{Deserialize, Serialize};
use serde_json::{Value, json};
use std::sync::Arc;

// ---------------------------------------------------------------------------------------------
// R10: plain word semantics
// ---------------------------------------------------------------------------------------------

#[derive(Clone, Copy, Debug, PartialEq, Eq, Hash, Serialize, Deserialize)]
pub enum WOp {
    Add,
    Sub,
    Sll,
    Srl,
    Sra,
    Slt,
    Sltu,
    And,
    Or,
    Xor,
    Identity,
}

pub const ALL_WOPS: [WOp; 11] =
    [WOp::Add, WOp::Sub, WOp::Sll, WOp::Srl, WOp::Sra, WOp::Slt, WOp::Sltu, WOp::And, WOp::Or, WOp::Xor, WOp::Identity];

impl WOp {
    /// plain Rust semantics on u32 (RISC-V word operations): wrapping add/sub, shift amount = low 5 bits of b,
    /// sra arithmetic, slt signed, sltu unsigned, identity = a
    pub fn plain(self, a: u32, b: u32) -> u32 {
        match self {
            WOp::Add => a.wrapping_add(b),
            WOp::Sub => a.wrapping_sub(b),
            WOp::Sll => a << (b & 31),
            WOp::Srl => a >> (b & 31),
            WOp::Sra => ((a as i32) >> (b & 31)) as u32,
            WOp::Slt => ((a as i32) < (b as i32)) as u32,
            WOp::Sltu => (a < b) as u32,
            WOp::And => a & b,
            WOp::Or => a | b,
            WOp::Xor => a ^ b,
            WOp::Identity => a,
        }
    }
    pub fn name(self) -> &'static str {
        match self {
            WOp::Add => "add",
            WOp::Sub => "sub",
            WOp::Sll => "sll",
            WOp::Srl => "srl",
            WOp::Sra => "sra",
            WOp::Slt => "slt",
            WOp::Sltu => "sltu",
            WOp::And => "and",
            WOp::Or => "or",
            WOp::Xor => "xor",
            WOp::Identity => "identity",
        }
    }
}

// ---------------------------------------------------------------------------------------------
// value alphabets
// ---------------------------------------------------------------------------------------------

/// The 24-element boundary set of u32 words, most important first (the quick tier takes a prefix).
pub fn boundary_u32(seed: u64) -> Vec<u32> {
    let mut r = Rng::new(seed, 0xB0);
    vec![
        0,
        1,
        0x8000_0000,
        0xFFFF_FFFF,
        0x5555_5555,
        0xAAAA_AAAA,
        31,
        32,
        33,
        0x7FFF_FFFF,
        1 << 16,
        63,
        2,
        5,
        0x8000_0001,
        1 << 7,
        1 << 8,
        1 << 15,
        1 << 24,
        1 << 30,
        0xFFFF_0000,
        0x00FF_FF00,
        0xFFFF_FFFE,
        r.next() as u32,
    ]
}

/// boundary words of a narrower type: truncations of the u32 set, de-duplicated, plus the type's own extremes
pub fn boundary_for(bits: usize, seed: u64) -> Vec<u64> {
    let mask = if bits == 32 { 0xFFFF_FFFFu64 } else { (1u64 << bits) - 1 };
    let mut out: Vec<u64> = vec![];
    let mut push = |x: u64| {
        let x = x & mask;
        if !out.contains(&x) {
            out.push(x);
        }
    };
    push(0);
    push(1);
    push(1 << (bits - 1));
    push(mask);
    push(0x5555_5555);
    push(0xAAAA_AAAA);
    push(mask >> 1);
    for w in boundary_u32(seed) {
        push(w as u64);
    }
    for i in 0..bits {
        push(1 << i);
    }
    out
}

// ---------------------------------------------------------------------------------------------
// contexts
// ---------------------------------------------------------------------------------------------

/// key sets of one backend, by parameter set
pub struct Pool<B: Bk> {
    pub ctxs: Vec<Arc<Ctx<B>>>,
}

impl<B: Bk> Pool<B>
where
    Module<B>: HalAll<B> + CoreAll<B> + UintAll<B>,
    Scratch<B>: ScratchTakeCore<B>,
    ScratchOwned<B>: ScratchOwnedAlloc<B> + ScratchOwnedBorrow<B>,
{
    pub fn new(ps: &[Params]) -> Self {
        Pool {
            ctxs: ps.iter().map(|p| Arc::new(Ctx::<B>::new(*p))).collect(),
        }
    }
    pub fn get(&self, p: &Params) -> &Arc<Ctx<B>> {
        self.ctxs.iter().find(|c| c.p == *p).expect("no key set for this parameter set")
    }
}

/// parameter sets: the suite's with N_glwe = 128 (smallest degree that admits the suite's n_lwe = 77 unchanged) is the
/// primary one; N = 256 is the suite's own; N = 64 / 32 need a smaller LWE dimension (the library requires n_lwe <= N_glwe)
pub fn params_primary() -> Params {
    Params::suite(128)
}
pub fn params_suite256() -> Params {
    Params::suite(256)
}
/// the primary set without the intermediate rank-reduction key (ks_glwe = None)
pub fn params_direct_ks() -> Params {
    let mut p = Params::suite(128);
    p.direct_ks = true;
    p
}
pub fn params_small(n: u32) -> Params {
    let mut p = Params::suite(n);
    p.n_lwe = match n {
        64 => 56,
        32 => 28,
        _ => 77,
    };
    p
}

// ---------------------------------------------------------------------------------------------
// pipeline pieces
// ---------------------------------------------------------------------------------------------

pub type Prep<B, T> = FheUintPrepared<DeviceBuf<B>, T, B>;

pub fn garbage_scratch<B: Bk>(bytes: usize, which: usize) -> ScratchOwned<B> {
    let mut s = B::scratch(bytes);
    garbage(&mut B::borrow(&mut s).data, which);
    s
}

/// a generous arena (the suite's density), garbage-filled
pub fn arena<B: Bk>(ctx: &Ctx<B>, which: usize) -> ScratchOwned<B> {
    garbage_scratch::<B>(scratch_bytes(ctx.p.n_glwe), which)
}

/// raw bytes of a ciphertext (to pre-fill result buffers with garbage)
pub fn glwe_bytes_mut<G: GLWEToMut>(ct: &mut G) -> &mut [u8] {
    let mut g = ct.to_mut();
    let raw: &mut [i64] = g.data_mut().raw_mut();
    let (p, l) = (raw.as_mut_ptr(), raw.len());
    // SAFETY: plain reinterpretation of the ciphertext's own i64 buffer as bytes; lifetime tied to `ct`
    unsafe { std::slice::from_raw_parts_mut(p as *mut u8, l * 8) }
}

pub fn alloc_word<B: Bk, T: Word>(ctx: &Ctx<B>, which: usize) -> FheUint<Vec<u8>, T> {
    let mut ct: FheUint<Vec<u8>, T> = FheUint::alloc_from_infos(&ctx.p.glwe_infos());
    garbage(glwe_bytes_mut(&mut ct), which);
    ct
}

pub fn alloc_glwe<B: Bk>(ctx: &Ctx<B>, which: usize) -> GLWE<Vec<u8>> {
    let mut ct: GLWE<Vec<u8>> = GLWE::alloc_from_infos(&ctx.p.glwe_infos());
    garbage(glwe_bytes_mut(&mut ct), which);
    ct
}

/// fresh packed encryption of `w` (encryption randomness from `seed`), exact companion scratch
pub fn encrypt_word<B: Bk, T: Word>(ctx: &Ctx<B>, w: T, seed: u64) -> FheUint<Vec<u8>, T>
where
    Module<B>: HalAll<B> + CoreAll<B> + UintAll<B>,
    Scratch<B>: ScratchTakeCore<B>,
    ScratchOwned<B>: ScratchOwnedAlloc<B> + ScratchOwnedBorrow<B>,
{
    let infos = ctx.p.glwe_infos();
    let enc = EncryptionLayout::new_from_default_sigma(infos).expect("glwe encryption layout");
    let mut r = Rng::new(seed, 0xE1);
    let mut xe = Source::new(r.seed32());
    let mut xa = Source::new(r.seed32());
    let mut ct = alloc_word::<B, T>(ctx, 0);
    let mut s = garbage_scratch::<B>(ct.encrypt_sk_tmp_bytes(&ctx.module), (seed & 1) as usize);
    ct.encrypt_sk(&ctx.module, w, &ctx.sk_prep, &enc, &mut xe, &mut xa, B::borrow(&mut s));
    ct
}

/// exact phase read-out of a packed word
pub fn read_ct<B: Bk, G: GLWEToRef>(ctx: &Ctx<B>, ct: &G, word_bits: usize) -> WordRead {
    let g = ct.to_ref();
    let (ph, bits) = glwe_phase(g.data(), g.base2k().as_usize(), &ctx.sk_clear);
    read_word(&ph, bits, word_bits)
}

/// direct (bootstrapping-free) encryption of every bit as GGSW, with a given GGSW layout
pub fn encrypt_prepared<B: Bk, T: Word>(ctx: &Ctx<B>, w: T, k: u32, dnum: u32, seed: u64) -> Prep<B, T>
where
    Module<B>: HalAll<B> + CoreAll<B> + UintAll<B> + FheUintPreparedFactory<T, B> + FheUintPreparedEncryptSk<T, B>,
    Scratch<B>: ScratchTakeCore<B>,
    ScratchOwned<B>: ScratchOwnedAlloc<B> + ScratchOwnedBorrow<B>,
{
    encrypt_prepared_layout::<B, T>(ctx, w, ctx.p.ggsw_infos_with(k, dnum), seed)
}

/// selector layouts whose radix differs from the integers' (base2k 13): 0 / 13 = the equal-radix layout with `rows`
/// digits; 11 and 16 = a finer and a coarser radix with enough digits to cover the same `rows * 13` bits
pub fn selector_layout(p: &Params, sel_base2k: u32, rows: u32) -> poulpy_core::layouts::GGSWLayout {
    use poulpy_core::layouts::{Base2K, Dnum, TorusPrecision};
    let mut l = p.ggsw_infos_with((rows + 1) * p.base2k, rows);
    if sel_base2k != 0 && sel_base2k != p.base2k {
        let dnum = (rows * p.base2k).div_ceil(sel_base2k);
        l.base2k = Base2K(sel_base2k);
        l.dnum = Dnum(dnum);
        l.k = TorusPrecision((dnum + 1) * sel_base2k);
    }
    l
}

/// direct GGSW encryption of every bit with an explicit layout
pub fn encrypt_prepared_layout<B: Bk, T: Word>(ctx: &Ctx<B>, w: T, infos: poulpy_core::layouts::GGSWLayout, seed: u64) -> Prep<B, T>
where
    Module<B>: HalAll<B> + CoreAll<B> + UintAll<B> + FheUintPreparedFactory<T, B> + FheUintPreparedEncryptSk<T, B>,
    Scratch<B>: ScratchTakeCore<B>,
    ScratchOwned<B>: ScratchOwnedAlloc<B> + ScratchOwnedBorrow<B>,
{
    let enc = EncryptionLayout::new_from_default_sigma(infos).expect("ggsw encryption layout");
    let mut r = Rng::new(seed, 0xE2);
    let mut xe = Source::new(r.seed32());
    let mut xa = Source::new(r.seed32());
    let mut p: Prep<B, T> = FheUintPrepared::alloc_from_infos(&ctx.module, &infos);
    let mut s = arena::<B>(ctx, (seed & 1) as usize);
    p.encrypt_sk(&ctx.module, w, &ctx.sk_prep, &enc, &mut xe, &mut xa, B::borrow(&mut s));
    p
}

pub fn prepare_bytes<B: Bk>(ctx: &Ctx<B>, threads: usize) -> usize
where
    Module<B>: HalAll<B> + CoreAll<B> + UintAll<B>,
    Scratch<B>: ScratchTakeCore<B>,
    ScratchOwned<B>: ScratchOwnedAlloc<B> + ScratchOwnedBorrow<B>,
{
    threads.max(1)
        * ctx.module.fhe_uint_prepare_tmp_bytes(
            ctx.p.block_size as usize,
            1,
            &ctx.p.ggsw_infos(),
            &ctx.p.glwe_infos(),
            &ctx.key,
        )
}

/// full preparation through circuit bootstrapping (the real pipeline), with the documented scratch size
pub fn prepare_word<B: Bk, T: Word>(ctx: &Ctx<B>, ct: &FheUint<Vec<u8>, T>, which: usize) -> Result<Prep<B, T>, String>
where
    Module<B>: HalAll<B> + CoreAll<B> + UintAll<B> + FheUintPreparedFactory<T, B>,
    Scratch<B>: ScratchTakeCore<B>,
    ScratchOwned<B>: ScratchOwnedAlloc<B> + ScratchOwnedBorrow<B>,
{
    let mut p: Prep<B, T> = FheUintPrepared::alloc_from_infos(&ctx.module, &ctx.p.ggsw_infos());
    let mut s = garbage_scratch::<B>(prepare_bytes::<B>(ctx, 1), which);
    guarded(|| p.prepare(&ctx.module, ct, &ctx.key, B::borrow(&mut s)))?;
    Ok(p)
}

/// What the bits of a prepared word do when used as CMux selectors (the defining use of a prepared bit):
/// for every bit i, cmux(ONE, ZERO, bit_i) on noiseless constants.
pub struct PrepObs {
    /// word assembled from coefficient 0 of every CMux output (scale 1/4)
    pub value: u64,
    /// (bit, what) for outputs that are not 0 or 1/4 at coefficient 0 or not 0 elsewhere
    pub bad: Vec<(usize, String)>,
    pub max_rel: f64,
    /// per bit: every byte of the prepared GGSW is zero
    pub zero_bytes: Vec<bool>,
    /// per bit: the CMux output phase is exactly zero at every coefficient
    pub exact_zero_out: Vec<bool>,
}

pub fn observe_prepared<B: Bk, T: Word, D: poulpy_hal::layouts::DataRef>(
    ctx: &Ctx<B>,
    p: &FheUintPrepared<D, T, B>,
    scratch: &mut Scratch<B>,
) -> Result<PrepObs, String>
where
    Module<B>: HalAll<B> + CoreAll<B> + UintAll<B>,
    Scratch<B>: ScratchTakeCore<B>,
    ScratchOwned<B>: ScratchOwnedAlloc<B> + ScratchOwnedBorrow<B>,
{
    use poulpy_bin_fhe::bdd_arithmetic::Cmux;
    let infos = ctx.p.glwe_infos();
    let b = ctx.p.base2k as usize;
    let zero: GLWE<Vec<u8>> = GLWE::alloc_from_infos(&infos);
    let mut one: GLWE<Vec<u8>> = GLWE::alloc_from_infos(&infos);
    // noiseless constant 1/4: limb 0 of the body holds 2^(b-2) at coefficient 0
    one.data_mut().at_mut(0, 0)[0] = 1i64 << (b - 2);
    let mut o = PrepObs {
        value: 0,
        bad: vec![],
        max_rel: 0.0,
        zero_bytes: vec![],
        exact_zero_out: vec![],
    };
    for i in 0..T::bits() {
        let bit = p.get_bit(i);
        o.zero_bytes.push(bit.data().data().iter().all(|x| *x == 0));
        let mut res = alloc_glwe::<B>(ctx, i & 1);
        guarded(|| ctx.module.cmux(&mut res, &one, &zero, &bit, scratch)).map_err(|e| format!("cmux on bit {i}: {e}"))?;
        let (ph, bits) = glwe_phase(res.data(), b, &ctx.sk_clear);
        o.exact_zero_out.push(ph.iter().all(|x| *x == 0));
        for (c, &x) in ph.iter().enumerate() {
            let (q, rel) = round_at(x, bits, 2);
            let q = q.rem_euclid(4);
            o.max_rel = o.max_rel.max(rel.abs());
            if c == 0 {
                match q {
                    0 => {}
                    1 => o.value |= 1 << i,
                    other => o.bad.push((i, format!("selects {other}/4 at coefficient 0"))),
                }
            } else if q != 0 {
                o.bad.push((i, format!("coefficient {c} selects {q}/4")));
            }
        }
    }
    Ok(o)
}

/// per-op scratch: the op's own companion query (identity has none: the largest of the others)
pub fn op_bytes<B: Bk>(ctx: &Ctx<B>, op: WOp, threads: usize) -> usize
where
    Module<B>: HalAll<B> + CoreAll<B> + UintAll<B>,
    Scratch<B>: ScratchTakeCore<B>,
    ScratchOwned<B>: ScratchOwnedAlloc<B> + ScratchOwnedBorrow<B>,
{
    let res: FheUint<Vec<u8>, u32> = FheUint::alloc_from_infos(&ctx.p.glwe_infos());
    let (m, gl, gg, k) = (&ctx.module, &ctx.p.glwe_infos(), &ctx.p.ggsw_infos(), &ctx.key);
    macro_rules! q {
        ($st:ident, $mt:ident) => {
            if threads <= 1 { res.$st(m, gl, gg, k) } else { res.$mt(m, threads, gl, gg, k) }
        };
    }
    match op {
        WOp::Add => q!(add_tmp_bytes, add_multi_thread_tmp_bytes),
        WOp::Sub => q!(sub_tmp_bytes, sub_multi_thread_tmp_bytes),
        WOp::Sll => q!(sll_tmp_bytes, sll_multi_thread_tmp_bytes),
        WOp::Srl => q!(srl_tmp_bytes, srl_multi_thread_tmp_bytes),
        WOp::Sra => q!(sra_tmp_bytes, sra_multi_thread_tmp_bytes),
        WOp::Slt => q!(slt_tmp_bytes, slt_multi_thread_tmp_bytes),
        WOp::Sltu => q!(sltu_tmp_bytes, sltu_multi_thread_tmp_bytes),
        WOp::And => q!(and_tmp_bytes, and_multi_thread_tmp_bytes),
        WOp::Or => q!(or_tmp_bytes, or_multi_thread_tmp_bytes),
        WOp::Xor => q!(xor_tmp_bytes, xor_multi_thread_tmp_bytes),
        WOp::Identity => ALL_WOPS.iter().filter(|o| **o != WOp::Identity).map(|o| op_bytes::<B>(ctx, *o, threads)).max().unwrap(),
    }
}

/// the real call of one word operation (threads = 1 -> single-thread entry point, else the _multi_thread one)
pub fn apply_op<B: Bk, DA: poulpy_hal::layouts::DataRef, DB: poulpy_hal::layouts::DataRef>(
    ctx: &Ctx<B>,
    op: WOp,
    res: &mut FheUint<Vec<u8>, u32>,
    a: &FheUintPrepared<DA, u32, B>,
    b: &FheUintPrepared<DB, u32, B>,
    threads: usize,
    scratch: &mut Scratch<B>,
) where
    Module<B>: HalAll<B> + CoreAll<B> + UintAll<B>,
    Scratch<B>: ScratchTakeCore<B>,
    ScratchOwned<B>: ScratchOwnedAlloc<B> + ScratchOwnedBorrow<B>,
{
    let m = &ctx.module;
    let k = &ctx.key;
    macro_rules! two {
        ($st:ident, $mt:ident) => {
            if threads <= 1 { res.$st(m, a, b, k, scratch) } else { res.$mt(threads, m, a, b, k, scratch) }
        };
    }
    match op {
        WOp::Add => two!(add, add_multi_thread),
        WOp::Sub => two!(sub, sub_multi_thread),
        WOp::Sll => two!(sll, sll_multi_thread),
        WOp::Srl => two!(srl, srl_multi_thread),
        WOp::Sra => two!(sra, sra_multi_thread),
        WOp::Slt => two!(slt, slt_multi_thread),
        WOp::Sltu => two!(sltu, sltu_multi_thread),
        WOp::And => two!(and, and_multi_thread),
        WOp::Or => two!(or, or_multi_thread),
        WOp::Xor => two!(xor, xor_multi_thread),
        WOp::Identity => {
            if threads <= 1 { res.identity(m, a, k, scratch) } else { res.identity_multi_thread(threads, m, a, k, scratch) }
        }
    }
}

/// top-level failure descriptor: op/backend/kind/case/inner + classification fields
pub fn desc<C: Serialize>(op: &str, backend: &str, kind: &str, c: &C, inner: Value, extra: Value) -> Value {
    let mut d = json!({"op": op, "backend": backend, "kind": kind, "case": c, "inner": inner});
    if let (Value::Object(m), Value::Object(e)) = (&mut d, extra) {
        for (k, v) in e {
            m.insert(k, v);
        }
    }
    d
}

/// compares a packed result with the expected word: value, stray coefficients, non-binary slots
pub fn judge_word(r: &WordRead, want: u64) -> Option<(&'static str, Value)> {
    if !r.non_binary.is_empty() {
        return Some(("wrong_value", json!({"non_binary_slots": r.non_binary, "got": r.value, "want": want})));
    }
    if r.value != want {
        return Some(("wrong_value", json!({"got": r.value, "want": want, "xor": r.value ^ want})));
    }
    if !r.stray.is_empty() {
        let s: Vec<_> = r.stray.iter().take(8).collect();
        return Some(("stray_coefficient", json!({"stray": s, "stray_count": r.stray.len(), "got": r.value, "want": want})));
    }
    None
}

pub static NOISE_PACKED: MaxF64 = MaxF64::new();
pub static NOISE_PREPARED: MaxF64 = MaxF64::new();

// ---------------------------------------------------------------------------------------------
// family pack
// ---------------------------------------------------------------------------------------------

#[derive(Clone, Debug, Serialize, Deserialize)]
pub struct PackCase {
    pub backend: String,
    pub p: Params,
    pub width: String,
    pub word: u64,
}

fn exec_pack_t<B: Bk, T: Word>(ctx: &Ctx<B>, c: &PackCase, seed: u64, rec: &mut Rec)
where
    Module<B>: HalAll<B> + CoreAll<B> + UintAll<B> + FheUintPreparedFactory<T, B> + FheUintPreparedEncryptSk<T, B>,
    Scratch<B>: ScratchTakeCore<B> + ScratchTakeBDD<T, B>,
    ScratchOwned<B>: ScratchOwnedAlloc<B> + ScratchOwnedBorrow<B>,
{
    let h = fnv(format!("{c:?}").as_bytes());
    let w = T::from_u64(c.word);
    rec.distinct(h);
    rec.sample(|| serde_json::to_value(c).unwrap());
    let fail = |rec: &mut Rec, op: &str, kind: &str, extra: Value| {
        rec.fail(desc(op, B::NAME, kind, c, json!({}), extra));
    };
    // 1. encrypt, read the exact phase by the documented layout
    let ct = match guarded(|| encrypt_word::<B, T>(ctx, w, seed ^ h)) {
        Ok(ct) => ct,
        Err(e) => return fail(rec, "encrypt_sk", "panic", json!({"panic": e})),
    };
    rec.evals(1);
    let rd = read_ct(ctx, &ct, T::bits());
    NOISE_PACKED.update(rd.max_rel);
    rec.outcome(rd.value);
    if let Some((kind, extra)) = judge_word(&rd, c.word) {
        fail(rec, "encrypt_sk", kind, extra);
    }
    // 2. the library's own decryption, with exactly the companion scratch size
    let mut s = garbage_scratch::<B>(ct.decrypt_tmp_bytes(&ctx.module), (h & 1) as usize);
    match guarded(|| ct.decrypt(&ctx.module, &ctx.sk_prep, B::borrow(&mut s))) {
        Ok(got) => {
            rec.evals(1);
            if got != w {
                fail(rec, "decrypt", "wrong_value", json!({"got": got.to_u64(), "want": c.word}));
            }
        }
        Err(e) => fail(rec, "decrypt", "panic", json!({"panic": e})),
    }
    // 3. direct GGSW encryption of every bit, observed through CMux and through the library's debug decryption
    let mut s = arena::<B>(ctx, ((h >> 1) & 1) as usize);
    match guarded(|| encrypt_prepared::<B, T>(ctx, w, ctx.p.k_ggsw, ctx.p.ggsw_dnum, seed ^ h)) {
        Ok(p) => {
            rec.evals(1);
            match observe_prepared::<B, T, _>(ctx, &p, B::borrow(&mut s)) {
                Ok(o) => {
                    NOISE_PREPARED.update(o.max_rel);
                    if o.value != c.word || !o.bad.is_empty() {
                        fail(
                            rec,
                            "prepared_encrypt_sk",
                            "wrong_value",
                            json!({"got": o.value, "want": c.word, "bad_bits": o.bad.iter().take(8).collect::<Vec<_>>()}),
                        );
                    }
                }
                Err(e) => fail(rec, "prepared_encrypt_sk", "panic", json!({"panic": e})),
            }
            match guarded(|| p.decrypt(&ctx.module, &ctx.sk_prep, &ctx.key, B::borrow(&mut s))) {
                Ok(got) => {
                    rec.evals(1);
                    if got != w {
                        fail(rec, "prepared_decrypt", "wrong_value", json!({"got": got.to_u64(), "want": c.word}));
                    }
                }
                Err(e) => fail(rec, "prepared_decrypt", "panic", json!({"panic": e})),
            }
            // from_fhe_uint_prepared must produce the documented packed layout
            let mut back = alloc_word::<B, T>(ctx, 1);
            match guarded(|| back.from_fhe_uint_prepared(&ctx.module, &p, &ctx.key, B::borrow(&mut s))) {
                Ok(()) => {
                    rec.evals(1);
                    let rd = read_ct(ctx, &back, T::bits());
                    NOISE_PACKED.update(rd.max_rel);
                    if let Some((kind, extra)) = judge_word(&rd, c.word) {
                        fail(rec, "from_fhe_uint_prepared", kind, extra);
                    }
                }
                Err(e) => fail(rec, "from_fhe_uint_prepared", "panic", json!({"panic": e})),
            }
        }
        Err(e) => fail(rec, "prepared_encrypt_sk", "panic", json!({"panic": e})),
    }
}

pub fn exec_pack<B: Bk>(ctx: &Ctx<B>, c: &PackCase, seed: u64, rec: &mut Rec)
where
    Module<B>: HalAll<B> + CoreAll<B> + UintAll<B>,
    Scratch<B>: ScratchTakeCore<B>,
    ScratchOwned<B>: ScratchOwnedAlloc<B> + ScratchOwnedBorrow<B>,
{
    match c.width.as_str() {
        "u8" => exec_pack_t::<B, u8>(ctx, c, seed, rec),
        "u16" => exec_pack_t::<B, u16>(ctx, c, seed, rec),
        "u32" => exec_pack_t::<B, u32>(ctx, c, seed, rec),
        o => panic!("unknown width {o}"),
    }
}

pub const WIDTHS: [(&str, usize); 3] = [("u8", 8), ("u16", 16), ("u32", 32)];

fn fam_pack<B: Bk>(run: &mut Run, pool: &Pool<B>, ps: &[Params])
where
    Module<B>: HalAll<B> + CoreAll<B> + UintAll<B>,
    Scratch<B>: ScratchTakeCore<B>,
    ScratchOwned<B>: ScratchOwnedAlloc<B> + ScratchOwnedBorrow<B>,
{
    let seed = run.seed;
    let mut cases = vec![];
    for p in ps {
        for (wname, bits) in WIDTHS {
            for word in boundary_for(bits, seed) {
                cases.push(PackCase {
                    backend: B::NAME.into(),
                    p: *p,
                    width: wname.into(),
                    word,
                });
            }
        }
    }
    run.family(
        &format!("pack/{}", B::NAME),
        "outer = (parameter set, width u8/u16/u32, every boundary word incl. every single bit); per case: encrypt_sk -> exact phase read by the documented layout (every coefficient: bit i at ((i&7)<<LOG_BYTES|(i>>3))<<log_gap, all others 0), library decrypt with companion scratch, direct GGSW encryption of every bit observed through CMux on constants, FheUintPrepared::decrypt, from_fhe_uint_prepared layout",
        cases,
        |c, rec| exec_pack::<B>(pool.get(&c.p), c, seed, rec),
    );
}

// ---------------------------------------------------------------------------------------------
// family wordops / shifts
// ---------------------------------------------------------------------------------------------

#[derive(Clone, Debug, Serialize, Deserialize)]
pub struct OpsCase {
    pub backend: String,
    pub p: Params,
    pub a: u32,
    pub b: u32,
    /// 1 = single-thread entry points, >1 = *_multi_thread
    pub threads: usize,
    /// operations applied to this pair
    pub ops: Vec<WOp>,
    /// b's bits are encrypted directly as GGSW (no bootstrapping); a always goes through circuit bootstrapping
    #[serde(default)]
    pub b_direct: bool,
}

pub fn exec_ops<B: Bk>(ctx: &Ctx<B>, c: &OpsCase, only: Option<WOp>, seed: u64, rec: &mut Rec)
where
    Module<B>: HalAll<B> + CoreAll<B> + UintAll<B>,
    Scratch<B>: ScratchTakeCore<B>,
    ScratchOwned<B>: ScratchOwnedAlloc<B> + ScratchOwnedBorrow<B>,
{
    let h = fnv(format!("{c:?}").as_bytes());
    rec.sample(|| serde_json::to_value(c).unwrap());
    let gf = (h & 1) as usize;
    let prep = |w: u32, tag: u64| -> Result<Prep<B, u32>, String> {
        let ct = guarded(|| encrypt_word::<B, u32>(ctx, w, seed ^ h ^ tag))?;
        prepare_word::<B, u32>(ctx, &ct, gf)
    };
    let prep_b = |w: u32| -> Result<Prep<B, u32>, String> {
        if c.b_direct {
            guarded(|| encrypt_prepared::<B, u32>(ctx, w, ctx.p.k_ggsw, ctx.p.ggsw_dnum, seed ^ h ^ 2))
        } else {
            prep(w, 2)
        }
    };
    let (pa, pb) = match (prep(c.a, 1), prep_b(c.b)) {
        (Ok(x), Ok(y)) => (x, y),
        (Err(e), _) | (_, Err(e)) => {
            rec.fail(desc("prepare", B::NAME, "panic", c, json!({}), json!({"panic": e})));
            return;
        }
    };
    rec.evals(2);
    // the prepared operands themselves must select their own bits
    let mut s = arena::<B>(ctx, gf);
    for (name, p, w) in [("a", &pa, c.a), ("b", &pb, c.b)] {
        match observe_prepared::<B, u32, _>(ctx, p, B::borrow(&mut s)) {
            Ok(o) => {
                NOISE_PREPARED.update(o.max_rel);
                if o.value != w as u64 || !o.bad.is_empty() {
                    rec.fail(desc(
                        "prepare",
                        B::NAME,
                        "wrong_value",
                        c,
                        json!({"operand": name}),
                        json!({"got": o.value, "want": w, "bad_bits": o.bad.iter().take(8).collect::<Vec<_>>()}),
                    ));
                    return;
                }
            }
            Err(e) => {
                rec.fail(desc("prepare", B::NAME, "panic", c, json!({"operand": name}), json!({"panic": e})));
                return;
            }
        }
    }
    for &op in &c.ops {
        if let Some(o) = only {
            if o != op {
                continue;
            }
        }
        let want = op.plain(c.a, c.b);
        let inner = json!({"wop": op});
        let mut res = alloc_word::<B, u32>(ctx, 1 - gf);
        let mut s = garbage_scratch::<B>(op_bytes::<B>(ctx, op, c.threads), gf);
        let r = guarded(|| apply_op::<B, _, _>(ctx, op, &mut res, &pa, &pb, c.threads, B::borrow(&mut s)));
        rec.evals(1);
        rec.distinct(fnv(format!("{:?}{:?}{}{}", op, c.p, c.a, c.b).as_bytes()));
        if let Err(e) = r {
            rec.fail(desc(op.name(), B::NAME, "panic", c, inner, json!({"panic": e})));
            continue;
        }
        let rd = read_ct(ctx, &res, 32);
        NOISE_PACKED.update(rd.max_rel);
        rec.outcome(rd.value ^ ((op as u64) << 40));
        if let Some((kind, extra)) = judge_word(&rd, want as u64) {
            rec.fail(desc(op.name(), B::NAME, kind, c, inner.clone(), extra));
        }
        // the library's own decryption agrees
        let mut sd = garbage_scratch::<B>(res.decrypt_tmp_bytes(&ctx.module), gf);
        match guarded(|| res.decrypt(&ctx.module, &ctx.sk_prep, B::borrow(&mut sd))) {
            Ok(got) if got == want => {}
            Ok(got) => {
                rec.fail(desc(op.name(), B::NAME, "wrong_value", c, inner, json!({"got": got, "want": want, "via": "FheUint::decrypt"})))
            }
            Err(e) => rec.fail(desc("decrypt", B::NAME, "panic", c, inner, json!({"panic": e}))),
        }
    }
}

fn fam_wordops<B: Bk>(run: &mut Run, pool: &Pool<B>, grids: &[(Params, usize)])
where
    Module<B>: HalAll<B> + CoreAll<B> + UintAll<B>,
    Scratch<B>: ScratchTakeCore<B>,
    ScratchOwned<B>: ScratchOwnedAlloc<B> + ScratchOwnedBorrow<B>,
{
    let seed = run.seed;
    let words = boundary_u32(seed);
    let mut cases = vec![];
    for (p, g) in grids {
        for (i, &a) in words.iter().take(*g).enumerate() {
            for (j, &b) in words.iter().take(*g).enumerate() {
                cases.push(OpsCase {
                    backend: B::NAME.into(),
                    p: *p,
                    a,
                    b,
                    // a diagonal stripe goes through the *_multi_thread entry points
                    threads: if (i + 2 * j) % 7 == 3 { 2 + (i % 3) } else { 1 },
                    ops: ALL_WOPS.to_vec(),
                    b_direct: false,
                });
            }
        }
    }
    if cases.is_empty() {
        return;
    }
    run.family(
        &format!("wordops/{}", B::NAME),
        "outer = (parameter set, a, b) over the g x g prefix grid of the 24-word boundary set (quick g=10, thorough g=24), fresh encryption + real circuit-bootstrapping preparation of both words (each prepared bit checked through CMux); inner = all 11 word operations (add sub sll srl sra slt sltu and or xor identity), 1 in 7 pairs through the *_multi_thread entry points; oracle = Rust u32 semantics; result read from the exact phase at every coefficient (documented layout, strays) and through FheUint::decrypt",
        cases,
        |c, rec| exec_ops::<B>(pool.get(&c.p), c, None, seed, rec),
    );
}

fn fam_shifts<B: Bk>(run: &mut Run, pool: &Pool<B>, ps: &[Params])
where
    Module<B>: HalAll<B> + CoreAll<B> + UintAll<B>,
    Scratch<B>: ScratchTakeCore<B>,
    ScratchOwned<B>: ScratchOwnedAlloc<B> + ScratchOwnedBorrow<B>,
{
    let seed = run.seed;
    let values: Vec<u32> =
        if is_dense(run) { vec![0x8000_0001, 0x5555_5555, 0xFFFF_FFFF, 0x7FFF_FFFE, 0xAAAA_AAAA, 1] } else { vec![0x8000_0001, 0x5555_5555] };
    let mut cases = vec![];
    for p in ps {
        for &a in &values {
            // every shift amount 0..31, the aliases 32..63, and amounts whose high bits are all set
            let mut amounts: Vec<u32> = (0..64).collect();
            amounts.extend((0..32).step_by(if is_dense(run) { 1 } else { 5 }).map(|s| 0xFFFF_FFE0 | s));
            for b in amounts {
                cases.push(OpsCase {
                    backend: B::NAME.into(),
                    p: *p,
                    a,
                    b,
                    threads: 1,
                    ops: vec![WOp::Sll, WOp::Srl, WOp::Sra],
                    b_direct: true,
                });
            }
        }
    }
    if cases.is_empty() {
        return;
    }
    run.family(
        &format!("shifts/{}", B::NAME),
        "outer = (parameter set, value, shift amount) for EVERY amount 0..63 (32..63 alias 0..31) and amounts with all high bits set; the value is bootstrapped, the amount's bits are encrypted directly as GGSW; inner = sll, srl, sra; oracle = shift by the low 5 bits, sra sign-filling",
        cases,
        |c, rec| exec_ops::<B>(pool.get(&c.p), c, None, seed, rec),
    );
}

// ---------------------------------------------------------------------------------------------
// driver
// ---------------------------------------------------------------------------------------------

/// dense enumeration (thorough tier on the primary backend) or the quick-size one (quick tier; secondary backends)
static DENSE: std::sync::atomic::AtomicBool = std::sync::atomic::AtomicBool::new(false);
pub fn is_dense(run: &Run) -> bool {
    run.tier.is_thorough() && DENSE.load(std::sync::atomic::Ordering::Relaxed)
}

pub struct Plan {
    /// parameter sets for which a key set is generated
    pub keysets: Vec<Params>,
    /// parameter sets of the cheap structural families (pack, bits, splice, select ...)
    pub structural: Vec<Params>,
    /// (parameter set, grid size) of the word-operation grid
    pub grids: Vec<(Params, usize)>,
    pub shifts: Vec<Params>,
    /// (parameter set, depth, initial register pairs)
    pub programs: Vec<(Params, usize, Vec<(u32, u32)>)>,
    /// key-switching variants (no intermediate rank-reduction key): only the families that extract LWE bits
    pub ks_variants: Vec<Params>,
}

pub fn plan(tier: Tier, primary_backend: bool, slow_backend: bool) -> Plan {
    let p128 = params_primary();
    let p256 = params_suite256();
    let p64 = params_small(64);
    let p32 = params_small(32);
    let pdk = params_direct_ks();
    match (tier, primary_backend) {
        (Tier::Quick, true) => Plan {
            keysets: vec![p128, p32, pdk],
            structural: vec![p128, p32],
            grids: vec![(p128, 10), (p32, 4), (pdk, 3)],
            shifts: vec![p128],
            programs: vec![(p128, 2, vec![(0xAAAA_AAAA, 0x8000_0015)])],
            ks_variants: vec![pdk],
        },
        (Tier::Quick, false) => Plan {
            keysets: vec![],
            structural: vec![],
            grids: vec![],
            shifts: vec![],
            programs: vec![],
            ks_variants: vec![],
        },
        (Tier::Thorough, true) => Plan {
            keysets: vec![p128, p256, p64, p32, pdk],
            structural: vec![p128, p256, p64, p32],
            grids: vec![(p128, 24), (p256, 24), (p64, 12), (p32, 12), (pdk, 8)],
            shifts: vec![p128, p256],
            // (the depth-3 search at the suite's own N = 256 runs last, after all backends: see run())
            programs: vec![(p128, 3, vec![(0xAAAA_AAAA, 0x8000_0015), (1, 0xFFFF_FFFF)])],
            ks_variants: vec![pdk],
        },
        // secondary backends: the quick-size enumeration of every family at the primary parameter set (the NTT120
        // backends are about ten times slower per operation: smaller grid, programs of depth 1)
        (Tier::Thorough, false) => Plan {
            keysets: vec![p128],
            structural: vec![p128],
            grids: vec![(p128, if slow_backend { 6 } else { 12 })],
            shifts: vec![],
            programs: vec![(p128, if slow_backend { 1 } else { 2 }, vec![(0xAAAA_AAAA, 0x8000_0015)])],
            ks_variants: vec![],
        },
    }
}

fn run_backend<B: Bk>(run: &mut Run, primary: bool)
where
    Module<B>: HalAll<B> + CoreAll<B> + UintAll<B>,
    Scratch<B>: ScratchTakeCore<B>,
    ScratchOwned<B>: ScratchOwnedAlloc<B> + ScratchOwnedBorrow<B>,
    Ctx<B>: Send + Sync,
    crate::c15p::PState<B>: Send + Sync,
{
    let pl = plan(run.tier, primary, B::FAMILY == pvc_common::Family::Ntt120);
    if pl.keysets.is_empty() {
        return;
    }
    DENSE.store(primary, std::sync::atomic::Ordering::Relaxed);
    let t0 = std::time::Instant::now();
    let pool = Pool::<B>::new(&pl.keysets);
    run.note(
        &format!("keygen_s/{}", B::NAME),
        json!({"total": (t0.elapsed().as_secs_f64()*1000.0).round()/1000.0, "sets": pl.keysets.iter().map(|p| (p.n_glwe, p.n_lwe)).collect::<Vec<_>>()}),
    );
    fam_pack::<B>(run, &pool, &pl.structural);
    let mut lwe_sets = pl.structural.clone();
    lwe_sets.extend(pl.ks_variants.iter());
    crate::c15b::fam_bits::<B>(run, &pool, &lwe_sets);
    crate::c15b::fam_splice::<B>(run, &pool, &pl.structural);
    crate::c15b::fam_swap::<B>(run, &pool, &pl.structural);
    crate::c15b::fam_select::<B>(run, &pool, &pl.structural);
    crate::c15b::fam_retriever_history::<B>(run, &pool, &pl.structural);
    crate::c15b::fam_rotation::<B>(run, &pool, &pl.structural);
    crate::c15b::fam_cbt::<B>(run, &pool, &lwe_sets);
    crate::c15b::fam_debug::<B>(run, &pool, &lwe_sets);
    crate::c15b::fam_prepare_custom::<B>(run, &pool, &pl.structural);
    fam_wordops::<B>(run, &pool, &pl.grids);
    fam_shifts::<B>(run, &pool, &pl.shifts);
    crate::c15p::fam_programs::<B>(run, &pool, &pl.programs);
}

pub fn run(run: &mut Run) {
    run.assume("parameter set = the library test suite's (base2k 13, k_glwe 26, k_ggsw 39 / dnum 2, rank 2, BRK/ATK/TSK k=52, ks_glwe k=20, ks_lwe k=16, block-binary LWE secret of block size 7, ternary GLWE secret) with the GLWE degree N as the only variable (plus one variant of the primary set without the intermediate rank-reduction key: ks_glwe = None, ks_lwe from rank 2); n_lwe = 77 for N >= 128 and 56 / 28 for N = 64 / 32 because the library asserts n_lwe <= N");
    run.assume("a GGSW cell counts as wrong when its distance to value * g_row * (1 | s_col) reaches max(g_row / 2, 2^-3 / (dnum * (rank+1) * N * 2^(base2k-1))): half its own gadget unit, but never less than the worst-case bound below which no CMux output bit at scale 1/4 can flip (at N = 256 the suite's last gadget row, 2^-26, is within a factor 4 of the bootstrapping noise by design of the parameters)");
    run.assume("every noise statement is a decision statement: a phase coefficient must round to the stated multiple of the encoding scale (1/4 for word bits, the gadget unit for GGSW cells); the observed worst margin is reported in the notes, not asserted");
    run.assume("circuit bootstrapping cases respect the LUT resolution the parameters admit: N / (2^(log_domain+1) * next_pow2(dnum)) >= ceil((hw+1)/2) + 2 rotation positions per half segment, hw = n_lwe / block_size (worst-case rounding of the LWE ciphertext to 2N positions plus input noise); result GGSW layouts have dnum < size; exponent mode is exercised for log_gap_out in 0..=log N - log_domain (the last value is the no-repacking branch)");
    run.assume("selector radix: CSwap documents and implements a selector GGSW whose base2k differs from the swapped integers' (cswap, glwe_blind_retrieval_statefull and its reverse are exercised with selector base2k 11, 13 and 16 against integers in base2k 13); everything built on CMux (blind selection, the stateless retriever, the blind rotations, the decision diagrams) requires equal radices - glwe_external_product_internal asserts a.base2k() == ggsw.base2k() - and is exercised with equal radices only");
    run.assume("scratch arenas: the operation's own *_tmp_bytes companion where one exists (encrypt, decrypt, prepare, word operations), otherwise the suite's arena density (2^22 bytes at N=256); all arenas and result buffers are pre-filled with a NaN / large-pattern garbage");
    run.note(
        "n_glwe_calibration",
        json!({
            "determined": "2026-09-25, FFT64Ref, whole pipeline encrypt -> prepare (circuit bootstrapping) -> all 11 word operations -> decrypt on (0xDEADBEEF, 0x12345678)",
            "results": [
                {"n_glwe": 32, "n_lwe": 28, "correct": true, "note": "n_lwe must be <= N (assert in glwe_to_lwe_key encryption), so the suite's 77 does not fit"},
                {"n_glwe": 64, "n_lwe": 56, "correct": true},
                {"n_glwe": 64, "n_lwe": 63, "correct": true},
                {"n_glwe": 128, "n_lwe": 77, "correct": true, "note": "smallest degree with the suite's parameters otherwise unchanged: primary set"},
                {"n_glwe": 256, "n_lwe": 77, "correct": true, "note": "the suite's own"}
            ],
            "smallest_correct": 32,
            "primary": 128,
            "cost_ms_at_128": {"prepare_one_word": 60, "add": 22, "and": 3.5}
        }),
    );
    run_backend::<FFT64Ref>(run, true);
    run_backend::<NTT120Ref>(run, false);
    if host_has_avx() {
        run_backend::<FFT64Avx>(run, false);
        run_backend::<NTT120Avx>(run, false);
    } else {
        run.note("avx", json!("host lacks AVX2/FMA: AVX backends skipped"));
    }
    if run.tier.is_thorough() {
        // last, so that a wall cap on a loaded host cuts only this search: all programs to depth 3 at the suite's own
        // parameter set
        let p256 = params_suite256();
        let pool = Pool::<FFT64Ref>::new(&[p256]);
        crate::c15p::fam_programs::<FFT64Ref>(run, &pool, &[(p256, 3, vec![(0x7FFF_FFFF, 33)])]);
    }
    eprintln!(
        "[C15] worst observed errors relative to the decision threshold: packed word {:.4}, prepared bit through CMux {:.6}, GGSW cell {:.4}",
        NOISE_PACKED.get(),
        NOISE_PREPARED.get(),
        crate::c15b::NOISE_CELL.get()
    );
    run.note(
        "noise_margin",
        json!({
            "packed_word_worst_error_relative_to_threshold": NOISE_PACKED.get(),
            "prepared_bit_cmux_worst_error_relative_to_threshold": NOISE_PREPARED.get(),
            "ggsw_cell_worst_error_relative_to_decision_threshold": crate::c15b::NOISE_CELL.get(),
        }),
    );
}

pub fn replay(run: &mut Run, d: &Value) {
    let backend = d["backend"].as_str().or_else(|| d["case"]["backend"].as_str()).unwrap_or("").to_string();
    match backend.as_str() {
        "fft64-ref" => replay_b::<FFT64Ref>(run, d),
        "ntt120-ref" => replay_b::<NTT120Ref>(run, d),
        "fft64-avx" => replay_b::<FFT64Avx>(run, d),
        "ntt120-avx" => replay_b::<NTT120Avx>(run, d),
        o => panic!("unknown backend {o}"),
    }
}

fn replay_b<B: Bk>(run: &mut Run, d: &Value)
where
    Module<B>: HalAll<B> + CoreAll<B> + UintAll<B>,
    Scratch<B>: ScratchTakeCore<B>,
    ScratchOwned<B>: ScratchOwnedAlloc<B> + ScratchOwnedBorrow<B>,
{
    let fam = d["family"].as_str().unwrap_or("").to_string();
    let seed = d["seed"].as_u64().unwrap_or(0);
    let p: Params = serde_json::from_value(d["case"]["p"].clone()).expect("case.p");
    let pool = Pool::<B>::new(&[p]);
    let ctx = pool.get(&p).clone();
    let case = d["case"].clone();
    let inner = d.get("inner").cloned().unwrap_or(json!({}));
    if fam.starts_with("pack/") {
        let c: PackCase = serde_json::from_value(case).unwrap();
        run.single(&fam, "replay", |rec| exec_pack::<B>(&ctx, &c, seed, rec));
    } else if fam.starts_with("wordops/") || fam.starts_with("shifts/") {
        let c: OpsCase = serde_json::from_value(case).unwrap();
        let only: Option<WOp> = inner.get("wop").and_then(|w| serde_json::from_value(w.clone()).ok());
        run.single(&fam, "replay", |rec| exec_ops::<B>(&ctx, &c, only, seed, rec));
    } else if fam.starts_with("programs/") {
        crate::c15p::replay::<B>(run, &fam, &ctx, d);
    } else {
        crate::c15b::replay::<B>(run, &fam, &ctx, d, seed);
    }
}

//! C15 - encrypted integers: bootstrap, word operations and bit surgery match u32 (engines E1 + E2).

use crate::uctx::*;
use poulpy_bin_fhe::bdd_arithmetic::{
    Add, And, FheUint, FheUintPrepare, FheUintPrepared, Identity, Or, Sll, Slt, Sltu, Sra, Srl, Sub, Xor,
};
use poulpy_core::layouts::{GLWEToRef, LWEInfos};
use poulpy_core::{EncryptionLayout, ScratchTakeCore};
use poulpy_hal::api::{ScratchOwnedAlloc, ScratchOwnedBorrow};
use poulpy_hal::layouts::{DeviceBuf, Module, Scratch, ScratchOwned};
use poulpy_hal::source::Source;
use pvc_common::{Bk, CoreAll, FFT64Ref, HalAll};
use pvc_engine::rng::{Rng, garbage};
use pvc_engine::{Rec, Run, fnv, guarded};
use serde::{Deserialize, Serialize};
use serde_json::{Value, json};

// ---------------------------------------------------------------------------------------------
// R10: plain word semantics
// ---------------------------------------------------------------------------------------------

#[derive(Clone, Copy, Debug, PartialEq, Eq, Hash, Serialize, Deserialize)]
pub enum WOp {
    Add,
    Sub,
    Sll,
    Srl,
    Sra,
    Slt,
    Sltu,
    And,
    Or,
    Xor,
    Identity,
}

pub const ALL_WOPS: [WOp; 11] =
    [WOp::Add, WOp::Sub, WOp::Sll, WOp::Srl, WOp::Sra, WOp::Slt, WOp::Sltu, WOp::And, WOp::Or, WOp::Xor, WOp::Identity];

impl WOp {
    /// plain Rust semantics on u32 (RISC-V word operations): wrapping add/sub, shift amount = low 5 bits of b,
    /// sra arithmetic, slt signed, sltu unsigned, identity = a
    pub fn plain(self, a: u32, b: u32) -> u32 {
        match self {
            WOp::Add => a.wrapping_add(b),
            WOp::Sub => a.wrapping_sub(b),
            WOp::Sll => a << (b & 31),
            WOp::Srl => a >> (b & 31),
            WOp::Sra => ((a as i32) >> (b & 31)) as u32,
            WOp::Slt => ((a as i32) < (b as i32)) as u32,
            WOp::Sltu => (a < b) as u32,
            WOp::And => a & b,
            WOp::Or => a | b,
            WOp::Xor => a ^ b,
            WOp::Identity => a,
        }
    }
    pub fn name(self) -> &'static str {
        match self {
            WOp::Add => "add",
            WOp::Sub => "sub",
            WOp::Sll => "sll",
            WOp::Srl => "srl",
            WOp::Sra => "sra",
            WOp::Slt => "slt",
            WOp::Sltu => "sltu",
            WOp::And => "and",
            WOp::Or => "or",
            WOp::Xor => "xor",
            WOp::Identity => "identity",
        }
    }
}

// ---------------------------------------------------------------------------------------------
// pipeline pieces
// ---------------------------------------------------------------------------------------------

pub type Prep<B, T> = FheUintPrepared<DeviceBuf<B>, T, B>;

pub fn garbage_scratch<B: Bk>(bytes: usize, which: usize) -> ScratchOwned<B> {
    let mut s = B::scratch(bytes);
    garbage(&mut B::borrow(&mut s).data, which);
    s
}

/// fresh packed encryption of `w` (encryption randomness from `seed`)
pub fn encrypt_word<B: Bk, T: Word>(ctx: &Ctx<B>, w: T, seed: u64) -> FheUint<Vec<u8>, T>
where
    Module<B>: HalAll<B> + CoreAll<B> + UintAll<B>,
    Scratch<B>: ScratchTakeCore<B>,
    ScratchOwned<B>: ScratchOwnedAlloc<B> + ScratchOwnedBorrow<B>,
{
    let infos = ctx.p.glwe_infos();
    let enc = EncryptionLayout::new_from_default_sigma(infos).expect("glwe encryption layout");
    let mut r = Rng::new(seed, 0xE1);
    let mut xe = Source::new(r.seed32());
    let mut xa = Source::new(r.seed32());
    let mut ct: FheUint<Vec<u8>, T> = FheUint::alloc_from_infos(&infos);
    garbage(ct_bytes_mut(&mut ct), 0);
    let mut s = garbage_scratch::<B>(ct.encrypt_sk_tmp_bytes(&ctx.module) + 64, 0);
    ct.encrypt_sk(&ctx.module, w, &ctx.sk_prep, &enc, &mut xe, &mut xa, B::borrow(&mut s));
    ct
}

/// raw bytes of a packed ciphertext (to pre-fill result buffers with garbage)
pub fn ct_bytes_mut<T: Word>(ct: &mut FheUint<Vec<u8>, T>) -> &mut [u8] {
    use poulpy_core::layouts::GLWEToMut;
    use poulpy_hal::layouts::ZnxViewMut;
    let mut g = ct.to_mut();
    let raw: &mut [i64] = g.data_mut().raw_mut();
    let (p, l) = (raw.as_mut_ptr(), raw.len());
    // SAFETY: plain reinterpretation of the ciphertext's own i64 buffer as bytes; lifetime tied to `ct`
    unsafe { std::slice::from_raw_parts_mut(p as *mut u8, l * 8) }
}

/// exact phase read-out of a packed word
pub fn read_ct<B: Bk, T: Word, G: GLWEToRef>(ctx: &Ctx<B>, ct: &G) -> WordRead {
    let g = ct.to_ref();
    let (ph, bits) = glwe_phase(g.data(), g.base2k().as_usize(), &ctx.sk_clear);
    read_word(&ph, bits, T::bits())
}

pub fn run(_run: &mut Run) {
    probe::<FFT64Ref>(_run);
}

fn probe<B: Bk>(run: &mut Run)
where
    Module<B>: HalAll<B> + CoreAll<B> + UintAll<B>,
    Scratch<B>: ScratchTakeCore<B>,
    ScratchOwned<B>: ScratchOwnedAlloc<B> + ScratchOwnedBorrow<B>,
{
    for (n, n_lwe) in [(32u32, 28u32), (64, 63), (64, 56), (128, 77), (256, 77)] {
        let mut p = Params::suite(n);
        p.n_lwe = n_lwe;
        let ctx = match guarded(|| Ctx::<B>::new(p)) {
            Ok(c) => c,
            Err(e) => {
                eprintln!("N={n} n_lwe={n_lwe}: keygen panics: {e}");
                continue;
            }
        };
        eprintln!("N={n} keygen {:.2}s", ctx.keygen_s);
        let ggsw = ctx.p.ggsw_infos();
        let glwe = ctx.p.glwe_infos();
        let a = 0xDEADBEEFu32;
        let b = 0x12345678u32;
        let t = std::time::Instant::now();
        let ca = encrypt_word::<B, u32>(&ctx, a, 1);
        let cb = encrypt_word::<B, u32>(&ctx, b, 2);
        let ra = read_ct::<B, u32, _>(&ctx, &ca);
        eprintln!("  enc {:.4}s read {:#x} rel {:.3} stray {}", t.elapsed().as_secs_f64(), ra.value, ra.max_rel, ra.stray.len());
        let t = std::time::Instant::now();
        let mut pa: Prep<B, u32> = FheUintPrepared::alloc_from_infos(&ctx.module, &ggsw);
        let mut pb: Prep<B, u32> = FheUintPrepared::alloc_from_infos(&ctx.module, &ggsw);
        let bytes = ctx.module.fhe_uint_prepare_tmp_bytes(ctx.p.block_size as usize, 1, &pa, &ca, &ctx.key);
        let mut s = garbage_scratch::<B>(bytes + 64, 0);
        let r = guarded(|| {
            pa.prepare(&ctx.module, &ca, &ctx.key, B::borrow(&mut s));
            pb.prepare(&ctx.module, &cb, &ctx.key, B::borrow(&mut s));
        });
        eprintln!("  prepare x2 {:.4}s {:?}", t.elapsed().as_secs_f64(), r);
        if r.is_err() {
            continue;
        }
        for op in ALL_WOPS {
            let t = std::time::Instant::now();
            let mut res: FheUint<Vec<u8>, u32> = FheUint::alloc_from_infos(&glwe);
            let bytes = res.add_tmp_bytes(&ctx.module, &glwe, &ggsw, &ctx.key);
            let mut s = garbage_scratch::<B>(bytes + 64, 0);
            let r = guarded(|| apply_op::<B>(&ctx, op, &mut res, &pa, &pb, 1, B::borrow(&mut s)));
            let rd = read_ct::<B, u32, _>(&ctx, &res);
            eprintln!(
                "  {:<8} {:.4}s {:?} got {:#x} want {:#x} rel {:.3} stray {}",
                op.name(),
                t.elapsed().as_secs_f64(),
                r,
                rd.value,
                op.plain(a, b),
                rd.max_rel,
                rd.stray.len()
            );
        }
    }
    let _ = run;
}

/// the real call of one word operation (threads = 1 -> single-thread entry point, else the _multi_thread one)
pub fn apply_op<B: Bk>(
    ctx: &Ctx<B>,
    op: WOp,
    res: &mut FheUint<Vec<u8>, u32>,
    a: &Prep<B, u32>,
    b: &Prep<B, u32>,
    threads: usize,
    scratch: &mut Scratch<B>,
) where
    Module<B>: HalAll<B> + CoreAll<B> + UintAll<B>,
    Scratch<B>: ScratchTakeCore<B>,
    ScratchOwned<B>: ScratchOwnedAlloc<B> + ScratchOwnedBorrow<B>,
{
    let m = &ctx.module;
    let k = &ctx.key;
    macro_rules! two {
        ($st:ident, $mt:ident) => {
            if threads <= 1 { res.$st(m, a, b, k, scratch) } else { res.$mt(threads, m, a, b, k, scratch) }
        };
    }
    match op {
        WOp::Add => two!(add, add_multi_thread),
        WOp::Sub => two!(sub, sub_multi_thread),
        WOp::Sll => two!(sll, sll_multi_thread),
        WOp::Srl => two!(srl, srl_multi_thread),
        WOp::Sra => two!(sra, sra_multi_thread),
        WOp::Slt => two!(slt, slt_multi_thread),
        WOp::Sltu => two!(sltu, sltu_multi_thread),
        WOp::And => two!(and, and_multi_thread),
        WOp::Or => two!(or, or_multi_thread),
        WOp::Xor => two!(xor, xor_multi_thread),
        WOp::Identity => {
            if threads <= 1 { res.identity(m, a, k, scratch) } else { res.identity_multi_thread(threads, m, a, k, scratch) }
        }
    }
}

pub fn replay(_run: &mut Run, _d: &Value) {
    let _ = (fnv(b""), json!({}));
    let _: Option<Rec> = None;
    panic!("C15: not implemented yet");
}

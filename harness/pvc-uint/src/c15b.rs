//! C15, second part: bit extraction, splice / sign extension, swap, blind selection / retrieval, blind rotations,
//! circuit bootstrapping cells, partial preparation.

use crate::c15::*;
use crate::uctx::*;
use poulpy_bin_fhe::bdd_arithmetic::{
    BDDKeyHelper, Cswap, FheUint, FheUintPrepare, FheUintPrepareDebug, FheUintPreparedDebug, FheUintPreparedEncryptSk,
    FheUintPreparedFactory,
    GGSWBlindRotation, GLWEBlindRetrieval, GLWEBlindRetriever, GLWEBlindRotation, GLWEBlindSelection, GetGGSWBit, ScratchTakeBDD,
};
use poulpy_core::layouts::{
    Base2K, Degree, GGSW, GGSWInfos, GGSWPreparedFactory, GLWE, GLWEInfos, GLWEPlaintext, LWE, LWEInfos, LWELayout, LWEPlaintext,
    TorusPrecision,
};
use poulpy_core::{EncryptionLayout, GGSWEncryptSk, GLWEEncryptSk, LWEEncryptSk, ScratchTakeCore};
use poulpy_hal::api::{ScratchOwnedAlloc, ScratchOwnedBorrow};
use poulpy_hal::layouts::{Module, ScalarZnx, Scratch, ScratchOwned, ZnxViewMut};
use poulpy_hal::source::Source;
use pvc_common::{Bk, CoreAll, HalAll};
use pvc_engine::rng::{Rng, garbage};
use pvc_engine::{Rec, Run, fnv, guarded};
use pvc_model::ring;
use serde::{Deserialize, Serialize};
use serde_json::{Value, json};
use std::collections::HashMap;

pub static NOISE_CELL: MaxF64 = MaxF64::new();
pub static NOISE_LWE: MaxF64 = MaxF64::new();

fn lwe_bytes_mut(l: &mut LWE<Vec<u8>>) -> &mut [u8] {
    let raw: &mut [i64] = l.data_mut().raw_mut();
    let (p, n) = (raw.as_mut_ptr(), raw.len());
    // SAFETY: reinterpretation of the ciphertext's own buffer
    unsafe { std::slice::from_raw_parts_mut(p as *mut u8, n * 8) }
}

fn ggsw_garbage(g: &mut GGSW<Vec<u8>>, which: usize) {
    let rows: usize = g.dnum().into();
    let cols: usize = (g.rank() + 1).into();
    for r in 0..rows {
        for c in 0..cols {
            let mut cell = g.at_mut(r, c);
            garbage(glwe_bytes_mut(&mut cell), which);
        }
    }
}

/// negacyclic product of two small integer polynomials
fn negacyclic(a: &[i64], b: &[i64]) -> Vec<i64> {
    let n = a.len();
    let mut out = vec![0i64; n];
    for (i, &x) in a.iter().enumerate() {
        if x == 0 {
            continue;
        }
        for (j, &y) in b.iter().enumerate() {
            if y == 0 {
                continue;
            }
            let k = i + j;
            if k < n { out[k] += x * y } else { out[k - n] -= x * y }
        }
    }
    out
}

/// Worst-case CMux safety bound: a GGSW used as CMux selector multiplies each of its rows * cols * N cell coefficients by
/// a digit of magnitude at most 2^(b-1); if every cell deviates from value * gadget by less than
/// 2^-3 / (rows * cols * N * 2^(b-1)), no CMux output can move by 1/8 (the decision threshold of a word bit at scale 1/4),
/// whatever the operand. Deviations below this bound are functionally irrelevant, so they are never counted as a wrong
/// cell even when the row's own gadget unit is finer (last row of the suite's layout at large N).
pub fn cmux_safety_bound(rows: usize, cols: usize, n: usize, b: usize) -> f64 {
    (-3.0f64).exp2() / ((rows * cols * n) as f64 * ((b - 1) as f64).exp2())
}

/// Decrypts every cell of a GGSW and compares with the definition: a GGSW of p under s is the matrix whose cell
/// (row, col) is a GLWE with phase p * g_row * (1 if col = 0 else s_{col-1}), g_row = 2^-((row+1)*dsize*base2k) - the
/// unique choice that makes sum_{col,row} digit_row(ct_col) * cell(row, col) have the phase p * phase(ct) under the
/// library's phase convention body + sum mask_i s_i. Returns the first wrong cell or None, updating the noise note.
pub fn check_ggsw_cells<B: Bk>(ctx: &Ctx<B>, g: &GGSW<Vec<u8>>, pt: &[i64]) -> Option<Value> {
    let b: usize = g.base2k().as_usize();
    let dsize: usize = g.dsize().into();
    let rows: usize = g.dnum().into();
    let cols: usize = (g.rank() + 1).into();
    let mut worst = 0f64;
    for col in 0..cols {
        let e: Vec<i64> = if col == 0 { pt.to_vec() } else { negacyclic(pt, &ctx.sk_clear[col - 1]) };
        for row in 0..rows {
            let cell = g.at(row, col);
            let (ph, bits) = glwe_phase(cell.data(), b, &ctx.sk_clear);
            let unit_log = bits - (row + 1) * dsize * b;
            // decision threshold: half the row's gadget unit, but never below the CMux safety bound (see cmux_safety_bound)
            let thr = ((1u128 << (unit_log - 1)) as f64).max(cmux_safety_bound(rows, cols, ph.len(), b) * (bits as f64).exp2());
            for (i, &x) in ph.iter().enumerate() {
                let want = (e[i] as i128) << unit_log;
                let diff = center(x - want, bits);
                let rel = diff.abs() as f64 / thr;
                worst = worst.max(rel);
                if rel >= 1.0 {
                    let (q, _) = round_at(x, bits, (row + 1) * dsize * b);
                    return Some(json!({"row": row, "col": col, "coefficient": i, "got_rounded": q, "want": e[i], "rel_error": rel}));
                }
            }
        }
    }
    // the margin note only reports matrices whose every cell decrypted correctly
    NOISE_CELL.update(worst);
    if worst > 0.5 && std::env::var("VERIF_C15_DEBUG").is_ok() {
        eprintln!("[C15 debug] GGSW cell margin {worst:.3}: n={} k={} dnum={rows} plaintext support {:?}", g.n().0, g.max_k().0, pt.iter().enumerate().filter(|(_, x)| **x != 0).take(3).collect::<Vec<_>>());
    }
    None
}

// ---------------------------------------------------------------------------------------------
// family bits
// ---------------------------------------------------------------------------------------------

#[derive(Clone, Debug, Serialize, Deserialize)]
pub struct BitsCase {
    pub backend: String,
    pub p: Params,
    pub width: String,
    pub word: u64,
}

fn exec_bits_t<B: Bk, T: Word>(ctx: &Ctx<B>, c: &BitsCase, inner_sel: &Value, seed: u64, rec: &mut Rec)
where
    Module<B>: HalAll<B> + CoreAll<B> + UintAll<B>,
    Scratch<B>: ScratchTakeCore<B> + ScratchTakeBDD<T, B>,
    ScratchOwned<B>: ScratchOwnedAlloc<B> + ScratchOwnedBorrow<B>,
{
    let h = fnv(format!("{c:?}").as_bytes());
    let gf = (h & 1) as usize;
    rec.distinct(h);
    rec.sample(|| serde_json::to_value(c).unwrap());
    let w = T::from_u64(c.word);
    let ct = match guarded(|| encrypt_word::<B, T>(ctx, w, seed ^ h)) {
        Ok(ct) => ct,
        Err(e) => return rec.fail(desc("encrypt_sk", B::NAME, "panic", c, json!({}), json!({"panic": e}))),
    };
    let mut s = arena::<B>(ctx, gf);
    let (_cbt, ks_glwe, ks_lwe) = ctx.key.get_cbt_key();
    let sel_fn = inner_sel.get("fn").and_then(|x| x.as_str());
    let sel_idx = inner_sel.get("index").and_then(|x| x.as_u64());
    let wanted = |f: &str, i: usize| sel_fn.map(|s| s == f).unwrap_or(true) && sel_idx.map(|s| s as usize == i).unwrap_or(true);
    for i in 0..T::bits() {
        let bit = (c.word >> i) & 1;
        if wanted("get_bit_glwe", i) {
            let inner = json!({"fn": "get_bit_glwe", "index": i});
            let mut res = alloc_word::<B, T>(ctx, 1 - gf);
            let r = guarded(|| ct.get_bit_glwe(&ctx.module, i, &mut res, &ctx.key, B::borrow(&mut s)));
            rec.evals(1);
            match r {
                Err(e) => rec.fail(desc("get_bit_glwe", B::NAME, "panic", c, inner, json!({"panic": e}))),
                Ok(()) => {
                    // the extracted bit sits at coefficient 0 (= bit 0 of the layout), everything else is zero
                    let rd = read_ct(ctx, &res, T::bits());
                    NOISE_PACKED.update(rd.max_rel);
                    rec.outcome(rd.value);
                    if let Some((kind, extra)) = judge_word(&rd, bit) {
                        rec.fail(desc("get_bit_glwe", B::NAME, kind, c, inner, extra));
                    }
                }
            }
        }
        // LWE extraction: the layout fhe_uint_prepare uses (n = N_glwe) and the native LWE dimension
        for (lname, n_out) in [("n_glwe", ctx.p.n_glwe), ("n_lwe", ctx.p.n_lwe)] {
            let fname = format!("get_bit_lwe/{lname}");
            if !wanted(&fname, i) {
                continue;
            }
            let inner = json!({"fn": fname, "index": i});
            let mut lwe: LWE<Vec<u8>> = LWE::alloc(Degree(n_out), Base2K(ctx.p.base2k), TorusPrecision(ctx.p.k_glwe));
            garbage(lwe_bytes_mut(&mut lwe), gf);
            let r = guarded(|| ct.get_bit_lwe(&ctx.module, i, &mut lwe, ks_glwe, ks_lwe, B::borrow(&mut s)));
            rec.evals(1);
            match r {
                Err(e) => rec.fail(desc("get_bit_lwe", B::NAME, "panic", c, inner, json!({"panic": e}))),
                Ok(()) => {
                    let (ph, bits) = lwe_phase(lwe.data(), ctx.p.base2k as usize, &ctx.sk_lwe_clear);
                    let (q, rel) = round_at(ph, bits, 2);
                    NOISE_LWE.update(rel.abs());
                    if q.rem_euclid(4) as u64 != bit {
                        rec.fail(desc("get_bit_lwe", B::NAME, "wrong_value", c, inner, json!({"got_quarters": q.rem_euclid(4), "want": bit, "rel": rel})));
                    }
                }
            }
        }
    }
    for byte in 0..T::bits() / 8 {
        if !wanted("get_byte", byte) {
            continue;
        }
        let inner = json!({"fn": "get_byte", "index": byte});
        let mut res = alloc_word::<B, T>(ctx, 1 - gf);
        let r = guarded(|| ct.get_byte(&ctx.module, byte, &mut res, &ctx.key, B::borrow(&mut s)));
        rec.evals(1);
        match r {
            Err(e) => rec.fail(desc("get_byte", B::NAME, "panic", c, inner, json!({"panic": e}))),
            Ok(()) => {
                let rd = read_ct(ctx, &res, T::bits());
                NOISE_PACKED.update(rd.max_rel);
                if let Some((kind, extra)) = judge_word(&rd, (c.word >> (8 * byte)) & 0xFF) {
                    rec.fail(desc("get_byte", B::NAME, kind, c, inner, extra));
                }
            }
        }
    }
}

pub fn exec_bits<B: Bk>(ctx: &Ctx<B>, c: &BitsCase, inner: &Value, seed: u64, rec: &mut Rec)
where
    Module<B>: HalAll<B> + CoreAll<B> + UintAll<B>,
    Scratch<B>: ScratchTakeCore<B>,
    ScratchOwned<B>: ScratchOwnedAlloc<B> + ScratchOwnedBorrow<B>,
{
    match c.width.as_str() {
        "u8" => exec_bits_t::<B, u8>(ctx, c, inner, seed, rec),
        "u16" => exec_bits_t::<B, u16>(ctx, c, inner, seed, rec),
        "u32" => exec_bits_t::<B, u32>(ctx, c, inner, seed, rec),
        o => panic!("unknown width {o}"),
    }
}

pub fn fam_bits<B: Bk>(run: &mut Run, pool: &Pool<B>, ps: &[Params])
where
    Module<B>: HalAll<B> + CoreAll<B> + UintAll<B>,
    Scratch<B>: ScratchTakeCore<B>,
    ScratchOwned<B>: ScratchOwnedAlloc<B> + ScratchOwnedBorrow<B>,
{
    let seed = run.seed;
    let mut cases = vec![];
    for p in ps {
        for (wname, bits) in WIDTHS {
            let mask = if bits == 32 { 0xFFFF_FFFFu64 } else { (1 << bits) - 1 };
            let mut words: Vec<u64> = vec![0, mask, 0x5555_5555 & mask, 0xAAAA_AAAA & mask, 0x8483_8281 & mask];
            // every single bit and every single hole: the (word, index) matrix pins the addressing down to a permutation
            words.extend((0..bits).map(|i| 1u64 << i));
            words.extend((0..bits).map(|i| mask ^ (1u64 << i)));
            for word in words {
                cases.push(BitsCase {
                    backend: B::NAME.into(),
                    p: *p,
                    width: wname.into(),
                    word,
                });
            }
        }
    }
    run.family(
        &format!("bits/{}", B::NAME),
        "outer = (parameter set, width, word) with words = patterns + every single-bit word + every single-hole word; inner = get_bit_glwe at EVERY bit index (result: bit at coefficient 0, every other coefficient 0), get_bit_lwe at EVERY bit index into an LWE of dimension N_glwe (as fhe_uint_prepare does) and n_lwe (phase under the clear LWE secret), get_byte at every byte",
        cases,
        |c, rec| exec_bits::<B>(pool.get(&c.p), c, &json!({}), seed, rec),
    );
}

// ---------------------------------------------------------------------------------------------
// family splice
// ---------------------------------------------------------------------------------------------

#[derive(Clone, Debug, Serialize, Deserialize)]
pub struct SpliceCase {
    pub backend: String,
    pub p: Params,
    pub width: String,
    pub a: u64,
    pub b: u64,
}

/// sign extension from bit `from` (0-based position of the sign bit) within `bits`
fn sext_plain(x: u64, from: usize, bits: usize) -> u64 {
    let mask = if bits == 64 { u64::MAX } else { (1u64 << bits) - 1 };
    let low = x & ((1u64 << (from + 1)) - 1);
    if (x >> from) & 1 == 1 { (low | !((1u64 << (from + 1)) - 1)) & mask } else { low }
}

fn exec_splice_t<B: Bk, T: Word>(ctx: &Ctx<B>, c: &SpliceCase, inner_sel: &Value, seed: u64, rec: &mut Rec)
where
    Module<B>: HalAll<B> + CoreAll<B> + UintAll<B>,
    Scratch<B>: ScratchTakeCore<B> + ScratchTakeBDD<T, B>,
    ScratchOwned<B>: ScratchOwnedAlloc<B> + ScratchOwnedBorrow<B>,
{
    let h = fnv(format!("{c:?}").as_bytes());
    let gf = (h & 1) as usize;
    rec.distinct(h);
    rec.sample(|| serde_json::to_value(c).unwrap());
    let bits = T::bits();
    let bytes = bits / 8;
    let mask = T::mask();
    let enc = |w: u64, tag: u64| encrypt_word::<B, T>(ctx, T::from_u64(w), seed ^ h ^ tag);
    let (ca, cb) = match guarded(|| (enc(c.a, 1), enc(c.b, 2))) {
        Ok(x) => x,
        Err(e) => return rec.fail(desc("encrypt_sk", B::NAME, "panic", c, json!({}), json!({"panic": e}))),
    };
    let mut s = arena::<B>(ctx, gf);
    let sel_fn = inner_sel.get("fn").and_then(|x| x.as_str());
    let sel_d = inner_sel.get("dst").and_then(|x| x.as_u64());
    let sel_s = inner_sel.get("src").and_then(|x| x.as_u64());
    let wanted = |f: &str, d: usize, sr: usize| {
        sel_fn.map(|s| s == f).unwrap_or(true) && sel_d.map(|x| x as usize == d).unwrap_or(true) && sel_s.map(|x| x as usize == sr).unwrap_or(true)
    };
    let judge = |rec: &mut Rec, op: &str, inner: Value, r: Result<(), String>, res: &FheUint<Vec<u8>, T>, want: u64| {
        rec.evals(1);
        match r {
            Err(e) => rec.fail(desc(op, B::NAME, "panic", c, inner, json!({"panic": e}))),
            Ok(()) => {
                let rd = read_ct(ctx, res, bits);
                NOISE_PACKED.update(rd.max_rel);
                rec.outcome(rd.value);
                if let Some((kind, extra)) = judge_word(&rd, want) {
                    rec.fail(desc(op, B::NAME, kind, c, inner, extra));
                }
            }
        }
    };
    // splice_u8: byte dst of a replaced by byte src of b
    for dst in 0..bytes {
        for src in 0..bytes {
            if !wanted("splice_u8", dst, src) {
                continue;
            }
            let mut res = alloc_word::<B, T>(ctx, 1 - gf);
            let r = guarded(|| res.splice_u8(&ctx.module, dst, src, &ca, &cb, &ctx.key, B::borrow(&mut s)));
            let want = ((c.a & !(0xFFu64 << (8 * dst))) | (((c.b >> (8 * src)) & 0xFF) << (8 * dst))) & mask;
            judge(rec, "splice_u8", json!({"fn": "splice_u8", "dst": dst, "src": src}), r, &res, want);
        }
    }
    // splice_u16: halfword dst of a replaced by halfword src of b
    for dst in 0..bits / 16 {
        for src in 0..bits / 16 {
            if !wanted("splice_u16", dst, src) {
                continue;
            }
            let mut res = alloc_word::<B, T>(ctx, 1 - gf);
            let r = guarded(|| res.splice_u16(&ctx.module, dst, src, &ca, &cb, &ctx.key, B::borrow(&mut s)));
            let want = ((c.a & !(0xFFFFu64 << (16 * dst))) | (((c.b >> (16 * src)) & 0xFFFF) << (16 * dst))) & mask;
            judge(rec, "splice_u16", json!({"fn": "splice_u16", "dst": dst, "src": src}), r, &res, want);
        }
    }
    // zero_byte and sext work in place: operate on fresh encryptions of a
    for byte in 0..bytes {
        if wanted("zero_byte", byte, 0) {
            match guarded(|| enc(c.a, 3 + byte as u64)) {
                Ok(mut x) => {
                    let r = guarded(|| x.zero_byte(&ctx.module, byte, &ctx.key, B::borrow(&mut s)));
                    judge(rec, "zero_byte", json!({"fn": "zero_byte", "dst": byte, "src": 0}), r, &x, c.a & !(0xFFu64 << (8 * byte)) & mask);
                }
                Err(e) => rec.fail(desc("encrypt_sk", B::NAME, "panic", c, json!({}), json!({"panic": e}))),
            }
        }
        for (which, word) in [("a", c.a), ("b", c.b)] {
            let fname = format!("sext/{which}");
            if !wanted(&fname, byte, 0) {
                continue;
            }
            match guarded(|| enc(word, 40 + byte as u64)) {
                Ok(mut x) => {
                    let r = guarded(|| x.sext(&ctx.module, byte, &ctx.key, B::borrow(&mut s)));
                    judge(rec, "sext", json!({"fn": fname, "dst": byte, "src": 0}), r, &x, sext_plain(word, 8 * byte + 7, bits));
                }
                Err(e) => rec.fail(desc("encrypt_sk", B::NAME, "panic", c, json!({}), json!({"panic": e}))),
            }
        }
    }
}

pub fn exec_splice<B: Bk>(ctx: &Ctx<B>, c: &SpliceCase, inner: &Value, seed: u64, rec: &mut Rec)
where
    Module<B>: HalAll<B> + CoreAll<B> + UintAll<B>,
    Scratch<B>: ScratchTakeCore<B>,
    ScratchOwned<B>: ScratchOwnedAlloc<B> + ScratchOwnedBorrow<B>,
{
    match c.width.as_str() {
        "u8" => exec_splice_t::<B, u8>(ctx, c, inner, seed, rec),
        "u16" => exec_splice_t::<B, u16>(ctx, c, inner, seed, rec),
        "u32" => exec_splice_t::<B, u32>(ctx, c, inner, seed, rec),
        o => panic!("unknown width {o}"),
    }
}

pub fn fam_splice<B: Bk>(run: &mut Run, pool: &Pool<B>, ps: &[Params])
where
    Module<B>: HalAll<B> + CoreAll<B> + UintAll<B>,
    Scratch<B>: ScratchTakeCore<B>,
    ScratchOwned<B>: ScratchOwnedAlloc<B> + ScratchOwnedBorrow<B>,
{
    let seed = run.seed;
    let pairs: Vec<(u64, u64)> = vec![
        (0xFFFF_FFFF, 0xAABB_CCDD),
        (0, 0xAABB_CCDD),
        (0x8483_8281, 0x4443_4241),
        (0x1122_3344, 0),
        (0x7F80_FF00, 0x0080_807F),
        (0x5555_5555, 0xAAAA_AAAA),
    ];
    let mut cases = vec![];
    for p in ps {
        for (wname, bits) in WIDTHS {
            let mask = if bits == 32 { 0xFFFF_FFFFu64 } else { (1 << bits) - 1 };
            for (a, b) in &pairs {
                cases.push(SpliceCase {
                    backend: B::NAME.into(),
                    p: *p,
                    width: wname.into(),
                    a: a & mask,
                    b: b & mask,
                });
            }
        }
    }
    run.family(
        &format!("splice/{}", B::NAME),
        "outer = (parameter set, width, (a, b) pattern pair); inner = splice_u8 at EVERY (dst, src) byte pair, splice_u16 at EVERY (dst, src) halfword pair, zero_byte at every byte, sext from EVERY byte of a and of b; oracle = byte/halfword replacement and two's complement sign extension on the plain word; result read at every coefficient",
        cases,
        |c, rec| exec_splice::<B>(pool.get(&c.p), c, &json!({}), seed, rec),
    );
}

// ---------------------------------------------------------------------------------------------
// family swap
// ---------------------------------------------------------------------------------------------

#[derive(Clone, Debug, Serialize, Deserialize)]
pub struct SwapCase {
    pub backend: String,
    pub p: Params,
    pub a: u32,
    pub b: u32,
    pub bit: u8,
    /// "ggsw_encrypt" (fresh GGSW of the bit) | "bootstrapped" (bit 5 of a word prepared by circuit bootstrapping)
    pub source: String,
    /// radix of the selector GGSW (0 = the integers' own, 13); the bootstrapped selector always has the integers' radix
    #[serde(default)]
    pub sel_base2k: u32,
}

pub fn exec_swap<B: Bk>(ctx: &Ctx<B>, c: &SwapCase, seed: u64, rec: &mut Rec)
where
    Module<B>: HalAll<B> + CoreAll<B> + UintAll<B>,
    Scratch<B>: ScratchTakeCore<B>,
    ScratchOwned<B>: ScratchOwnedAlloc<B> + ScratchOwnedBorrow<B>,
{
    let h = fnv(format!("{c:?}").as_bytes());
    let gf = (h & 1) as usize;
    rec.distinct(h);
    rec.sample(|| serde_json::to_value(c).unwrap());
    let mut s = arena::<B>(ctx, gf);
    let r = guarded(|| {
        let mut ca = encrypt_word::<B, u32>(ctx, c.a, seed ^ h ^ 1);
        let mut cb = encrypt_word::<B, u32>(ctx, c.b, seed ^ h ^ 2);
        if c.source == "ggsw_encrypt" {
            let infos = selector_layout(&ctx.p, c.sel_base2k, ctx.p.ggsw_dnum);
            let enc = EncryptionLayout::new_from_default_sigma(infos).expect("ggsw layout");
            let mut r = Rng::new(seed ^ h, 0xE3);
            let (mut xe, mut xa) = (Source::new(r.seed32()), Source::new(r.seed32()));
            let mut g: GGSW<Vec<u8>> = GGSW::alloc_from_infos(&infos);
            let mut gp = ctx.module.ggsw_prepared_alloc_from_infos(&infos);
            let mut pt: ScalarZnx<Vec<u8>> = ScalarZnx::alloc(ctx.p.n_glwe as usize, 1);
            pt.raw_mut()[0] = c.bit as i64;
            ctx.module.ggsw_encrypt_sk(&mut g, &pt, &ctx.sk_prep, &enc, &mut xe, &mut xa, B::borrow(&mut s));
            ctx.module.ggsw_prepare(&mut gp, &g, B::borrow(&mut s));
            ctx.module.cswap(&mut ca, &mut cb, &gp, B::borrow(&mut s));
        } else {
            // bit 5 carries the selector, every other bit its complement
            let w: u32 = if c.bit == 1 { 1 << 5 } else { !(1u32 << 5) };
            let sel = encrypt_word::<B, u32>(ctx, w, seed ^ h ^ 3);
            let p = prepare_word::<B, u32>(ctx, &sel, gf).expect("prepare");
            ctx.module.cswap(&mut ca, &mut cb, &p.get_bit(5), B::borrow(&mut s));
        }
        (ca, cb)
    });
    rec.evals(1);
    match r {
        Err(e) => rec.fail(desc("cswap", B::NAME, "panic", c, json!({}), json!({"panic": e}))),
        Ok((ca, cb)) => {
            let (wa, wb) = if c.bit == 1 { (c.b, c.a) } else { (c.a, c.b) };
            for (name, ct, want) in [("a", &ca, wa), ("b", &cb, wb)] {
                let rd = read_ct(ctx, ct, 32);
                NOISE_PACKED.update(rd.max_rel);
                rec.outcome(rd.value);
                if let Some((kind, extra)) = judge_word(&rd, want as u64) {
                    rec.fail(desc("cswap", B::NAME, kind, c, json!({"output": name}), extra));
                }
            }
        }
    }
}

pub fn fam_swap<B: Bk>(run: &mut Run, pool: &Pool<B>, ps: &[Params])
where
    Module<B>: HalAll<B> + CoreAll<B> + UintAll<B>,
    Scratch<B>: ScratchTakeCore<B>,
    ScratchOwned<B>: ScratchOwnedAlloc<B> + ScratchOwnedBorrow<B>,
{
    let seed = run.seed;
    let words = boundary_u32(seed);
    let g = if is_dense(run) { 12 } else { 6 };
    let mut cases = vec![];
    for p in ps {
        for &a in words.iter().take(g) {
            for &b in words.iter().take(g) {
                for bit in [0u8, 1] {
                    for source in ["ggsw_encrypt", "bootstrapped"] {
                        // the bootstrapped selector costs a full preparation: keep it to the diagonal band
                        if source == "bootstrapped" && a != !b && a != b {
                            continue;
                        }
                        // selector radix: equal, finer (11) and coarser (16) than the integers' 13
                        for sel_base2k in [0u32, 11, 16] {
                            if source == "bootstrapped" && sel_base2k != 0 {
                                continue;
                            }
                            cases.push(SwapCase {
                                backend: B::NAME.into(),
                                p: *p,
                                a,
                                b,
                                bit,
                                source: source.into(),
                                sel_base2k,
                            });
                        }
                    }
                }
            }
        }
    }
    run.family(
        &format!("swap/{}", B::NAME),
        "outer = (parameter set, a, b, selector bit 0/1, selector radix base2k 13 (equal to the integers') | 11 | 16 for the fresh GGSW, selector source: fresh GGSW encryption | bit 5 of a word prepared by circuit bootstrapping whose other bits are the complement); cswap must exchange exactly when the bit is 1; both outputs read at every coefficient",
        cases,
        |c, rec| exec_swap::<B>(pool.get(&c.p), c, seed, rec),
    );
}

// ---------------------------------------------------------------------------------------------
// family select: blind selection, stateful retrieval, stateless retriever
// ---------------------------------------------------------------------------------------------

#[derive(Clone, Debug, Serialize, Deserialize)]
pub struct SelCase {
    pub backend: String,
    pub p: Params,
    /// "selection" | "retrieval_statefull" | "retriever"
    pub kind: String,
    /// array length (selection: 2^bit_mask slots, of which `present` are filled)
    pub len: usize,
    /// selection only: bitmask of the indices present in the map
    pub present: u64,
    /// position of the index field inside the selector word (bit_rsh / offset)
    pub bit_rsh: usize,
    /// all selector bits outside the index field are ones (else zeros)
    pub fill_ones: bool,
    /// "direct" GGSW encryption of the selector bits | "bootstrapped"
    pub selector: String,
    /// radix of the selector word's GGSWs (0 = the integers' own, 13)
    #[serde(default)]
    pub sel_base2k: u32,
}

fn datum(i: usize) -> u32 {
    0x9E37_79B9u32.wrapping_mul(i as u32 + 1) ^ 0x8000_0001
}

fn make_selector<B: Bk>(ctx: &Ctx<B>, how: &str, sel_base2k: u32, k: u32, seed: u64, gf: usize) -> Prep<B, u32>
where
    Module<B>: HalAll<B> + CoreAll<B> + UintAll<B>,
    Scratch<B>: ScratchTakeCore<B>,
    ScratchOwned<B>: ScratchOwnedAlloc<B> + ScratchOwnedBorrow<B>,
{
    if how == "direct" {
        encrypt_prepared_layout::<B, u32>(ctx, k, selector_layout(&ctx.p, sel_base2k, ctx.p.ggsw_dnum), seed)
    } else {
        let ct = encrypt_word::<B, u32>(ctx, k, seed);
        prepare_word::<B, u32>(ctx, &ct, gf).expect("prepare selector")
    }
}

pub fn exec_select<B: Bk>(ctx: &Ctx<B>, c: &SelCase, only_idx: Option<usize>, seed: u64, rec: &mut Rec)
where
    Module<B>: HalAll<B> + CoreAll<B> + UintAll<B>,
    Scratch<B>: ScratchTakeCore<B>,
    ScratchOwned<B>: ScratchOwnedAlloc<B> + ScratchOwnedBorrow<B>,
{
    let h = fnv(format!("{c:?}").as_bytes());
    let gf = (h & 1) as usize;
    rec.distinct(h);
    rec.sample(|| serde_json::to_value(c).unwrap());
    let bit_mask: usize = if c.len <= 1 { 0 } else { (usize::BITS - (c.len - 1).leading_zeros()) as usize };
    let field: u32 = if bit_mask == 0 { 0 } else { (((1u64 << bit_mask) - 1) as u32) << c.bit_rsh };
    let mut s = arena::<B>(ctx, gf);
    let slots = if c.kind == "selection" { 1usize << bit_mask } else { c.len };
    for idx in 0..slots {
        if let Some(o) = only_idx {
            if o != idx {
                continue;
            }
        }
        let inner = json!({"idx": idx});
        let k: u32 = ((idx as u32) << c.bit_rsh) | if c.fill_ones { !field } else { 0 };
        let sd = seed ^ h ^ ((idx as u64) << 32);
        let sel = match guarded(|| make_selector::<B>(ctx, &c.selector, c.sel_base2k, k, sd, gf)) {
            Ok(x) => x,
            Err(e) => {
                rec.fail(desc("selector", B::NAME, "panic", c, inner, json!({"panic": e})));
                continue;
            }
        };
        let mut data: Vec<FheUint<Vec<u8>, u32>> = (0..c.len).map(|i| encrypt_word::<B, u32>(ctx, datum(i), sd ^ (i as u64 + 7))).collect();
        rec.evals(1);
        match c.kind.as_str() {
            "selection" => {
                let mut res = alloc_glwe::<B>(ctx, 1 - gf);
                let present = c.present;
                let r = guarded(|| {
                    let mut map: HashMap<usize, &mut FheUint<Vec<u8>, u32>> = HashMap::new();
                    for (i, ct) in data.iter_mut().enumerate() {
                        if (present >> i) & 1 == 1 {
                            map.insert(i, ct);
                        }
                    }
                    <Module<B> as GLWEBlindSelection<u32, B>>::glwe_blind_selection(
                        &ctx.module,
                        &mut res,
                        map,
                        &sel,
                        c.bit_rsh,
                        bit_mask,
                        B::borrow(&mut s),
                    )
                });
                match r {
                    Err(e) => rec.fail(desc("glwe_blind_selection", B::NAME, "panic", c, inner, json!({"panic": e}))),
                    Ok(()) => {
                        let want = if idx < c.len && (c.present >> idx) & 1 == 1 { datum(idx) } else { 0 };
                        let rd = read_ct(ctx, &res, 32);
                        NOISE_PACKED.update(rd.max_rel);
                        rec.outcome(rd.value);
                        if let Some((kind, extra)) = judge_word(&rd, want as u64) {
                            rec.fail(desc("glwe_blind_selection", B::NAME, kind, c, inner, extra));
                        }
                    }
                }
            }
            "retrieval_statefull" => {
                let r = guarded(|| ctx.module.glwe_blind_retrieval_statefull(&mut data, &sel, c.bit_rsh, bit_mask, B::borrow(&mut s)));
                match r {
                    Err(e) => rec.fail(desc("glwe_blind_retrieval_statefull", B::NAME, "panic", c, inner, json!({"panic": e}))),
                    Ok(()) => {
                        let rd = read_ct(ctx, &data[0], 32);
                        NOISE_PACKED.update(rd.max_rel);
                        rec.outcome(rd.value);
                        if let Some((kind, extra)) = judge_word(&rd, datum(idx) as u64) {
                            rec.fail(desc("glwe_blind_retrieval_statefull", B::NAME, kind, c, inner.clone(), extra));
                        }
                        // the reverse pass restores the original order
                        let r = guarded(|| ctx.module.glwe_blind_retrieval_statefull_rev(&mut data, &sel, c.bit_rsh, bit_mask, B::borrow(&mut s)));
                        rec.evals(1);
                        match r {
                            Err(e) => rec.fail(desc("glwe_blind_retrieval_statefull_rev", B::NAME, "panic", c, inner, json!({"panic": e}))),
                            Ok(()) => {
                                for (i, ct) in data.iter().enumerate() {
                                    let rd = read_ct(ctx, ct, 32);
                                    NOISE_PACKED.update(rd.max_rel);
                                    if let Some((kind, mut extra)) = judge_word(&rd, datum(i) as u64) {
                                        extra["position"] = json!(i);
                                        rec.fail(desc("glwe_blind_retrieval_statefull_rev", B::NAME, kind, c, inner.clone(), extra));
                                        break;
                                    }
                                }
                            }
                        }
                    }
                }
            }
            "retriever" => {
                let mut res = alloc_word::<B, u32>(ctx, 1 - gf);
                let infos = ctx.p.glwe_infos();
                let r = guarded(|| {
                    let mut retriever = GLWEBlindRetriever::alloc(&infos, c.len);
                    retriever.retrieve(&ctx.module, &mut res, &data, &sel, c.bit_rsh, B::borrow(&mut s));
                    // a second retrieval with the same object (reset path) must give the same answer
                    let mut res2 = alloc_word::<B, u32>(ctx, gf);
                    retriever.retrieve(&ctx.module, &mut res2, &data, &sel, c.bit_rsh, B::borrow(&mut s));
                    res2
                });
                match r {
                    Err(e) => rec.fail(desc("glwe_blind_retriever", B::NAME, "panic", c, inner, json!({"panic": e, "len_is_one": c.len == 1}))),
                    Ok(res2) => {
                        for (pass, ct) in [(1, &res), (2, &res2)] {
                            let rd = read_ct(ctx, ct, 32);
                            NOISE_PACKED.update(rd.max_rel);
                            rec.outcome(rd.value);
                            if let Some((kind, mut extra)) = judge_word(&rd, datum(idx) as u64) {
                                extra["pass"] = json!(pass);
                                extra["len_is_power_of_two"] = json!(c.len.is_power_of_two());
                                rec.fail(desc("glwe_blind_retriever", B::NAME, kind, c, inner.clone(), extra));
                                break;
                            }
                        }
                    }
                }
            }
            o => panic!("unknown kind {o}"),
        }
    }
}

pub fn fam_select<B: Bk>(run: &mut Run, pool: &Pool<B>, ps: &[Params])
where
    Module<B>: HalAll<B> + CoreAll<B> + UintAll<B>,
    Scratch<B>: ScratchTakeCore<B>,
    ScratchOwned<B>: ScratchOwnedAlloc<B> + ScratchOwnedBorrow<B>,
{
    let seed = run.seed;
    let thorough = is_dense(run);
    let mut cases = vec![];
    for p in ps {
        let rshs: Vec<usize> = if thorough { vec![0, 1, 7, 13, 24, 28] } else { vec![0, 5, 28] };
        // selection over 2^m slots: all present, multiples of 3, only index 0, only the last, none
        for m in 1..=(if thorough { 4usize } else { 3 }) {
            let slots = 1usize << m;
            let all = (1u64 << slots) - 1;
            let mult3: u64 = (0..slots).filter(|i| i % 3 == 0).map(|i| 1u64 << i).sum();
            for present in [all, mult3, 1, 1u64 << (slots - 1), 0, all & !1] {
                for &bit_rsh in &rshs {
                    if bit_rsh + m > 32 {
                        continue;
                    }
                    for fill_ones in [false, true] {
                        // CMux-based: the core external product asserts equal radices of operand and selector
                        for sel_base2k in [0u32] {
                            cases.push(SelCase {
                                backend: B::NAME.into(),
                                p: *p,
                                kind: "selection".into(),
                                len: slots,
                                present,
                                bit_rsh,
                                fill_ones,
                                selector: if sel_base2k == 0 && m == 2 && bit_rsh == 0 && present == all { "bootstrapped".into() } else { "direct".into() },
                                sel_base2k,
                            });
                        }
                    }
                }
            }
        }
        for kind in ["retrieval_statefull", "retriever"] {
            for len in 1..=(if thorough { 17usize } else { 9 }) {
                let need = if len <= 1 { 0 } else { (usize::BITS - (len - 1).leading_zeros()) as usize };
                for &bit_rsh in &rshs {
                    // the index field must lie inside the 32-bit selector word
                    if bit_rsh + need > 32 {
                        continue;
                    }
                    for fill_ones in [false, true] {
                        if !thorough && fill_ones && bit_rsh == 5 {
                            continue;
                        }
                        // the CSwap-based stateful retrieval admits a selector radix below (11) and above (16) the
                        // integers' 13; the CMux-based retriever does not (equal radices asserted by the core product)
                        let radices: &[u32] = if kind == "retrieval_statefull" { &[0, 11, 16] } else { &[0] };
                        for &sel_base2k in radices {
                            cases.push(SelCase {
                                backend: B::NAME.into(),
                                p: *p,
                                kind: kind.into(),
                                len,
                                present: 0,
                                bit_rsh,
                                fill_ones,
                                selector: if sel_base2k == 0 && len == 5 && bit_rsh == 0 && !fill_ones { "bootstrapped".into() } else { "direct".into() },
                                sel_base2k,
                            });
                        }
                    }
                }
            }
        }
    }
    run.family(
        &format!("select/{}", B::NAME),
        "outer = (parameter set, selection over 2^m slots with a presence pattern | stateful retrieval + reverse | stateless retriever (used twice) over arrays of every length 1..9 (17), position of the index field in the selector word, other selector bits all 0 / all 1, selector bits encrypted directly or bootstrapped; stateful retrieval (CSwap-based) additionally with selector radix base2k 11 and 16 against integers in base2k 13); inner = EVERY index; oracle = the array element (0 for absent slots), after the reverse pass the original array; results read at every coefficient",
        cases,
        |c, rec| exec_select::<B>(pool.get(&c.p), c, None, seed, rec),
    );
}

// ---------------------------------------------------------------------------------------------
// family retriever_history: explicit-state search over short call histories on ONE GLWEBlindRetriever
// ---------------------------------------------------------------------------------------------
// The retriever is documented as reusable ("retrieve combines reset, all add calls, and flush"): whatever was fed to it
// before, a call must answer from its own inputs only. State = the retriever object after a prefix of calls; action =
// one call (entry point retrieve | add x len then flush, array length 1..=capacity, index 0..len); every history of
// the depth bound is executed on a fresh retriever and every call's result is decrypted and compared with the element
// of THAT call's array (the arrays of the calls of a history are pairwise distinct, so a stale result is visible).

#[derive(Clone, Copy, Debug, PartialEq, Eq, Serialize, Deserialize)]
pub struct RCall {
    /// false: retrieve(data[..len]); true: add(data[0]) .. add(data[len-1]) then flush
    pub add_flush: bool,
    pub len: usize,
    pub idx: usize,
}

#[derive(Clone, Debug, Serialize, Deserialize)]
pub struct HistCase {
    pub backend: String,
    pub p: Params,
    /// size given to GLWEBlindRetriever::alloc
    pub capacity: usize,
    /// number of calls of a history
    pub depth: usize,
    pub first: RCall,
}

pub fn all_rcalls(capacity: usize) -> Vec<RCall> {
    let mut v = vec![];
    for len in 1..=capacity {
        for idx in 0..len {
            for add_flush in [false, true] {
                v.push(RCall { add_flush, len, idx });
            }
        }
    }
    v
}

/// first calls of the large capacities: lengths around the powers of two and the capacity, first and last index
pub fn structured_rcalls(capacity: usize) -> Vec<RCall> {
    let mut lens: Vec<usize> = vec![1, 2, 3, 4, 5, 7, 8, 9, 15, 16, 17, capacity - 1, capacity];
    lens.retain(|l| *l >= 1 && *l <= capacity);
    lens.sort();
    lens.dedup();
    let mut v = vec![];
    for len in lens {
        for idx in [0, len - 1] {
            for add_flush in [false, true] {
                let c = RCall { add_flush, len, idx };
                if !v.contains(&c) {
                    v.push(c);
                }
            }
        }
    }
    v
}

fn hist_datum(call: usize, i: usize) -> u32 {
    0x9E37_79B9u32.wrapping_mul((i + 1 + 64 * call) as u32) ^ 0x8000_0001 ^ ((call as u32 + 1) << 20)
}

pub fn exec_hist<B: Bk>(ctx: &Ctx<B>, c: &HistCase, only: Option<Vec<RCall>>, seed: u64, rec: &mut Rec)
where
    Module<B>: HalAll<B> + CoreAll<B> + UintAll<B>,
    Scratch<B>: ScratchTakeCore<B>,
    ScratchOwned<B>: ScratchOwnedAlloc<B> + ScratchOwnedBorrow<B>,
{
    let h = fnv(format!("{c:?}").as_bytes());
    let gf = (h & 1) as usize;
    rec.distinct(h);
    rec.sample(|| serde_json::to_value(c).unwrap());
    let cap = c.capacity;
    let bits: usize = if cap <= 1 { 1 } else { (usize::BITS - (cap - 1).leading_zeros()) as usize };
    let field: u32 = ((1u64 << bits) - 1) as u32;
    // one selector per index (all bits outside the index field set) and one distinct array per call position
    let built = guarded(|| {
        let sels: Vec<Prep<B, u32>> =
            (0..cap).map(|idx| encrypt_prepared::<B, u32>(ctx, idx as u32 | !field, ctx.p.k_ggsw, ctx.p.ggsw_dnum, seed ^ h ^ (idx as u64 + 1))).collect();
        let data: Vec<Vec<FheUint<Vec<u8>, u32>>> = (0..c.depth)
            .map(|call| (0..cap).map(|i| encrypt_word::<B, u32>(ctx, hist_datum(call, i), seed ^ h ^ ((call * 64 + i) as u64 + 100))).collect())
            .collect();
        (sels, data)
    });
    let (sels, data) = match built {
        Ok(x) => x,
        Err(e) => return rec.fail(desc("retriever_history", B::NAME, "panic", c, json!({"stage": "inputs"}), json!({"panic": e}))),
    };
    let infos = ctx.p.glwe_infos();
    let mut s = arena::<B>(ctx, gf);
    // histories: the first call is the case's, the following ones range over every call
    let rest = all_rcalls(cap);
    let mut histories: Vec<Vec<RCall>> = vec![vec![c.first]];
    for _ in 1..c.depth {
        histories = histories.into_iter().flat_map(|hs| rest.iter().map(move |r| [hs.clone(), vec![*r]].concat())).collect();
    }
    if let Some(o) = &only {
        histories.retain(|hs| hs == o);
    }
    let mut reported = 0usize;
    for hs in &histories {
        let run_history = |s: &mut ScratchOwned<B>, rec: &mut Rec| -> Result<(), (usize, &'static str, Value)> {
            let mut r = guarded(|| GLWEBlindRetriever::alloc(&infos, cap)).map_err(|e| (0usize, "panic", json!({"panic": e, "stage": "alloc"})))?;
            for (ci, call) in hs.iter().enumerate() {
                let mut res = alloc_word::<B, u32>(ctx, (ci + gf) & 1);
                let sel = &sels[call.idx];
                let arr = &data[ci][..call.len];
                let out = guarded(|| {
                    if call.add_flush {
                        for ct in arr {
                            r.add(&ctx.module, ct, sel, 0, B::borrow(s));
                        }
                        r.flush(&ctx.module, &mut res, sel, 0, B::borrow(s));
                    } else {
                        r.retrieve(&ctx.module, &mut res, arr, sel, 0, B::borrow(s));
                    }
                });
                rec.evals(1);
                out.map_err(|e| (ci, "panic", json!({"panic": e})))?;
                let rd = read_ct(ctx, &res, 32);
                NOISE_PACKED.update(rd.max_rel);
                rec.outcome(rd.value);
                if let Some((kind, mut extra)) = judge_word(&rd, hist_datum(ci, call.idx) as u64) {
                    // a result that belongs to an earlier call of the history is the signature of retained state
                    let stale = (0..ci).any(|pc| (0..cap).any(|i| hist_datum(pc, i) as u64 == rd.value));
                    extra["equals_an_element_of_an_earlier_call"] = json!(stale);
                    return Err((ci, kind, extra));
                }
            }
            Ok(())
        };
        if let Err((ci, kind, mut extra)) = run_history(&mut s, rec) {
            reported += 1;
            if reported <= 8 {
                extra["first_call_of_history_is_wrong"] = json!(ci == 0);
                extra["capacity_is_power_of_two"] = json!(cap.is_power_of_two());
                rec.fail(desc("glwe_blind_retriever", B::NAME, kind, c, json!({"history": hs, "call_index": ci}), extra));
            } else {
                rec.add("further_failing_histories_not_listed", 1);
            }
        }
        rec.add("histories", 1);
    }
}

pub fn fam_retriever_history<B: Bk>(run: &mut Run, pool: &Pool<B>, ps: &[Params])
where
    Module<B>: HalAll<B> + CoreAll<B> + UintAll<B>,
    Scratch<B>: ScratchTakeCore<B>,
    ScratchOwned<B>: ScratchOwnedAlloc<B> + ScratchOwnedBorrow<B>,
{
    let seed = run.seed;
    let thorough = is_dense(run);
    let mut cases = vec![];
    for (pi, p) in ps.iter().enumerate() {
        // quick: the primary parameter set only
        if !thorough && pi > 0 {
            continue;
        }
        // exhaustive: every history of `depth` calls; the large capacities start from a structured set of first calls
        let plan: Vec<(usize, usize, bool)> = if thorough {
            vec![(1, 3, true), (2, 3, true), (3, 3, true), (4, 3, true), (5, 3, true), (6, 2, true), (7, 2, true), (8, 2, true), (9, 2, true), (16, 2, false), (25, 2, false)]
        } else {
            vec![(1, 3, true), (2, 3, true), (3, 3, true), (4, 3, true), (5, 2, true), (8, 2, true)]
        };
        for (capacity, depth, exhaustive_first) in plan {
            if pi > 0 && (capacity > 8 || depth > 2) {
                continue;
            }
            let firsts = if exhaustive_first { all_rcalls(capacity) } else { structured_rcalls(capacity) };
            for first in firsts {
                cases.push(HistCase {
                    backend: B::NAME.into(),
                    p: *p,
                    capacity,
                    depth,
                    first,
                });
            }
        }
    }
    run.family(
        &format!("retriever_history/{}", B::NAME),
        "explicit-state search over call histories on ONE GLWEBlindRetriever: capacities 1,2,3,4,5,8 (thorough 1..9, 16, 25), histories of 2 calls (3 calls for capacities <= 4; thorough <= 5), each call = (retrieve | add x len then flush, array length 1..=capacity, index 0..len); outer = (capacity, first call) - every first call for the small capacities, a structured set (lengths around the powers of two and the capacity, first / last index) for 16 and 25; inner = EVERY continuation; each history runs on a fresh retriever, the calls of a history use pairwise distinct arrays, and every call's result is read at every coefficient and must be the element of that call's array",
        cases,
        |c, rec| exec_hist::<B>(pool.get(&c.p), c, None, seed, rec),
    );
}

// ---------------------------------------------------------------------------------------------
// family rotation: glwe_blind_rotation(_assign), scalar_to_ggsw_blind_rotation, ggsw_blind_rotation(_assign)
// ---------------------------------------------------------------------------------------------

#[derive(Clone, Debug, Serialize, Deserialize)]
pub struct RotCase {
    pub backend: String,
    pub p: Params,
    /// "glwe" | "ggsw"
    pub kind: String,
    pub k: u32,
    /// radix of the selector word's GGSWs (0 = the targets' own, 13)
    #[serde(default)]
    pub sel_base2k: u32,
}

/// every (sign, bit_rsh, bit_mask, bit_lsh) exercised for a ring of degree 2^log_n
pub fn rot_windows(log_n: usize, dense: bool) -> Vec<(bool, usize, usize, usize)> {
    let mut out = vec![];
    for mask in 0..=(log_n + 1) {
        let mut lshs = vec![0usize, 1, log_n + 1 - mask];
        if dense {
            lshs.extend(0..=(log_n + 1 - mask));
        }
        lshs.retain(|l| mask + l <= log_n + 1);
        lshs.sort();
        lshs.dedup();
        let mut rshs = vec![0usize, 3, 32 - mask];
        if dense {
            rshs.extend([1, 8, 15, 16, 24]);
        }
        rshs.retain(|r| r + mask <= 32);
        rshs.sort();
        rshs.dedup();
        for &lsh in &lshs {
            for &rsh in &rshs {
                for sign in [false, true] {
                    out.push((sign, rsh, mask, lsh));
                }
            }
        }
    }
    out
}

pub fn exec_rot<B: Bk>(ctx: &Ctx<B>, c: &RotCase, only: Option<(bool, usize, usize, usize)>, dense: bool, seed: u64, rec: &mut Rec)
where
    Module<B>: HalAll<B> + CoreAll<B> + UintAll<B>,
    Scratch<B>: ScratchTakeCore<B>,
    ScratchOwned<B>: ScratchOwnedAlloc<B> + ScratchOwnedBorrow<B>,
{
    let h = fnv(format!("{c:?}").as_bytes());
    let gf = (h & 1) as usize;
    rec.distinct(h);
    rec.sample(|| serde_json::to_value(c).unwrap());
    let n = ctx.p.n_glwe as usize;
    let log_n = log2(n);
    let b = ctx.p.base2k as usize;
    let mut s = arena::<B>(ctx, gf);
    let ggsw_kind = c.kind == "ggsw";
    // selector bits: for GLWE targets the suite's GGSW layout suffices; rotating GGSW rows of 3 limbs needs 3 digits
    let rows = if ggsw_kind { 3 } else { ctx.p.ggsw_dnum };
    let sel = match guarded(|| encrypt_prepared_layout::<B, u32>(ctx, c.k, selector_layout(&ctx.p, c.sel_base2k, rows), seed ^ h)) {
        Ok(x) => x,
        Err(e) => return rec.fail(desc("selector", B::NAME, "panic", c, json!({}), json!({"panic": e}))),
    };
    // test vector: coefficient i holds i
    let data: Vec<i64> = (0..n as i64).collect();
    let glwe_infos = ctx.p.glwe_infos();
    let mut r = Rng::new(seed ^ h, 0xE4);
    let (mut xe, mut xa) = (Source::new(r.seed32()), Source::new(r.seed32()));
    let mut tv: GLWE<Vec<u8>> = GLWE::alloc_from_infos(&glwe_infos);
    {
        let enc = EncryptionLayout::new_from_default_sigma(glwe_infos).expect("glwe layout");
        let mut pt: GLWEPlaintext<Vec<u8>> = GLWEPlaintext::alloc_from_infos(&glwe_infos);
        pt.encode_vec_i64(&data, TorusPrecision(b as u32));
        ctx.module.glwe_encrypt_sk(&mut tv, &pt, &ctx.sk_prep, &enc, &mut xe, &mut xa, B::borrow(&mut s));
    }
    let mut scalar: ScalarZnx<Vec<u8>> = ScalarZnx::alloc(n, 1);
    scalar.raw_mut().copy_from_slice(&data);
    let res_infos = ctx.p.ggsw_infos();
    for (sign, rsh, mask, lsh) in rot_windows(log_n, dense) {
        if let Some(o) = only {
            if o != (sign, rsh, mask, lsh) {
                continue;
            }
        }
        let inner = json!({"sign": sign, "bit_rsh": rsh, "bit_mask": mask, "bit_lsh": lsh});
        let field = ((c.k as u64 >> rsh) & ((1u64 << mask) - 1)) as i64;
        let rot = (field << lsh) * if sign { 1 } else { -1 };
        let want = ring::mul_xk(&data, rot);
        rec.evals(1);
        rec.outcome(rot as u64);
        if !ggsw_kind {
            for assign in [false, true] {
                let op = if assign { "glwe_blind_rotation_assign" } else { "glwe_blind_rotation" };
                let mut res = alloc_glwe::<B>(ctx, 1 - gf);
                let r = guarded(|| {
                    if assign {
                        use poulpy_core::GLWECopy;
                        ctx.module.glwe_copy(&mut res, &tv);
                        ctx.module.glwe_blind_rotation_assign(&mut res, &sel, sign, rsh, mask, lsh, B::borrow(&mut s));
                    } else {
                        ctx.module.glwe_blind_rotation(&mut res, &tv, &sel, sign, rsh, mask, lsh, B::borrow(&mut s));
                    }
                });
                match r {
                    Err(e) => rec.fail(desc(op, B::NAME, "panic", c, inner.clone(), json!({"panic": e}))),
                    Ok(()) => {
                        let (ph, bits) = glwe_phase(res.data(), b, &ctx.sk_clear);
                        let mut worst = 0f64;
                        let mut bad = None;
                        for (i, &x) in ph.iter().enumerate() {
                            let (q, rel) = round_at(x, bits, b);
                            worst = worst.max(rel.abs());
                            if (q - want[i]).rem_euclid(1 << b) != 0 && bad.is_none() {
                                bad = Some((i, q, want[i]));
                            }
                        }
                        NOISE_PACKED.update(worst);
                        if let Some((i, q, w)) = bad {
                            rec.fail(desc(op, B::NAME, "wrong_value", c, inner.clone(), json!({"coefficient": i, "got": q, "want": w, "rotation": rot})));
                        }
                    }
                }
            }
        } else {
            // scalar -> GGSW, then GGSW -> GGSW by the inverse amount (sign flipped) must give back the scalar
            let mut res: GGSW<Vec<u8>> = GGSW::alloc_from_infos(&res_infos);
            ggsw_garbage(&mut res, 1 - gf);
            let r = guarded(|| {
                <Module<B> as GGSWBlindRotation<u32, B>>::scalar_to_ggsw_blind_rotation(
                    &ctx.module,
                    &mut res,
                    &scalar,
                    &sel,
                    sign,
                    rsh,
                    mask,
                    lsh,
                    B::borrow(&mut s),
                )
            });
            match r {
                Err(e) => rec.fail(desc("scalar_to_ggsw_blind_rotation", B::NAME, "panic", c, inner.clone(), json!({"panic": e}))),
                Ok(()) => {
                    if let Some(bad) = check_ggsw_cells(ctx, &res, &want) {
                        rec.fail(desc("scalar_to_ggsw_blind_rotation", B::NAME, "wrong_cell", c, inner.clone(), json!({"cell": bad, "rotation": rot})));
                        continue;
                    }
                    let mut back: GGSW<Vec<u8>> = GGSW::alloc_from_infos(&res_infos);
                    ggsw_garbage(&mut back, gf);
                    let r = guarded(|| {
                        <Module<B> as GGSWBlindRotation<u32, B>>::ggsw_blind_rotation(
                            &ctx.module,
                            &mut back,
                            &res,
                            &sel,
                            !sign,
                            rsh,
                            mask,
                            lsh,
                            B::borrow(&mut s),
                        );
                        <Module<B> as GGSWBlindRotation<u32, B>>::ggsw_blind_rotation_assign(
                            &ctx.module,
                            &mut res,
                            &sel,
                            sign,
                            rsh,
                            mask,
                            lsh,
                            B::borrow(&mut s),
                        );
                    });
                    rec.evals(2);
                    match r {
                        Err(e) => rec.fail(desc("ggsw_blind_rotation", B::NAME, "panic", c, inner.clone(), json!({"panic": e}))),
                        Ok(()) => {
                            if let Some(bad) = check_ggsw_cells(ctx, &back, &data) {
                                rec.fail(desc("ggsw_blind_rotation", B::NAME, "wrong_cell", c, inner.clone(), json!({"cell": bad, "rotation": -rot})));
                            }
                            let twice = ring::mul_xk(&data, 2 * rot);
                            if let Some(bad) = check_ggsw_cells(ctx, &res, &twice) {
                                rec.fail(desc("ggsw_blind_rotation_assign", B::NAME, "wrong_cell", c, inner.clone(), json!({"cell": bad, "rotation": 2 * rot})));
                            }
                        }
                    }
                }
            }
        }
    }
}

pub fn fam_rotation<B: Bk>(run: &mut Run, pool: &Pool<B>, ps: &[Params])
where
    Module<B>: HalAll<B> + CoreAll<B> + UintAll<B>,
    Scratch<B>: ScratchTakeCore<B>,
    ScratchOwned<B>: ScratchOwnedAlloc<B> + ScratchOwnedBorrow<B>,
{
    let seed = run.seed;
    let dense = is_dense(run);
    let mut r = Rng::new(seed, 0xB1);
    let ks: Vec<u32> = if dense {
        vec![0xFFFF_FFFF, 0xA5A5_A5A5, 0x5A5A_5A5A, 0x8000_0001, 0, r.next() as u32, r.next() as u32]
    } else {
        vec![0xFFFF_FFFF, 0xA5A5_A5A5, 0x8000_0001]
    };
    let mut cases = vec![];
    for p in ps {
        for kind in ["glwe", "ggsw"] {
            for (ki, &k) in ks.iter().enumerate() {
                // blind rotations are CMux chains: equal radices only (asserted by the core external product)
                for sel_base2k in [0u32] {
                    let _ = ki;
                    cases.push(RotCase {
                        backend: B::NAME.into(),
                        p: *p,
                        kind: kind.into(),
                        k,
                        sel_base2k,
                    });
                }
            }
        }
    }
    run.family(
        &format!("blind_rotation/{}", B::NAME),
        "outer = (parameter set, glwe | ggsw target, selector word k); inner = every window (sign, bit_rsh, bit_mask 0..log N + 1, bit_lsh) of the structured family (thorough: every bit_lsh, 8 bit_rsh values); glwe: blind_rotation and _assign of an encrypted test vector (coefficient i = i), every coefficient compared with a * X^(+-((k >> rsh) mod 2^mask) << lsh); ggsw: scalar_to_ggsw_blind_rotation with EVERY cell (row, col) decrypted, then ggsw_blind_rotation by the opposite sign (back to the scalar) and _assign (twice the rotation), every cell decrypted",
        cases,
        |c, rec| exec_rot::<B>(pool.get(&c.p), c, None, dense, seed, rec),
    );
}

// ---------------------------------------------------------------------------------------------
// family cbt: circuit bootstrapping, every cell
// ---------------------------------------------------------------------------------------------

#[derive(Clone, Debug, Serialize, Deserialize)]
pub struct CbtCase {
    pub backend: String,
    pub p: Params,
    /// "constant" | "exponent"
    pub mode: String,
    /// "lwe_encrypt" (fresh LWE of value * 2^-(log_domain+1)) | "get_bit_lwe" (bit 9 of a packed word, log_domain 1)
    pub source: String,
    pub log_domain: usize,
    pub value: u64,
    pub log_gap_out: usize,
    pub res_k: u32,
    pub res_dnum: u32,
}

pub fn exec_cbt<B: Bk>(ctx: &Ctx<B>, c: &CbtCase, seed: u64, rec: &mut Rec)
where
    Module<B>: HalAll<B> + CoreAll<B> + UintAll<B>,
    Scratch<B>: ScratchTakeCore<B>,
    ScratchOwned<B>: ScratchOwnedAlloc<B> + ScratchOwnedBorrow<B>,
{
    let h = fnv(format!("{c:?}").as_bytes());
    let gf = (h & 1) as usize;
    rec.distinct(h);
    rec.sample(|| serde_json::to_value(c).unwrap());
    let n = ctx.p.n_glwe as usize;
    let mut s = garbage_scratch::<B>(1 << 23, gf);
    let (cbt, ks_glwe, ks_lwe) = ctx.key.get_cbt_key();
    let b = ctx.p.base2k;
    let mut r = Rng::new(seed ^ h, 0xE5);
    let (mut xe, mut xa) = (Source::new(r.seed32()), Source::new(r.seed32()));
    let lwe = guarded(|| {
        if c.source == "lwe_encrypt" {
            let infos = LWELayout {
                n: Degree(ctx.p.n_lwe),
                k: TorusPrecision(ctx.p.k_glwe),
                base2k: Base2K(b),
            };
            let enc = EncryptionLayout::new_from_default_sigma(infos).expect("lwe layout");
            let mut pt: LWEPlaintext<Vec<u8>> = LWEPlaintext::alloc(Base2K(b), TorusPrecision(ctx.p.k_glwe));
            pt.encode_i64(c.value as i64, TorusPrecision(c.log_domain as u32 + 1));
            let mut ct: LWE<Vec<u8>> = LWE::alloc_from_infos(&infos);
            ctx.module.lwe_encrypt_sk(&mut ct, &pt, &ctx.sk_lwe, &enc, &mut xe, &mut xa, B::borrow(&mut s));
            ct
        } else {
            let w: u32 = if c.value == 1 { 1 << 9 } else { !(1 << 9) };
            let ct = encrypt_word::<B, u32>(ctx, w, seed ^ h);
            let mut lwe: LWE<Vec<u8>> = LWE::alloc(Degree(ctx.p.n_glwe), Base2K(b), TorusPrecision(ctx.p.k_glwe));
            ct.get_bit_lwe(&ctx.module, 9, &mut lwe, ks_glwe, ks_lwe, B::borrow(&mut s));
            lwe
        }
    });
    let lwe = match lwe {
        Ok(x) => x,
        Err(e) => return rec.fail(desc("cbt_input", B::NAME, "panic", c, json!({}), json!({"panic": e}))),
    };
    let infos = ctx.p.ggsw_infos_with(c.res_k, c.res_dnum);
    let mut res: GGSW<Vec<u8>> = GGSW::alloc_from_infos(&infos);
    ggsw_garbage(&mut res, 1 - gf);
    let op = if c.mode == "constant" { "execute_to_constant" } else { "execute_to_exponent" };
    let r = guarded(|| {
        if c.mode == "constant" {
            cbt.execute_to_constant(&ctx.module, &mut res, &lwe, c.log_domain, 1, B::borrow(&mut s));
        } else {
            cbt.execute_to_exponent(&ctx.module, c.log_gap_out, &mut res, &lwe, c.log_domain, 1, B::borrow(&mut s));
        }
    });
    rec.evals(1);
    match r {
        Err(e) => rec.fail(desc(op, B::NAME, "panic", c, json!({}), json!({"panic": e}))),
        Ok(()) => {
            let mut pt = vec![0i64; n];
            if c.mode == "constant" {
                pt[0] = c.value as i64;
            } else {
                // the monomial X^(value * 2^log_gap_out)
                pt[0] = 1;
                pt = ring::mul_xk(&pt, (c.value << c.log_gap_out) as i64);
            }
            rec.outcome(fnv(format!("{pt:?}").as_bytes()));
            if let Some(bad) = check_ggsw_cells(ctx, &res, &pt) {
                // log_gap_in of post_process = log2(gap * alpha) = log N - log_domain: the no-repacking branch
                let no_repack = c.mode == "exponent" && c.log_gap_out + c.log_domain == log2(n);
                rec.fail(desc(op, B::NAME, "wrong_cell", c, json!({}), json!({"cell": bad, "gap_out_equals_gap_in": no_repack})));
            }
        }
    }
}

pub fn fam_cbt<B: Bk>(run: &mut Run, pool: &Pool<B>, ps: &[Params])
where
    Module<B>: HalAll<B> + CoreAll<B> + UintAll<B>,
    Scratch<B>: ScratchTakeCore<B>,
    ScratchOwned<B>: ScratchOwnedAlloc<B> + ScratchOwnedBorrow<B>,
{
    let seed = run.seed;
    let thorough = is_dense(run);
    let mut cases = vec![];
    for p in ps {
        let log_n = log2(p.n_glwe as usize);
        // result layouts whose last gadget row still lies above the last limb (dnum < size), so that "the cell rounds to
        // its gadget multiple" is a meaningful statement
        let layouts: Vec<(u32, u32)> = if thorough { vec![(39, 2), (39, 1), (26, 1), (52, 2)] } else { vec![(39, 2), (26, 1)] };
        // admissible LUT resolution: each of the 2^log_domain * alpha LUT segments spans 2 * drift of the 2N rotation
        // positions; rounding the LWE ciphertext to 2N positions moves the phase by at most (hw + 1) / 2 positions
        // (hw = non-zero coefficients of the block-binary LWE secret) and the input noise by about one more
        let hw = (p.n_lwe / p.block_size) as usize;
        let min_drift = (hw + 1).div_ceil(2) + 2;
        let drift_ok = |log_domain: usize, dnum: u32| -> bool {
            let alpha = (dnum as usize).next_power_of_two();
            (p.n_glwe as usize) / ((1usize << (log_domain + 1)) * alpha) >= min_drift
        };
        for &(res_k, res_dnum) in &layouts {
            // constant mode: the bit itself (log_domain 1), from a fresh LWE and from a packed word; small domains too
            for source in ["lwe_encrypt", "get_bit_lwe"] {
                if !drift_ok(1, res_dnum) {
                    continue;
                }
                for value in [0u64, 1] {
                    cases.push(CbtCase {
                        backend: B::NAME.into(),
                        p: *p,
                        mode: "constant".into(),
                        source: source.into(),
                        log_domain: 1,
                        value,
                        log_gap_out: 0,
                        res_k,
                        res_dnum,
                    });
                }
            }
            for log_domain in 2..=(if thorough { 3usize } else { 2 }) {
                if !drift_ok(log_domain, res_dnum) {
                    continue;
                }
                for value in 0..(1u64 << log_domain) {
                    cases.push(CbtCase {
                        backend: B::NAME.into(),
                        p: *p,
                        mode: "constant".into(),
                        source: "lwe_encrypt".into(),
                        log_domain,
                        value,
                        log_gap_out: 0,
                        res_k,
                        res_dnum,
                    });
                }
            }
            // exponent mode: X^(bit * 2^gap) for every admissible gap, plus small domains
            for log_domain in 1..=(if thorough { 3usize } else { 2 }) {
                if !drift_ok(log_domain, res_dnum) {
                    continue;
                }
                for log_gap_out in 0..(log_n - log_domain + 1) {
                    for value in 0..(1u64 << log_domain) {
                        if log_domain > 1 && !thorough && log_gap_out > 2 {
                            continue;
                        }
                        for source in ["lwe_encrypt", "get_bit_lwe"] {
                            if source == "get_bit_lwe" && (log_domain != 1 || log_gap_out > 1) {
                                continue;
                            }
                            cases.push(CbtCase {
                                backend: B::NAME.into(),
                                p: *p,
                                mode: "exponent".into(),
                                source: source.into(),
                                log_domain,
                                value,
                                log_gap_out,
                                res_k,
                                res_dnum,
                            });
                        }
                    }
                }
            }
        }
    }
    run.family(
        &format!("cbt/{}", B::NAME),
        "outer = (parameter set, result GGSW layout (k, dnum), mode constant | exponent, LWE from fresh encryption under the clear LWE secret | from get_bit_lwe of a packed word, log_domain, value 0..2^log_domain, log_gap_out 0..log N - log_domain); EVERY cell (row, col) of the resulting GGSW is decrypted with the clear keys and compared at every coefficient with value * g_row * (1 | s_col) (constant) or X^(value << gap) * g_row * (1 | s_col) (exponent)",
        cases,
        |c, rec| exec_cbt::<B>(pool.get(&c.p), c, seed, rec),
    );
}

// ---------------------------------------------------------------------------------------------
// family prepare_custom
// ---------------------------------------------------------------------------------------------

#[derive(Clone, Debug, Serialize, Deserialize)]
pub struct PcCase {
    pub backend: String,
    pub p: Params,
    pub width: String,
    /// "trait" = Module::fhe_uint_prepare_custom(bit_start, bit_count) | "trait_mt" = .._multi_thread |
    /// "wrapper" = FheUintPrepared::prepare_custom(bit_start, bit_end) | "wrapper_mt" = ..::prepare_custom_multi_thread
    pub api: String,
    pub threads: usize,
    pub start: usize,
    pub len: usize,
    pub word: u64,
}

fn ranges(flags: &[bool]) -> Vec<(usize, usize)> {
    let mut out = vec![];
    let mut i = 0;
    while i < flags.len() {
        if flags[i] {
            let lo = i;
            while i < flags.len() && flags[i] {
                i += 1;
            }
            out.push((lo, i));
        } else {
            i += 1;
        }
    }
    out
}

fn exec_pc_t<B: Bk, T: Word>(ctx: &Ctx<B>, c: &PcCase, seed: u64, rec: &mut Rec)
where
    Module<B>: HalAll<B> + CoreAll<B> + UintAll<B> + FheUintPreparedFactory<T, B> + FheUintPreparedEncryptSk<T, B>,
    Scratch<B>: ScratchTakeCore<B>,
    ScratchOwned<B>: ScratchOwnedAlloc<B> + ScratchOwnedBorrow<B>,
{
    let h = fnv(format!("{c:?}").as_bytes());
    let gf = (h & 1) as usize;
    rec.distinct(h);
    rec.sample(|| serde_json::to_value(c).unwrap());
    let bits = T::bits();
    let (start, len) = (c.start, c.len);
    let end = start + len;
    let classify = json!({"api": c.api, "start_is_zero": start == 0, "len_is_zero": len == 0, "wrapper": c.api.starts_with("wrapper")});
    let with = |mut extra: Value| -> Value {
        if let (Value::Object(m), Value::Object(cl)) = (&mut extra, classify.clone()) {
            for (k, v) in cl {
                m.insert(k, v);
            }
        }
        extra
    };
    let op = match c.api.as_str() {
        "trait" => "fhe_uint_prepare_custom",
        "trait_mt" => "fhe_uint_prepare_custom_multi_thread",
        "wrapper" => "prepare_custom",
        "wrapper_mt" => "prepare_custom_multi_thread",
        o => panic!("unknown api {o}"),
    };
    let ct = match guarded(|| encrypt_word::<B, T>(ctx, T::from_u64(c.word), seed ^ h)) {
        Ok(x) => x,
        Err(e) => return rec.fail(desc("encrypt_sk", B::NAME, "panic", c, json!({}), json!({"panic": e}))),
    };
    // stale content of the receiver: every bit is a valid GGSW of 1 (any bit that is neither prepared nor zeroed shows)
    let mut prep = match guarded(|| encrypt_prepared::<B, T>(ctx, T::from_u64(T::mask()), ctx.p.k_ggsw, ctx.p.ggsw_dnum, seed ^ h ^ 9)) {
        Ok(x) => x,
        Err(e) => return rec.fail(desc("prepared_encrypt_sk", B::NAME, "panic", c, json!({}), json!({"panic": e}))),
    };
    // the documented amount: threads x fhe_uint_prepare_tmp_bytes (the routine asserts exactly this much is available)
    let declared = prepare_bytes::<B>(ctx, c.threads);
    let call = |prep: &mut Prep<B, T>, bytes: usize| -> Result<(), String> {
        let mut s = garbage_scratch::<B>(bytes, gf);
        guarded(|| match c.api.as_str() {
            "trait" => ctx.module.fhe_uint_prepare_custom(prep, &ct, start, len, &ctx.key, B::borrow(&mut s)),
            "trait_mt" => ctx.module.fhe_uint_prepare_custom_multi_thread(c.threads, prep, &ct, start, len, &ctx.key, B::borrow(&mut s)),
            // the wrappers name their last range argument `bit_end`
            "wrapper" => prep.prepare_custom(&ctx.module, &ct, start, end, &ctx.key, B::borrow(&mut s)),
            "wrapper_mt" => prep.prepare_custom_multi_thread(c.threads, &ctx.module, &ct, start, end, &ctx.key, B::borrow(&mut s)),
            _ => unreachable!(),
        })
    };
    let mut r = call(&mut prep, declared);
    rec.evals(1);
    if let Err(e) = &r {
        if e.contains("from scratch with") {
            // The declared amount does not survive the routine's own cut into per-thread windows. Report it as its own
            // class; then retry with a much larger arena: the routine cuts windows of exactly the per-thread size it
            // computes itself, so if that size is not a multiple of the arena alignment no arena can help.
            let e1 = e.clone();
            prep = match guarded(|| encrypt_prepared::<B, T>(ctx, T::from_u64(T::mask()), ctx.p.k_ggsw, ctx.p.ggsw_dnum, seed ^ h ^ 9)) {
                Ok(x) => x,
                Err(e) => return rec.fail(desc("prepared_encrypt_sk", B::NAME, "panic", c, json!({}), json!({"panic": e}))),
            };
            r = call(&mut prep, 2 * declared + 4096);
            rec.evals(1);
            let per = declared / c.threads.max(1);
            let still = matches!(&r, Err(e2) if e2.contains("from scratch with"));
            rec.fail(desc(
                op,
                B::NAME,
                "scratch_too_small",
                c,
                json!({}),
                with(json!({"panic": e1, "declared_bytes": declared, "per_thread_bytes": per, "per_thread_mod_64": per % 64,
                    "larger_arena_also_panics": still})),
            ));
            if still {
                return;
            }
        }
    }
    if let Err(e) = r {
        return rec.fail(desc(op, B::NAME, "panic", c, json!({}), with(json!({"panic": e, "start_plus_end_exceeds_bits": start + end > bits}))));
    }
    let mut s = arena::<B>(ctx, 1 - gf);
    let o = match observe_prepared::<B, T, _>(ctx, &prep, B::borrow(&mut s)) {
        Ok(o) => o,
        Err(e) => return rec.fail(desc(op, B::NAME, "panic", c, json!({"stage": "observe"}), with(json!({"panic": e})))),
    };
    NOISE_PREPARED.update(o.max_rel);
    rec.outcome(o.value ^ ((start as u64) << 40) ^ ((len as u64) << 48));
    let window: u64 = if len == 0 { 0 } else { (((1u128 << len) - 1) as u64) << start };
    let nonzero: Vec<bool> = o.zero_bytes.iter().map(|z| !*z).collect();
    let got_ranges = ranges(&nonzero);
    // outside the window: zeroed exactly (bytes and effect); inside: selects the word's bit
    let outside_bad: Vec<usize> = (0..bits).filter(|i| (window >> i) & 1 == 0 && (!o.zero_bytes[*i] || !o.exact_zero_out[*i])).collect();
    if !outside_bad.is_empty() {
        return rec.fail(desc(
            op,
            B::NAME,
            "stale_output",
            c,
            json!({}),
            with(json!({"not_zeroed_bits": outside_bad, "nonzero_ranges_got": got_ranges, "want_range": [start, end]})),
        ));
    }
    let inside_bad: Vec<usize> = (0..bits).filter(|i| (window >> i) & 1 == 1 && ((o.value ^ c.word) >> i) & 1 == 1).collect();
    if !inside_bad.is_empty() || !o.bad.is_empty() {
        return rec.fail(desc(
            op,
            B::NAME,
            "wrong_value",
            c,
            json!({}),
            with(json!({"wrong_bits": inside_bad, "got": o.value, "want": c.word & window, "nonzero_ranges_got": got_ranges, "want_range": [start, end],
                "bad": o.bad.iter().take(4).collect::<Vec<_>>()})),
        ));
    }
}

pub fn exec_pc<B: Bk>(ctx: &Ctx<B>, c: &PcCase, seed: u64, rec: &mut Rec)
where
    Module<B>: HalAll<B> + CoreAll<B> + UintAll<B>,
    Scratch<B>: ScratchTakeCore<B>,
    ScratchOwned<B>: ScratchOwnedAlloc<B> + ScratchOwnedBorrow<B>,
{
    match c.width.as_str() {
        "u8" => exec_pc_t::<B, u8>(ctx, c, seed, rec),
        "u16" => exec_pc_t::<B, u16>(ctx, c, seed, rec),
        "u32" => exec_pc_t::<B, u32>(ctx, c, seed, rec),
        o => panic!("unknown width {o}"),
    }
}

pub fn fam_prepare_custom<B: Bk>(run: &mut Run, pool: &Pool<B>, ps: &[Params])
where
    Module<B>: HalAll<B> + CoreAll<B> + UintAll<B>,
    Scratch<B>: ScratchTakeCore<B>,
    ScratchOwned<B>: ScratchOwnedAlloc<B> + ScratchOwnedBorrow<B>,
{
    let seed = run.seed;
    let thorough = is_dense(run);
    let mut cases = vec![];
    for (pi, p) in ps.iter().enumerate() {
        for (wname, bits) in WIDTHS {
            let mask = if bits == 32 { 0xFFFF_FFFFu64 } else { (1 << bits) - 1 };
            for (api, threads) in [("trait", 1usize), ("wrapper", 1), ("trait_mt", 2), ("trait_mt", 3), ("wrapper_mt", 2), ("trait_mt", 5)] {
                for start in 0..=bits {
                    for len in 0..=(bits - start) {
                        // quick: all (start, len) for u8 on every entry point and for u16/u32 on the two single-thread entry points
                        // of the primary set; a structured family elsewhere (boundaries of bytes, first/last bit, full width)
                        let structured = |x: usize| x <= 1 || x % 8 == 0 || x % 8 == 7 || x + 1 >= bits;
                        let full = bits == 8 || (threads == 1 && (thorough || p.n_glwe == 32)) || (thorough && pi == 0);
                        if !full && !(structured(start) && structured(len) && (thorough || (start + len) % 8 <= 1 || start == 0)) {
                            continue;
                        }
                        let word = if (start + len) % 2 == 0 { 0xA5C3_96F0u64 } else { 0x5A3C_690Fu64 } & mask;
                        cases.push(PcCase {
                            backend: B::NAME.into(),
                            p: *p,
                            width: wname.into(),
                            api: api.into(),
                            threads,
                            start,
                            len,
                            word,
                        });
                    }
                }
            }
        }
    }
    run.family(
        &format!("prepare_custom/{}", B::NAME),
        "outer = (parameter set, width, entry point: Module::fhe_uint_prepare_custom(start, count) | .._multi_thread (2, 3, 5 threads) | FheUintPrepared::prepare_custom(start, end) | ..::prepare_custom_multi_thread, start, length) for EVERY (start, length) with start + length <= BITS incl. length 0 (u8: all pairs on all entry points; u16/u32: all pairs on the single-thread entry points - quick: at N=32, thorough: every parameter set - and a structured family (byte boundaries, first/last bits, full width) elsewhere; thorough adds all pairs on the multi-thread entry points of the primary set); receiver pre-filled with GGSWs of 1; afterwards every bit is observed through CMux: bits inside [start, start+length) select the word's bit, all others have all-zero bytes and an exactly zero effect",
        cases,
        |c, rec| exec_pc::<B>(pool.get(&c.p), c, seed, rec),
    );
}

// ---------------------------------------------------------------------------------------------
// family debug_prepare: the library's own debug path (non-DFT GGSW per bit + noise measurement)
// ---------------------------------------------------------------------------------------------

#[derive(Clone, Debug, Serialize, Deserialize)]
pub struct DbgCase {
    pub backend: String,
    pub p: Params,
    pub width: String,
    pub word: u64,
}

fn exec_dbg_t<B: Bk, T: Word>(ctx: &Ctx<B>, c: &DbgCase, seed: u64, rec: &mut Rec)
where
    Module<B>: HalAll<B> + CoreAll<B> + UintAll<B> + FheUintPrepareDebug<poulpy_bin_fhe::blind_rotation::CGGI, T, B>,
    Scratch<B>: ScratchTakeCore<B>,
    ScratchOwned<B>: ScratchOwnedAlloc<B> + ScratchOwnedBorrow<B>,
{
    let h = fnv(format!("{c:?}").as_bytes());
    let gf = (h & 1) as usize;
    rec.distinct(h);
    rec.sample(|| serde_json::to_value(c).unwrap());
    let w = T::from_u64(c.word);
    let infos = ctx.p.ggsw_infos();
    let r = guarded(|| {
        let ct = encrypt_word::<B, T>(ctx, w, seed ^ h);
        let mut dbg: FheUintPreparedDebug<Vec<u8>, T> = FheUintPreparedDebug::alloc_from_infos(&ctx.module, &infos);
        let mut s = garbage_scratch::<B>(prepare_bytes::<B>(ctx, 1), gf);
        dbg.prepare(&ctx.module, &ct, &ctx.key, B::borrow(&mut s));
        dbg
    });
    rec.evals(1);
    let dbg = match r {
        Ok(d) => d,
        Err(e) => return rec.fail(desc("debug_prepare", B::NAME, "panic", c, json!({}), json!({"panic": e}))),
    };
    let mut s = arena::<B>(ctx, gf);
    let b = ctx.p.base2k as f64;
    for row in 0..ctx.p.ggsw_dnum as usize {
        for col in 0..=ctx.p.rank as usize {
            let inner = json!({"row": row, "col": col});
            match guarded(|| dbg.noise(&ctx.module, row, col, w, &ctx.sk_prep, B::borrow(&mut s))) {
                Err(e) => rec.fail(desc("debug_noise", B::NAME, "panic", c, inner, json!({"panic": e}))),
                Ok(stats) => {
                    rec.evals(stats.len() as u64);
                    // decision statement: the distance to value * g_row * (1 | s_col) stays below half a gadget unit
                    let half_unit = (-(b * (row as f64 + 1.0)) - 1.0)
                        .exp2()
                        .max(cmux_safety_bound(ctx.p.ggsw_dnum as usize, ctx.p.rank as usize + 1, ctx.p.n_glwe as usize, ctx.p.base2k as usize));
                    for (bit, st) in stats.iter().enumerate() {
                        let rel = st.max() / half_unit;
                        if rel < 1.0 {
                            NOISE_CELL.update(rel);
                        }
                        if !(rel < 1.0) {
                            rec.fail(desc("debug_prepare", B::NAME, "wrong_cell", c, inner.clone(), json!({"bit": bit, "max_error": st.max(), "rel": rel})));
                            break;
                        }
                    }
                }
            }
        }
    }
}

pub fn exec_dbg<B: Bk>(ctx: &Ctx<B>, c: &DbgCase, seed: u64, rec: &mut Rec)
where
    Module<B>: HalAll<B> + CoreAll<B> + UintAll<B>,
    Scratch<B>: ScratchTakeCore<B>,
    ScratchOwned<B>: ScratchOwnedAlloc<B> + ScratchOwnedBorrow<B>,
{
    match c.width.as_str() {
        "u8" => exec_dbg_t::<B, u8>(ctx, c, seed, rec),
        "u16" => exec_dbg_t::<B, u16>(ctx, c, seed, rec),
        "u32" => exec_dbg_t::<B, u32>(ctx, c, seed, rec),
        o => panic!("unknown width {o}"),
    }
}

pub fn fam_debug<B: Bk>(run: &mut Run, pool: &Pool<B>, ps: &[Params])
where
    Module<B>: HalAll<B> + CoreAll<B> + UintAll<B>,
    Scratch<B>: ScratchTakeCore<B>,
    ScratchOwned<B>: ScratchOwnedAlloc<B> + ScratchOwnedBorrow<B>,
{
    let seed = run.seed;
    let mut r = Rng::new(seed, 0xB2);
    let rnd = r.next();
    let mut cases = vec![];
    for p in ps {
        for (wname, bits) in WIDTHS {
            let mask = if bits == 32 { 0xFFFF_FFFFu64 } else { (1 << bits) - 1 };
            let mut words = vec![0u64, mask, 0x5555_5555 & mask, 0xAAAA_AAAA & mask, 1, 1 << (bits - 1), rnd & mask];
            if !is_dense(run) {
                words.truncate(4);
            }
            for word in words {
                cases.push(DbgCase {
                    backend: B::NAME.into(),
                    p: *p,
                    width: wname.into(),
                    word,
                });
            }
        }
    }
    run.family(
        &format!("debug_prepare/{}", B::NAME),
        "outer = (parameter set, width, pattern word); FheUintPreparedDebug::prepare (get_bit_lwe + circuit bootstrapping to constant, standard-form GGSW per bit) then FheUintPreparedDebug::noise at EVERY (row, col): for every bit the largest distance to bit * g_row * (1 | s_col) must stay below max(half a gadget unit, CMux safety bound)",
        cases,
        |c, rec| exec_dbg::<B>(pool.get(&c.p), c, seed, rec),
    );
}

// ---------------------------------------------------------------------------------------------
// replay
// ---------------------------------------------------------------------------------------------

pub fn replay<B: Bk>(run: &mut Run, fam: &str, ctx: &Ctx<B>, d: &Value, seed: u64)
where
    Module<B>: HalAll<B> + CoreAll<B> + UintAll<B>,
    Scratch<B>: ScratchTakeCore<B>,
    ScratchOwned<B>: ScratchOwnedAlloc<B> + ScratchOwnedBorrow<B>,
{
    let case = d["case"].clone();
    let inner = d.get("inner").cloned().unwrap_or(json!({}));
    if fam.starts_with("bits/") {
        let c: BitsCase = serde_json::from_value(case).unwrap();
        run.single(fam, "replay", |rec| exec_bits::<B>(ctx, &c, &inner, seed, rec));
    } else if fam.starts_with("splice/") {
        let c: SpliceCase = serde_json::from_value(case).unwrap();
        run.single(fam, "replay", |rec| exec_splice::<B>(ctx, &c, &inner, seed, rec));
    } else if fam.starts_with("swap/") {
        let c: SwapCase = serde_json::from_value(case).unwrap();
        run.single(fam, "replay", |rec| exec_swap::<B>(ctx, &c, seed, rec));
    } else if fam.starts_with("select/") {
        let c: SelCase = serde_json::from_value(case).unwrap();
        let idx = inner.get("idx").and_then(|x| x.as_u64()).map(|x| x as usize);
        run.single(fam, "replay", |rec| exec_select::<B>(ctx, &c, idx, seed, rec));
    } else if fam.starts_with("retriever_history/") {
        let c: HistCase = serde_json::from_value(case).unwrap();
        let only: Option<Vec<RCall>> = inner.get("history").and_then(|h| serde_json::from_value(h.clone()).ok());
        run.single(fam, "replay", |rec| exec_hist::<B>(ctx, &c, only, seed, rec));
    } else if fam.starts_with("blind_rotation/") {
        let c: RotCase = serde_json::from_value(case).unwrap();
        let only = match (inner.get("sign"), inner.get("bit_rsh"), inner.get("bit_mask"), inner.get("bit_lsh")) {
            (Some(s), Some(r), Some(m), Some(l)) => {
                Some((s.as_bool().unwrap(), r.as_u64().unwrap() as usize, m.as_u64().unwrap() as usize, l.as_u64().unwrap() as usize))
            }
            _ => None,
        };
        run.single(fam, "replay", |rec| exec_rot::<B>(ctx, &c, only, true, seed, rec));
    } else if fam.starts_with("cbt/") {
        let c: CbtCase = serde_json::from_value(case).unwrap();
        run.single(fam, "replay", |rec| exec_cbt::<B>(ctx, &c, seed, rec));
    } else if fam.starts_with("prepare_custom/") {
        let c: PcCase = serde_json::from_value(case).unwrap();
        run.single(fam, "replay", |rec| exec_pc::<B>(ctx, &c, seed, rec));
    } else if fam.starts_with("debug_prepare/") {
        let c: DbgCase = serde_json::from_value(case).unwrap();
        run.single(fam, "replay", |rec| exec_dbg::<B>(ctx, &c, seed, rec));
    } else {
        panic!("C15 replay: unknown family {fam}");
    }
}

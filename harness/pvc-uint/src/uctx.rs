//! Shared plumbing of the encrypted-integer checks (C15): umbrella bound over the poulpy-bin-fhe API, the
//! parameter set (the library test suite's, with a variable GLWE degree), one key set per backend with clear
//! copies of the secrets, and an exact phase computation in i128 written from the definition
//! (phase = body + sum_i mask_i * s_i in Z[X]/(X^N+1), read modulo 1).

use poulpy_bin_fhe::bdd_arithmetic::{
    BDDEncryptionInfos, BDDKey, BDDKeyEncryptSk, BDDKeyLayout, BDDKeyPrepared, BDDKeyPreparedFactory, Cmux, Cswap,
    ExecuteBDDCircuit1WTo1W, ExecuteBDDCircuit2WTo1W, FheUintPrepare, FheUintPrepareDebug, FheUintPreparedEncryptSk,
    FheUintPreparedFactory, FromBits, GGSWBlindRotation, GLWEBlindRetrieval, GLWEBlindRotation, GLWEBlindSelection, ToBits,
    UnsignedInteger,
};
use poulpy_bin_fhe::blind_rotation::{BlindRotationKeyLayout, BlindRotationKeyPreparedFactory, CGGI};
use poulpy_bin_fhe::circuit_bootstrapping::{
    CircuitBootstrappingExecute, CircuitBootstrappingKeyEncryptSk, CircuitBootstrappingKeyLayout,
    CircuitBootstrappingKeyPreparedFactory,
};
use poulpy_core::ScratchTakeCore;
use poulpy_core::layouts::{
    Base2K, Degree, Dnum, Dsize, GGLWEToGGSWKeyLayout, GGSWLayout, GLWEAutomorphismKeyLayout, GLWELayout, GLWESecret,
    GLWESecretPrepared, GLWESecretPreparedFactory, GLWESwitchingKeyLayout, GLWEToLWEKeyLayout, LWESecret, Rank, TorusPrecision,
};
use poulpy_hal::api::{ScratchOwnedAlloc, ScratchOwnedBorrow};
use poulpy_hal::layouts::{Backend, DataRef, DeviceBuf, Module, Scratch, ScratchOwned, VecZnx, ZnxInfos, ZnxView};
use poulpy_hal::source::Source;
use pvc_common::phase::{Dist, clear_secret};
use pvc_common::{Bk, CoreAll, HalAll};
use serde::{Deserialize, Serialize};

macro_rules! umbrella {
    ($name:ident<$b:ident> : $($t:path),+ $(,)?) => {
        pub trait $name<$b: Backend>: $($t +)+ Sized {}
        impl<$b: Backend, T> $name<$b> for T where T: $($t +)+ Sized {}
    };
}

umbrella!(UintAll<B>:
    BDDKeyEncryptSk<CGGI, B>, BDDKeyPreparedFactory<CGGI, B>, BlindRotationKeyPreparedFactory<CGGI, B>,
    FheUintPreparedFactory<u8, B>, FheUintPreparedFactory<u16, B>, FheUintPreparedFactory<u32, B>,
    FheUintPreparedEncryptSk<u8, B>, FheUintPreparedEncryptSk<u16, B>, FheUintPreparedEncryptSk<u32, B>,
    FheUintPrepareDebug<CGGI, u8, B>, FheUintPrepareDebug<CGGI, u16, B>, FheUintPrepareDebug<CGGI, u32, B>,
    FheUintPrepare<CGGI, B>, ExecuteBDDCircuit2WTo1W<B>, ExecuteBDDCircuit1WTo1W<B>,
    GLWEBlindRotation<B>, GGSWBlindRotation<u32, B>, GLWEBlindSelection<u32, B>, GLWEBlindRetrieval<B>,
    Cswap<B>, Cmux<B>,
    CircuitBootstrappingKeyEncryptSk<CGGI, B>, CircuitBootstrappingKeyPreparedFactory<CGGI, B>,
    CircuitBootstrappingExecute<CGGI, B>,
);

/// The plaintext word types the generic part of the API is exercised with.
pub trait Word: UnsignedInteger + ToBits + FromBits + Copy + Send + Sync + std::fmt::Debug + PartialEq + 'static {
    const NAME: &'static str;
    fn from_u64(x: u64) -> Self;
    fn to_u64(self) -> u64;
    fn bits() -> usize {
        Self::BITS as usize
    }
    fn mask() -> u64 {
        if Self::BITS == 64 { u64::MAX } else { (1u64 << Self::BITS) - 1 }
    }
}
macro_rules! impl_word {
    ($t:ty, $n:expr) => {
        impl Word for $t {
            const NAME: &'static str = $n;
            fn from_u64(x: u64) -> Self {
                x as $t
            }
            fn to_u64(self) -> u64 {
                self as u64
            }
        }
    };
}
impl_word!(u8, "u8");
impl_word!(u16, "u16");
impl_word!(u32, "u32");

/// Parameter set: the library test suite's (poulpy-bin-fhe/src/bdd_arithmetic/tests/test_suite/mod.rs) with the GLWE
/// ring degree as the only variable.
#[derive(Clone, Copy, Debug, Serialize, Deserialize, PartialEq, Eq)]
pub struct Params {
    pub n_glwe: u32,
    pub n_lwe: u32,
    pub block_size: u32,
    pub rank: u32,
    pub base2k: u32,
    pub k_glwe: u32,
    pub k_ggsw: u32,
    pub ggsw_dnum: u32,
    /// false (the suite): packed word -> rank-1 GLWE (ks_glwe) -> LWE (ks_lwe); true: no intermediate key, ks_lwe
    /// switches from the rank of the packed word directly (BDDKeyLayout.ks_glwe_layout = None)
    #[serde(default)]
    pub direct_ks: bool,
    /// decomposition digit size of the automorphism, GGLWE-to-GGSW and rank-reduction keys (1 = the suite; 2 = half the
    /// rows, each spanning two limbs). block_size 1 means a plain binary LWE secret (standard CGGI rotation path).
    #[serde(default = "one_u32")]
    pub key_dsize: u32,
}

fn one_u32() -> u32 {
    1
}

impl Params {
    pub fn suite(n_glwe: u32) -> Self {
        Params {
            n_glwe,
            n_lwe: 77,
            block_size: 7,
            rank: 2,
            base2k: 13,
            k_glwe: 26,
            k_ggsw: 39,
            ggsw_dnum: 2,
            direct_ks: false,
            key_dsize: 1,
        }
    }
    pub fn glwe_infos(&self) -> GLWELayout {
        GLWELayout {
            n: Degree(self.n_glwe),
            base2k: Base2K(self.base2k),
            k: TorusPrecision(self.k_glwe),
            rank: Rank(self.rank),
        }
    }
    pub fn ggsw_infos(&self) -> GGSWLayout {
        self.ggsw_infos_with(self.k_ggsw, self.ggsw_dnum)
    }
    pub fn ggsw_infos_with(&self, k: u32, dnum: u32) -> GGSWLayout {
        GGSWLayout {
            n: Degree(self.n_glwe),
            base2k: Base2K(self.base2k),
            k: TorusPrecision(k),
            rank: Rank(self.rank),
            dnum: Dnum(dnum),
            dsize: Dsize(1),
        }
    }
    pub fn bdd_key_layout(&self) -> BDDKeyLayout {
        let n = Degree(self.n_glwe);
        let rank = Rank(self.rank);
        let ds = self.key_dsize.max(1);
        BDDKeyLayout {
            cbt_layout: CircuitBootstrappingKeyLayout {
                brk_layout: BlindRotationKeyLayout {
                    n_glwe: n,
                    n_lwe: Degree(self.n_lwe),
                    base2k: Base2K(12),
                    k: TorusPrecision(52),
                    dnum: Dnum(4),
                    rank,
                },
                atk_layout: GLWEAutomorphismKeyLayout {
                    n,
                    base2k: Base2K(11),
                    k: TorusPrecision(52),
                    rank,
                    dnum: Dnum(4 / ds),
                    dsize: Dsize(ds),
                },
                tsk_layout: GGLWEToGGSWKeyLayout {
                    n,
                    base2k: Base2K(10),
                    k: TorusPrecision(52),
                    rank,
                    dnum: Dnum(4 / ds),
                    dsize: Dsize(ds),
                },
            },
            ks_glwe_layout: if self.direct_ks {
                None
            } else {
                Some(GLWESwitchingKeyLayout {
                    n,
                    base2k: Base2K(4),
                    k: TorusPrecision(20),
                    rank_in: rank,
                    rank_out: Rank(1),
                    dnum: Dnum(if ds == 1 { 3 } else { 2 }),
                    dsize: Dsize(ds),
                })
            },
            ks_lwe_layout: GLWEToLWEKeyLayout {
                n,
                base2k: Base2K(4),
                k: TorusPrecision(16),
                rank_in: if self.direct_ks { rank } else { Rank(1) },
                dnum: Dnum(3),
            },
        }
    }
}

pub const SEED_SK_GLWE: [u8; 32] = [0x51; 32];
pub const SEED_SK_LWE: [u8; 32] = [0x52; 32];

/// One key set: module, secrets (library objects + clear copies), prepared evaluation key.
pub struct Ctx<B: Bk> {
    pub p: Params,
    pub module: Module<B>,
    pub sk_clear: Vec<Vec<i64>>,
    pub sk_lwe_clear: Vec<i64>,
    pub sk_glwe: GLWESecret<Vec<u8>>,
    pub sk_prep: GLWESecretPrepared<DeviceBuf<B>, B>,
    pub sk_lwe: LWESecret<Vec<u8>>,
    pub key: BDDKeyPrepared<DeviceBuf<B>, CGGI, B>,
    pub keygen_s: f64,
}

pub fn scratch_bytes(n_glwe: u32) -> usize {
    // the suite allocates 1<<22 at N=256; keep the same density
    ((1usize << 22) * (n_glwe as usize).max(64)) / 256
}

impl<B: Bk> Ctx<B>
where
    Module<B>: HalAll<B> + CoreAll<B> + UintAll<B>,
    Scratch<B>: ScratchTakeCore<B>,
    ScratchOwned<B>: ScratchOwnedAlloc<B> + ScratchOwnedBorrow<B>,
{
    pub fn new(p: Params) -> Self {
        let t0 = std::time::Instant::now();
        let module = B::module(p.n_glwe as usize);
        let mut source_xa = Source::new([0x53; 32]);
        let mut source_xe = Source::new([0x54; 32]);
        let mut scratch = B::scratch(1 << 23);

        let mut sk_glwe = GLWESecret::alloc(Degree(p.n_glwe), Rank(p.rank));
        sk_glwe.fill_ternary_prob(0.5, &mut Source::new(SEED_SK_GLWE));
        let sk_clear = clear_secret(p.n_glwe as usize, p.rank as usize, Dist::TernaryProb, SEED_SK_GLWE);
        let mut sk_prep = module.glwe_secret_prepared_alloc(Rank(p.rank));
        module.glwe_secret_prepare(&mut sk_prep, &sk_glwe);

        let mut sk_lwe = LWESecret::alloc(Degree(p.n_lwe));
        if p.block_size > 1 {
            sk_lwe.fill_binary_block(p.block_size as usize, &mut Source::new(SEED_SK_LWE));
        } else {
            sk_lwe.fill_binary_prob(0.5, &mut Source::new(SEED_SK_LWE));
        }
        let sk_lwe_clear = sk_lwe.raw().to_vec();

        let layout = p.bdd_key_layout();
        let mut bdd_key: BDDKey<Vec<u8>, CGGI> = BDDKey::alloc_from_infos(&layout);
        let enc = BDDEncryptionInfos::from_default_sigma(&layout).expect("bdd encryption infos");
        bdd_key.encrypt_sk(&module, &sk_lwe, &sk_glwe, &enc, &mut source_xe, &mut source_xa, B::borrow(&mut scratch));
        let mut key: BDDKeyPrepared<DeviceBuf<B>, CGGI, B> = BDDKeyPrepared::alloc_from_infos(&module, &layout);
        key.prepare(&module, &bdd_key, B::borrow(&mut scratch));
        Ctx {
            p,
            module,
            sk_clear,
            sk_lwe_clear,
            sk_glwe,
            sk_prep,
            sk_lwe,
            key,
            keygen_s: t0.elapsed().as_secs_f64(),
        }
    }
}

// ---------------------------------------------------------------------------------------------
// exact phases
// ---------------------------------------------------------------------------------------------

/// value of every coefficient of column `col`, scaled by 2^(size*b) (not reduced)
fn column_i128<D: DataRef>(v: &VecZnx<D>, col: usize, b: usize) -> Vec<i128> {
    let n = v.n();
    let size = v.size();
    let mut out = vec![0i128; n];
    for j in 0..size {
        let sh = (size - 1 - j) * b;
        for (o, x) in out.iter_mut().zip(v.at(col, j).iter()) {
            *o += (*x as i128) << sh;
        }
    }
    out
}

/// centered representative of x modulo 2^bits
pub fn center(x: i128, bits: usize) -> i128 {
    let m = 1i128 << bits;
    let r = x.rem_euclid(m);
    if r >= m / 2 { r - m } else { r }
}

/// GLWE phase body + sum_i mask_i * s_i, every coefficient as the centered representative modulo 1, scaled by
/// 2^(size*b). Returns (phase, size*b).
pub fn glwe_phase<D: DataRef>(data: &VecZnx<D>, b: usize, sk: &[Vec<i64>]) -> (Vec<i128>, usize) {
    let n = data.n();
    assert_eq!(data.cols(), sk.len() + 1, "glwe_phase: rank mismatch");
    let bits = data.size() * b;
    assert!(bits <= 100, "glwe_phase: {bits} bits do not fit the i128 accumulator");
    let mut acc = column_i128(data, 0, b);
    for (c, s) in sk.iter().enumerate() {
        let m = column_i128(data, c + 1, b);
        for (j, &sj) in s.iter().enumerate() {
            if sj == 0 {
                continue;
            }
            for (i, mi) in m.iter().enumerate() {
                let k = i + j;
                let t = *mi * sj as i128;
                if k < n { acc[k] += t } else { acc[k - n] -= t }
            }
        }
    }
    (acc.into_iter().map(|x| center(x, bits)).collect(), bits)
}

/// LWE phase body + <a, s> (data = [body, a_0 ..]); mask entries beyond the secret's length meet a zero key coefficient.
pub fn lwe_phase<D: DataRef>(data: &VecZnx<D>, b: usize, sk: &[i64]) -> (i128, usize) {
    let v = column_i128(data, 0, b);
    let bits = data.size() * b;
    let mut acc = v[0];
    for (i, &s) in sk.iter().enumerate() {
        if i + 1 < v.len() {
            acc += v[i + 1] * s as i128;
        }
    }
    (center(acc, bits), bits)
}

/// nearest multiple of 2^-log_scale and the remaining error relative to the decision threshold 2^-(log_scale+1)
/// (|rel| < 1.0 means the rounding decision is the stated one)
pub fn round_at(x: i128, bits: usize, log_scale: usize) -> (i64, f64) {
    let unit = 1i128 << (bits - log_scale);
    let q = (x + unit / 2).div_euclid(unit);
    let err = x - q * unit;
    (q as i64, err as f64 / (unit as f64 / 2.0))
}

/// documented position of bit i of a word of 2^log_bits bits in a degree-2^log_n polynomial:
/// (((i & 7) << LOG_BYTES) | (i >> 3)) << (log_n - LOG_BITS)
pub fn bit_pos(i: usize, log_bits: usize, log_n: usize) -> usize {
    let log_bytes = log_bits - 3;
    (((i & 7) << log_bytes) | (i >> 3)) << (log_n - log_bits)
}

pub fn log2(x: usize) -> usize {
    assert!(x.is_power_of_two());
    x.trailing_zeros() as usize
}

/// Result of reading a packed word out of an exact phase vector.
pub struct WordRead {
    pub value: u64,
    /// worst |error| over all coefficients relative to the decision threshold (1/8)
    pub max_rel: f64,
    /// coefficients outside the documented positions that do not round to zero: (index, rounded value)
    pub stray: Vec<(usize, i64)>,
    /// documented positions that round to something else than 0/1: (bit, rounded value mod 4)
    pub non_binary: Vec<(usize, i64)>,
}

/// Decodes a packed word (bits at torus scale 2^-2) from the phase by the documented layout.
pub fn read_word(phase: &[i128], bits_total: usize, word_bits: usize) -> WordRead {
    let n = phase.len();
    let log_n = log2(n);
    let log_bits = log2(word_bits);
    let mut pos_of = vec![usize::MAX; n];
    for i in 0..word_bits {
        pos_of[bit_pos(i, log_bits, log_n)] = i;
    }
    let mut r = WordRead {
        value: 0,
        max_rel: 0.0,
        stray: vec![],
        non_binary: vec![],
    };
    for (c, &x) in phase.iter().enumerate() {
        let (q, rel) = round_at(x, bits_total, 2);
        let q = q.rem_euclid(4);
        r.max_rel = r.max_rel.max(rel.abs());
        if pos_of[c] == usize::MAX {
            if q != 0 {
                r.stray.push((c, q));
            }
        } else {
            match q {
                0 => {}
                1 => r.value |= 1u64 << pos_of[c],
                o => r.non_binary.push((pos_of[c], o)),
            }
        }
    }
    r
}

/// running maximum of a non-negative f64 kept in an atomic (for noise-margin notes)
pub struct MaxF64(std::sync::atomic::AtomicU64);
impl MaxF64 {
    pub const fn new() -> Self {
        MaxF64(std::sync::atomic::AtomicU64::new(0))
    }
    pub fn update(&self, x: f64) {
        let bits = x.max(0.0).to_bits();
        self.0.fetch_max(bits, std::sync::atomic::Ordering::Relaxed);
    }
    pub fn get(&self) -> f64 {
        f64::from_bits(self.0.load(std::sync::atomic::Ordering::Relaxed))
    }
}
impl Default for MaxF64 {
    fn default() -> Self {
        Self::new()
    }
}

//! C12 (poulpy-bin-fhe part) - a scratch of exactly the bytes returned by the operation's companion `*_tmp_bytes` query
//! suffices, nothing is written outside it, and the result does not depend on what the scratch held before.
//!
//! Every case runs ONE operation of poulpy-bin-fhe three times on identical inputs, each time on a window of exactly the
//! queried size cut with `scratch_from_bytes` out of a larger allocation (64-byte aligned start, canary bytes on both
//! sides), pre-filled with zeros, the NaN/huge pattern and the large-value pattern. Everything around the operation
//! (keys, inputs) is built with generous scratch and fixed seeds.
//!   scratch_too_small         a panic whose message mentions the scratch / "Attempted to take" / "tmp_bytes"
//!   scratch_overrun           canary bytes changed
//!   scratch_dependent_result  observable result bytes differ between two fills
//! Other panics are not this property's business: counted (`other_property_panics`), never reported.
//!
//! Families: binfhe_exact_scratch (operations with a companion query of their own) and binfhe_assumed_query
//! (operations without one: the query the library's own callers budget for them, or the sum of the temporaries the body
//! takes plus the largest companion query of its callees - stated per operation in `QUERY_NOTES`).

use crate::c15::{ALL_WOPS, Pool, Prep, WOp, alloc_glwe, alloc_word, arena, encrypt_word, glwe_bytes_mut};
use crate::uctx::*;
use poulpy_bin_fhe::bdd_arithmetic::{
    Add, And, BDDEncryptionInfos, BDDKey, BDDKeyEncryptSk, BDDKeyHelper, BDDKeyPrepared, BDDKeyPreparedFactory, BitSize, Cmux,
    ExecuteBDDCircuit, ExecuteBDDCircuit2WTo1W, FheUint, FheUintPrepare, FheUintPrepared, FheUintPreparedDebug,
    FheUintPreparedEncryptSk, FheUintPreparedFactory, GGSWBlindRotation, GLWEBlindRetrieval, GLWEBlindRetriever,
    GLWEBlindRotation, GLWEBlindSelection, GetBitCircuitInfo, GetGGSWBit, Node, Or, ScratchTakeBDD, Sll, Slt, Sltu,
    Sra, Srl, Sub, Xor, verif_circuits,
};
use poulpy_bin_fhe::blind_rotation::{
    BlindRotationExecute, BlindRotationKey, BlindRotationKeyCompressed, BlindRotationKeyCompressedEncryptSk,
    BlindRotationKeyEncryptSk, BlindRotationKeyPrepared, BlindRotationKeyPreparedFactory, CGGI, LookUpTableLayout, LookupTable,
    LookupTableFactory,
};
use poulpy_bin_fhe::circuit_bootstrapping::{
    CircuitBootstrappingEncryptionInfos, CircuitBootstrappingExecute, CircuitBootstrappingKey, CircuitBootstrappingKeyEncryptSk,
    CircuitBootstrappingKeyInfos, CircuitBootstrappingKeyPrepared, CircuitBootstrappingKeyPreparedFactory,
};
use poulpy_core::layouts::{
    Base2K, Degree, Dnum, Dsize, GGSW, GGSWInfos, GGSWLayout, GGSWPrepared, GGSWPreparedFactory, GLWE, GLWEInfos, GLWELayout,
    GLWEPlaintext, GLWEToRef, LWE, LWEInfos, LWELayout, LWEPlaintext, Rank, TorusPrecision,
};
use poulpy_core::{
    DEFAULT_BOUND_XE, DEFAULT_SIGMA_XE, EncryptionLayout, GGSWEncryptSk, GLWEEncryptSk, GLWEKeyswitch, GLWENoise,
    GLWEPacking, GLWERotate, GLWETrace, LWEEncryptSk, LWEFromGLWE, ScratchTakeCore,
};
use poulpy_hal::alloc_aligned;
use poulpy_hal::api::{ScratchOwnedAlloc, ScratchOwnedBorrow};
use poulpy_hal::layouts::{Backend, DataView, Module, NoiseInfos, ScalarZnx, Scratch, ScratchOwned, WriterTo, ZnxView, ZnxViewMut};
use poulpy_hal::source::Source;
use pvc_common::{Bk, CoreAll, HalAll, for_backends};
use pvc_engine::rng::garbage;
use pvc_engine::{Rec, Run, fnv, guarded};
use serde::{Deserialize, Serialize};
use serde_json::{Value, json};
use std::collections::HashMap;

macro_rules! umbrella {
    ($name:ident<$b:ident> : $($t:path),+ $(,)?) => {
        pub trait $name<$b: Backend>: $($t +)+ Sized {}
        impl<$b: Backend, T> $name<$b> for T where T: $($t +)+ Sized {}
    };
}

umbrella!(Uint12All<B>:
    BlindRotationKeyEncryptSk<CGGI, B>, BlindRotationKeyCompressedEncryptSk<B, CGGI>, BlindRotationExecute<CGGI, B>,
    LookupTableFactory, ExecuteBDDCircuit<B>,
);

/// pre-fills in pvc_engine::rng::garbage numbering: zeros, NaN/huge, large values
const FILLS: [usize; 3] = [2, 0, 1];
const CANARY: u8 = 0xC5;
const PAD: usize = 128;

fn fill_name(f: usize) -> &'static str {
    match f {
        2 => "zeros",
        0 => "nan_huge",
        _ => "large_values",
    }
}

/// How the scratch size of each operation without a companion query of its own was obtained.
pub const QUERY_NOTES: &[(&str, &str)] = &[
    ("uint_pack", "glwe_pack_tmp_bytes(res, automorphism key infos): what execute_bdd_circuit_2w_to_1w_tmp_bytes budgets for its call of FheUint::pack"),
    ("debug_prepare", "fhe_uint_prepare_tmp_bytes(block_size, 1, debug receiver, packed word, key): what the library's test_bdd_prepare allocates for FheUintPreparedDebug::prepare"),
    ("wordop_identity", "execute_bdd_circuit_2w_to_1w_tmp_bytes on the identity circuit: the 1w->1w executor has the same structure (BITS result slots + max(circuit evaluation, packing)) and no query"),
    ("execute_bdd_circuit_1w_to_1w", "as wordop_identity"),
    ("uint_get_bit_glwe / uint_get_byte", "glwe_trace_tmp_bytes(res, res, automorphism key infos): the body is a scratch-free rotation and glwe_trace_assign(res)"),
    ("uint_get_bit_lwe", "with a rank-reduction key: bytes of the intermediate GLWE the body takes + max(glwe_keyswitch_tmp_bytes, lwe_from_glwe_tmp_bytes); without: lwe_from_glwe_tmp_bytes"),
    ("uint_zero_byte", "max(glwe_rotate_tmp_bytes, bytes of the temporary GLWE + glwe_trace_tmp_bytes)"),
    ("uint_splice_u8", "max(zero_byte budget, bytes of the temporary word + max(glwe_trace_tmp_bytes, glwe_rotate_tmp_bytes))"),
    ("uint_splice_u16", "bytes of the temporary word + splice_u8 budget"),
    ("uint_sext", "bytes of the sign ciphertext + max(glwe_trace_tmp_bytes, bytes of the rotation temporary, bytes of the splice temporary + splice_u8 budget)"),
    ("uint_from_prepared", "BITS result slots + max(cmux_tmp_bytes, glwe_pack_tmp_bytes)"),
    ("prepared_decrypt", "bytes of the temporary word + max(from_fhe_uint_prepared budget, FheUint::decrypt_tmp_bytes)"),
    ("prepared_encrypt_sk", "bytes of the temporary GGSW + bytes of the one-column scalar + max(ggsw_encrypt_sk_tmp_bytes, ggsw_prepare_tmp_bytes)"),
    ("uint_noise", "bytes of the plaintext the body takes + glwe_noise_tmp_bytes"),
];

fn is_assumed(op: &str) -> bool {
    matches!(
        op,
        "uint_pack"
            | "debug_prepare"
            | "wordop_identity"
            | "execute_bdd_circuit_1w_to_1w"
            | "uint_get_bit_glwe"
            | "uint_get_byte"
            | "uint_get_bit_lwe"
            | "uint_zero_byte"
            | "uint_splice_u8"
            | "uint_splice_u16"
            | "uint_sext"
            | "uint_from_prepared"
            | "prepared_decrypt"
            | "prepared_encrypt_sk"
            | "uint_noise"
    )
}

fn a64(x: usize) -> usize {
    x.next_multiple_of(64)
}

// ---------------------------------------------------------------------------------------------
// panics of the library's own worker threads
// ---------------------------------------------------------------------------------------------
// `thread::scope` reports a worker's panic to the caller as "a scoped thread panicked": the worker's message (which may
// be the scratch complaint) is lost. A chained panic hook records the messages of panics raised on threads that are not
// harness threads; a call that fails with the generic message picks up what was recorded during its execution.

thread_local! {
    static HARNESS_THREAD: std::cell::Cell<bool> = const { std::cell::Cell::new(false) };
}
static INNER_PANICS: std::sync::Mutex<Vec<(std::time::Instant, String)>> = std::sync::Mutex::new(Vec::new());

fn install_inner_hook() {
    static ONCE: std::sync::Once = std::sync::Once::new();
    ONCE.call_once(|| {
        let prev = std::panic::take_hook();
        std::panic::set_hook(Box::new(move |info| {
            if !HARNESS_THREAD.with(|h| h.get()) {
                let loc = info.location().map(|l| format!("{}:{}", l.file(), l.line())).unwrap_or_default();
                let msg = if let Some(s) = info.payload().downcast_ref::<&str>() {
                    s.to_string()
                } else if let Some(s) = info.payload().downcast_ref::<String>() {
                    s.clone()
                } else {
                    "non-string panic".into()
                };
                if let Ok(mut v) = INNER_PANICS.lock() {
                    if v.len() > 4096 {
                        v.drain(..2048);
                    }
                    v.push((std::time::Instant::now(), format!("{msg} @ {loc}")));
                }
            }
            prev(info)
        }));
    });
}

// ---------------------------------------------------------------------------------------------
// exact window
// ---------------------------------------------------------------------------------------------

pub struct Win {
    pub fill: usize,
    pub bytes: Option<usize>,
    pub canaries_ok: bool,
    /// extra bytes appended to the queried size (0 for the exact-scratch property; the cross-backend comparison of C10
    /// gives generous room so that it judges values only)
    pub slack: usize,
    /// C10 mode: prepared (DFT-domain) results are additionally observed through a coefficient-domain operation
    pub observe_prepared: bool,
}

impl Win {
    pub fn new(fill: usize) -> Self {
        Win {
            fill,
            bytes: None,
            canaries_ok: true,
            slack: 0,
            observe_prepared: false,
        }
    }
    pub fn generous() -> Self {
        Win {
            fill: 2,
            bytes: None,
            canaries_ok: true,
            slack: 1 << 20,
            observe_prepared: true,
        }
    }
    /// runs the operation under test on a window of exactly `bytes` bytes
    pub fn call<B: Bk, T>(&mut self, bytes: usize, f: impl FnOnce(&mut Scratch<B>) -> T) -> Result<T, String> {
        let bytes = bytes + self.slack;
        let mut buf = alloc_aligned::<u8>(PAD + bytes + PAD + 64);
        buf.fill(CANARY);
        garbage(&mut buf[PAD..PAD + bytes], self.fill);
        let t0 = std::time::Instant::now();
        let mut r = guarded(|| f(B::scratch_from_bytes(&mut buf[PAD..PAD + bytes])));
        if let Err(e) = &mut r {
            if e.contains("scoped thread panicked") {
                if let Ok(v) = INNER_PANICS.lock() {
                    let inner: Vec<&str> = v.iter().filter(|(t, _)| *t >= t0).map(|(_, m)| m.as_str()).take(3).collect();
                    if !inner.is_empty() {
                        e.push_str(&format!("; worker thread: {}", inner.join(" | ")));
                    }
                }
            }
        }
        let ok = buf[..PAD].iter().all(|x| *x == CANARY) && buf[PAD + bytes..].iter().all(|x| *x == CANARY);
        self.bytes = Some(self.bytes.unwrap_or(0).max(bytes));
        self.canaries_ok &= ok;
        r
    }
}

/// observable result: labelled byte strings
pub type Outs = Vec<(String, Vec<u8>)>;

fn i64_bytes(x: &[i64]) -> Vec<u8> {
    x.iter().flat_map(|v| v.to_le_bytes()).collect()
}
pub fn glwe_out<G: GLWEToRef>(g: &G) -> Vec<u8> {
    i64_bytes(g.to_ref().data().raw())
}
fn ggsw_out(g: &GGSW<Vec<u8>>) -> Vec<u8> {
    let mut v = vec![];
    for r in 0..g.dnum().as_usize() {
        for c in 0..=g.rank().as_usize() {
            v.extend(i64_bytes(g.at(r, c).data().raw()));
        }
    }
    v
}
pub fn prep_out<B: Bk, T: Word>(p: &Prep<B, T>) -> Vec<u8> {
    let mut v = vec![];
    for i in 0..T::bits() {
        v.extend_from_slice(p.get_bit(i).data().data());
    }
    v
}
/// every bit of a prepared word used as CMux selector on the noiseless constants 1/4 and 0 (coefficient-domain result)
pub fn prep_through_cmux<B: Bk, T: Word>(ctx: &Ctx<B>, p: &Prep<B, T>) -> Result<Vec<u8>, String>
where
    Module<B>: HalAll<B> + CoreAll<B> + UintAll<B>,
    Scratch<B>: ScratchTakeCore<B>,
    ScratchOwned<B>: ScratchOwnedAlloc<B> + ScratchOwnedBorrow<B>,
{
    let infos = ctx.p.glwe_infos();
    let zero: GLWE<Vec<u8>> = GLWE::alloc_from_infos(&infos);
    let mut one: GLWE<Vec<u8>> = GLWE::alloc_from_infos(&infos);
    one.data_mut().at_mut(0, 0)[0] = 1i64 << (ctx.p.base2k - 2);
    let mut s = arena::<B>(ctx, 2);
    let mut v = vec![];
    for i in 0..T::bits() {
        let mut res: GLWE<Vec<u8>> = GLWE::alloc_from_infos(&infos);
        guarded(|| ctx.module.cmux(&mut res, &one, &zero, &p.get_bit(i), B::borrow(&mut s)))?;
        v.extend(glwe_out(&res));
    }
    Ok(v)
}
pub fn ser<W: WriterTo>(w: &W) -> Vec<u8> {
    let mut v = vec![];
    w.write_to(&mut v).expect("serialisation");
    v
}
fn ggsw_garbage(g: &mut GGSW<Vec<u8>>) {
    for r in 0..g.dnum().as_usize() {
        for c in 0..=g.rank().as_usize() {
            let mut cell = g.at_mut(r, c);
            garbage(glwe_bytes_mut(&mut cell), 0);
        }
    }
}

// ---------------------------------------------------------------------------------------------
// cases
// ---------------------------------------------------------------------------------------------

#[derive(Clone, Debug, Serialize, Deserialize)]
pub struct C12Case {
    pub backend: String,
    pub p: Params,
    pub op: String,
    pub width: String,
    /// selector / prepared-word GGSW layout (k, dnum, dsize)
    pub sel: (u32, u32, u32),
    /// operation-specific small integers (documented at the operation)
    pub v: Vec<usize>,
}

fn sel_layout(p: &Params, sel: (u32, u32, u32)) -> GGSWLayout {
    GGSWLayout {
        n: Degree(p.n_glwe),
        base2k: Base2K(p.base2k),
        k: TorusPrecision(sel.0),
        rank: Rank(p.rank),
        dnum: Dnum(sel.1),
        dsize: Dsize(sel.2),
    }
}

/// a circuit of the library's table behind a sized type (the executors are generic over a sized circuit type)
pub struct DynCircuit(pub &'static dyn GetBitCircuitInfo);
impl GetBitCircuitInfo for DynCircuit {
    fn input_size(&self) -> usize {
        self.0.input_size()
    }
    fn output_size(&self) -> usize {
        self.0.output_size()
    }
    fn get_circuit(&self, bit: usize) -> (&[Node], usize) {
        self.0.get_circuit(bit)
    }
}
fn circuit(name: &str) -> DynCircuit {
    DynCircuit(verif_circuits::u32_circuits().into_iter().find(|(n, _)| *n == name).expect("circuit name").1)
}

/// two prepared words as one 64-bit input (a in bits 0..32, b in 32..64), for the raw circuit evaluator
struct Two<'a, B: Bk>(&'a Prep<B, u32>, &'a Prep<B, u32>);
impl<B: Bk> GetGGSWBit<B> for Two<'_, B>
where
    Prep<B, u32>: Sync,
{
    fn get_bit(&self, bit: usize) -> GGSWPrepared<&[u8], B> {
        if bit < 32 { self.0.get_bit(bit) } else { self.1.get_bit(bit - 32) }
    }
}
impl<B: Bk> BitSize for Two<'_, B> {
    fn bit_size(&self) -> usize {
        64
    }
}

fn sel_word<B: Bk, T: Word>(ctx: &Ctx<B>, w: u64, sel: (u32, u32, u32), seed: u64) -> Prep<B, T>
where
    Module<B>: HalAll<B> + CoreAll<B> + UintAll<B> + FheUintPreparedFactory<T, B> + FheUintPreparedEncryptSk<T, B>,
    Scratch<B>: ScratchTakeCore<B>,
    ScratchOwned<B>: ScratchOwnedAlloc<B> + ScratchOwnedBorrow<B>,
{
    let infos = sel_layout(&ctx.p, sel);
    let enc = EncryptionLayout::new_from_default_sigma(infos).expect("ggsw layout");
    let (mut xe, mut xa) = (Source::new([seed as u8 ^ 0x31; 32]), Source::new([seed as u8 ^ 0x32; 32]));
    let mut p: Prep<B, T> = FheUintPrepared::alloc_from_infos(&ctx.module, &infos);
    let mut s = arena::<B>(ctx, 0);
    p.encrypt_sk(&ctx.module, T::from_u64(w), &ctx.sk_prep, &enc, &mut xe, &mut xa, B::borrow(&mut s));
    p
}

fn datum(i: usize) -> u32 {
    0x9E37_79B9u32.wrapping_mul(i as u32 + 1) ^ 0x8000_0001
}

fn noise_of(k: u32) -> NoiseInfos {
    NoiseInfos::new(k as usize, DEFAULT_SIGMA_XE, DEFAULT_BOUND_XE).expect("noise infos")
}

/// the fixed LWE ciphertext of `value * 2^-(log_domain+1)` the bootstrapping cases use
fn lwe_of<B: Bk>(ctx: &Ctx<B>, value: u64, log_domain: usize) -> LWE<Vec<u8>>
where
    Module<B>: HalAll<B> + CoreAll<B> + UintAll<B>,
    Scratch<B>: ScratchTakeCore<B>,
    ScratchOwned<B>: ScratchOwnedAlloc<B> + ScratchOwnedBorrow<B>,
{
    let b = ctx.p.base2k;
    let infos = LWELayout {
        n: Degree(ctx.p.n_lwe),
        k: TorusPrecision(ctx.p.k_glwe),
        base2k: Base2K(b),
    };
    let enc = EncryptionLayout::new_from_default_sigma(infos).expect("lwe layout");
    let mut pt: LWEPlaintext<Vec<u8>> = LWEPlaintext::alloc(Base2K(b), TorusPrecision(ctx.p.k_glwe));
    pt.encode_i64(value as i64, TorusPrecision(log_domain as u32 + 1));
    let mut ct: LWE<Vec<u8>> = LWE::alloc_from_infos(&infos);
    let mut s = arena::<B>(ctx, 0);
    ctx.module.lwe_encrypt_sk(&mut ct, &pt, &ctx.sk_lwe, &enc, &mut Source::new([0x41; 32]), &mut Source::new([0x42; 32]), B::borrow(&mut s));
    ct
}

/// Runs the case's operation once on an exact window; Err(panic message) if the operation (or its set-up) panicked.
/// `win.bytes` tells whether the operation under test was reached.
#[allow(clippy::too_many_lines)]
pub fn run_op<B: Bk, T: Word>(ctx: &Ctx<B>, c: &C12Case, win: &mut Win) -> Result<Outs, String>
where
    Module<B>: HalAll<B>
        + CoreAll<B>
        + UintAll<B>
        + Uint12All<B>
        + FheUintPreparedFactory<T, B>
        + FheUintPreparedEncryptSk<T, B>
        + poulpy_bin_fhe::bdd_arithmetic::FheUintPrepareDebug<CGGI, T, B>,
    Scratch<B>: ScratchTakeCore<B> + ScratchTakeBDD<T, B>,
    ScratchOwned<B>: ScratchOwnedAlloc<B> + ScratchOwnedBorrow<B>,
    Prep<B, u32>: Sync,
{
    let m = &ctx.module;
    let p = &ctx.p;
    let key = &ctx.key;
    let glwe = p.glwe_infos();
    let ggsw = p.ggsw_infos();
    let layout = p.bdd_key_layout();
    let v = |i: usize| c.v.get(i).copied().unwrap_or(0);
    let word = 0xA5C3_96F0u64 & T::mask();
    let word2 = 0x5A3C_690Fu64 & T::mask();
    let mut big = arena::<B>(ctx, 0);
    let atk_infos = {
        use poulpy_core::layouts::GLWEAutomorphismKeyHelper;
        key.automorphism_key_infos()
    };
    let (cbt, ks_glwe, ks_lwe) = key.get_cbt_key();
    let mut outs: Outs = vec![];
    match c.op.as_str() {
        // ------------------------------------------------------------------ keys
        "brk_encrypt_sk" | "brk_compressed_encrypt_sk" | "brk_prepare" => {
            let brk_layout = layout.cbt_layout.brk_layout;
            let noise = noise_of(52);
            let (mut xe, mut xa) = (Source::new([0x11; 32]), Source::new([0x12; 32]));
            if c.op == "brk_compressed_encrypt_sk" {
                let mut k: BlindRotationKeyCompressed<Vec<u8>, CGGI> = BlindRotationKeyCompressed::alloc(&brk_layout);
                let by = <Module<B> as BlindRotationKeyCompressedEncryptSk<B, CGGI>>::blind_rotation_key_compressed_encrypt_sk_tmp_bytes(m, &brk_layout);
                win.call::<B, _>(by, |s| m.blind_rotation_key_compressed_encrypt_sk(&mut k, &ctx.sk_prep, &ctx.sk_lwe, [0x13; 32], &noise, &mut xe, s))?;
                outs.push(("key".into(), ser(&k)));
            } else {
                let mut k: BlindRotationKey<Vec<u8>, CGGI> = BlindRotationKey::alloc(&brk_layout);
                if c.op == "brk_encrypt_sk" {
                    let by = <Module<B> as BlindRotationKeyEncryptSk<CGGI, B>>::blind_rotation_key_encrypt_sk_tmp_bytes(m, &brk_layout);
                    win.call::<B, _>(by, |s| m.blind_rotation_key_encrypt_sk(&mut k, &ctx.sk_prep, &ctx.sk_lwe, &noise, &mut xe, &mut xa, s))?;
                    outs.push(("key".into(), ser(&k)));
                } else {
                    guarded(|| m.blind_rotation_key_encrypt_sk(&mut k, &ctx.sk_prep, &ctx.sk_lwe, &noise, &mut xe, &mut xa, B::borrow(&mut big)))?;
                    let mut kp: BlindRotationKeyPrepared<_, CGGI, B> = BlindRotationKeyPrepared::alloc(m, &brk_layout);
                    let by = <Module<B> as BlindRotationKeyPreparedFactory<CGGI, B>>::blind_rotation_key_prepare_tmp_bytes(m, &brk_layout);
                    win.call::<B, _>(by, |s| kp.prepare(m, &k, s))?;
                    // a prepared key is observed through a blind rotation (generous scratch)
                    let res_layout = GLWELayout {
                        n: Degree(p.n_glwe),
                        base2k: Base2K(12),
                        k: TorusPrecision(52),
                        rank: Rank(p.rank),
                    };
                    let mut lut = LookupTable::alloc(&LookUpTableLayout {
                        n: Degree(p.n_glwe),
                        extension_factor: 1,
                        k: TorusPrecision(26),
                        base2k: Base2K(12),
                    });
                    guarded(|| lut.set(m, &[0, 1 << 13, 5, 7], 26))?;
                    let lwe = guarded(|| lwe_of(ctx, 1, 1))?;
                    let mut res: GLWE<Vec<u8>> = GLWE::alloc_from_infos(&res_layout);
                    let mut s2 = crate::c15::garbage_scratch::<B>(1 << 23, 0);
                    guarded(|| kp.execute(m, &mut res, &lwe, &lut, B::borrow(&mut s2)))?;
                    outs.push(("rotation_with_prepared_key".into(), glwe_out(&res)));
                }
            }
        }
        "cbt_key_encrypt_sk" | "cbt_key_prepare" => {
            let l = layout.cbt_layout;
            let enc = CircuitBootstrappingEncryptionInfos::from_default_sigma(&l).expect("cbt enc infos");
            let (mut xe, mut xa) = (Source::new([0x14; 32]), Source::new([0x15; 32]));
            let mut k: CircuitBootstrappingKey<Vec<u8>, CGGI> = CircuitBootstrappingKey::alloc_from_infos(&l);
            if c.op == "cbt_key_encrypt_sk" {
                let by = <Module<B> as CircuitBootstrappingKeyEncryptSk<CGGI, B>>::circuit_bootstrapping_key_encrypt_sk_tmp_bytes(m, &l);
                win.call::<B, _>(by, |s| m.circuit_bootstrapping_key_encrypt_sk(&mut k, &ctx.sk_lwe, &ctx.sk_glwe, &enc, &mut xe, &mut xa, s))?;
                outs.push(("key".into(), ser(&k)));
            } else {
                let mut s2 = crate::c15::garbage_scratch::<B>(1 << 23, 0);
                guarded(|| m.circuit_bootstrapping_key_encrypt_sk(&mut k, &ctx.sk_lwe, &ctx.sk_glwe, &enc, &mut xe, &mut xa, B::borrow(&mut s2)))?;
                let mut kp: CircuitBootstrappingKeyPrepared<_, CGGI, B> = CircuitBootstrappingKeyPrepared::alloc_from_infos(m, &l);
                let by = <Module<B> as CircuitBootstrappingKeyPreparedFactory<CGGI, B>>::circuit_bootstrapping_key_prepare_tmp_bytes(m, &l);
                win.call::<B, _>(by, |s| kp.prepare(m, &k, s))?;
                let lwe = guarded(|| lwe_of(ctx, 1, 1))?;
                let mut res: GGSW<Vec<u8>> = GGSW::alloc_from_infos(&ggsw);
                guarded(|| kp.execute_to_constant(m, &mut res, &lwe, 1, 1, B::borrow(&mut s2)))?;
                outs.push(("bootstrap_with_prepared_key".into(), ggsw_out(&res)));
            }
        }
        "bdd_key_encrypt_sk" | "bdd_key_prepare" => {
            let enc = BDDEncryptionInfos::from_default_sigma(&layout).expect("bdd enc infos");
            let (mut xe, mut xa) = (Source::new([0x16; 32]), Source::new([0x17; 32]));
            let mut k: BDDKey<Vec<u8>, CGGI> = BDDKey::alloc_from_infos(&layout);
            if c.op == "bdd_key_encrypt_sk" {
                let by = <Module<B> as BDDKeyEncryptSk<CGGI, B>>::bdd_key_encrypt_sk_tmp_bytes(m, &layout);
                win.call::<B, _>(by, |s| k.encrypt_sk(m, &ctx.sk_lwe, &ctx.sk_glwe, &enc, &mut xe, &mut xa, s))?;
                outs.push(("key".into(), ser(&k)));
            } else {
                let mut s2 = crate::c15::garbage_scratch::<B>(1 << 23, 0);
                guarded(|| k.encrypt_sk(m, &ctx.sk_lwe, &ctx.sk_glwe, &enc, &mut xe, &mut xa, B::borrow(&mut s2)))?;
                let mut kp: BDDKeyPrepared<_, CGGI, B> = BDDKeyPrepared::alloc_from_infos(m, &layout);
                let by = <Module<B> as BDDKeyPreparedFactory<CGGI, B>>::prepare_bdd_key_tmp_bytes(m, &layout);
                win.call::<B, _>(by, |s| kp.prepare(m, &k, s))?;
                // observed through its three members (generous scratch): bit extraction uses the two switching keys,
                // the bootstrapping of the extracted bit uses the circuit-bootstrapping key
                let (cbt2, kg2, kl2) = kp.get_cbt_key();
                let ct = guarded(|| encrypt_word::<B, u8>(ctx, 0xA5, 3))?;
                let mut lwe: LWE<Vec<u8>> = LWE::alloc(Degree(p.n_lwe), Base2K(p.base2k), TorusPrecision(p.k_glwe));
                guarded(|| ct.get_bit_lwe(m, 2, &mut lwe, kg2, kl2, B::borrow(&mut s2)))?;
                outs.push(("bit_extracted_with_prepared_key".into(), i64_bytes(lwe.data().raw())));
                let mut res: GGSW<Vec<u8>> = GGSW::alloc_from_infos(&ggsw);
                guarded(|| cbt2.execute_to_constant(m, &mut res, &lwe, 1, 1, B::borrow(&mut s2)))?;
                outs.push(("bootstrap_with_prepared_key".into(), ggsw_out(&res)));
            }
        }
        // ------------------------------------------------------------------ circuit bootstrapping
        // v = [log_domain, extension_factor, value, result k, result dnum, log_gap_out]
        "cbt_execute_constant" | "cbt_execute_exponent" => {
            let (ld, ext, value) = (v(0), v(1), v(2) as u64);
            let res_infos = p.ggsw_infos_with(v(3) as u32, v(4) as u32);
            let lwe = guarded(|| lwe_of(ctx, value, ld))?;
            let mut res: GGSW<Vec<u8>> = GGSW::alloc_from_infos(&res_infos);
            ggsw_garbage(&mut res);
            if c.op == "cbt_execute_constant" {
                let by = m.circuit_bootstrapping_execute_tmp_bytes(cbt.block_size(), ext, &res_infos, cbt);
                win.call::<B, _>(by, |s| cbt.execute_to_constant(m, &mut res, &lwe, ld, ext, s))?;
            } else {
                // exponent mode has its own query (the re-packing holds 2^log_domain + 1 copies)
                let by = m.circuit_bootstrapping_execute_to_exponent_tmp_bytes(cbt.block_size(), ext, ld, &res_infos, cbt);
                win.call::<B, _>(by, |s| cbt.execute_to_exponent(m, v(5), &mut res, &lwe, ld, ext, s))?;
            }
            outs.push(("ggsw".into(), ggsw_out(&res)));
        }
        // ------------------------------------------------------------------ packed words
        "uint_encrypt_sk" => {
            let enc = EncryptionLayout::new_from_default_sigma(glwe).expect("glwe layout");
            let mut ct = alloc_word::<B, T>(ctx, 0);
            let by = ct.encrypt_sk_tmp_bytes(m);
            win.call::<B, _>(by, |s| ct.encrypt_sk(m, T::from_u64(word), &ctx.sk_prep, &enc, &mut Source::new([0x21; 32]), &mut Source::new([0x22; 32]), s))?;
            outs.push(("ct".into(), glwe_out(&ct)));
        }
        "uint_decrypt" => {
            let ct = guarded(|| encrypt_word::<B, T>(ctx, T::from_u64(word), 5))?;
            let by = ct.decrypt_tmp_bytes(m);
            let got = win.call::<B, _>(by, |s| ct.decrypt(m, &ctx.sk_prep, s))?;
            outs.push(("value".into(), got.to_u64().to_le_bytes().to_vec()));
        }
        "uint_noise" => {
            let ct = guarded(|| encrypt_word::<B, T>(ctx, T::from_u64(word), 5))?;
            let by = a64(GLWEPlaintext::<Vec<u8>>::bytes_of_from_infos(&glwe)) + m.glwe_noise_tmp_bytes(&glwe);
            let st = win.call::<B, _>(by, |s| ct.noise(m, word as u32, &ctx.sk_prep, s))?;
            outs.push(("stats".into(), [st.max().to_le_bytes(), st.std().to_le_bytes()].concat()));
        }
        "uint_pack" => {
            // one trivial ciphertext per bit (noiseless 1/4 or 0 at coefficient 0)
            let mut bits: Vec<GLWE<Vec<u8>>> = (0..T::bits())
                .map(|i| {
                    let mut g: GLWE<Vec<u8>> = GLWE::alloc_from_infos(&glwe);
                    g.data_mut().at_mut(0, 0)[0] = (((word >> i) & 1) as i64) << (p.base2k - 2);
                    g.data_mut().at_mut(1, 1)[3] = i as i64 + 1;
                    g
                })
                .collect();
            let mut res = alloc_word::<B, T>(ctx, 0);
            let by = m.glwe_pack_tmp_bytes(&glwe, &atk_infos);
            let taken = std::mem::take(&mut bits);
            win.call::<B, _>(by, |s| res.pack(m, taken, key, s))?;
            outs.push(("ct".into(), glwe_out(&res)));
        }
        "uint_get_bit_glwe" | "uint_get_byte" => {
            let ct = guarded(|| encrypt_word::<B, T>(ctx, T::from_u64(word), 5))?;
            let mut res = alloc_word::<B, T>(ctx, 0);
            let by = m.glwe_trace_tmp_bytes(&glwe, &glwe, &atk_infos);
            if c.op == "uint_get_bit_glwe" {
                win.call::<B, _>(by, |s| ct.get_bit_glwe(m, v(0) % T::bits(), &mut res, key, s))?;
            } else {
                win.call::<B, _>(by, |s| ct.get_byte(m, v(0) % (T::bits() / 8), &mut res, key, s))?;
            }
            outs.push(("ct".into(), glwe_out(&res)));
        }
        // v = [bit, LWE dimension: 0 = N_glwe, 1 = n_lwe]
        "uint_get_bit_lwe" => {
            let ct = guarded(|| encrypt_word::<B, T>(ctx, T::from_u64(word), 5))?;
            let n_out = if v(1) == 0 { p.n_glwe } else { p.n_lwe };
            let mut lwe: LWE<Vec<u8>> = LWE::alloc(Degree(n_out), Base2K(p.base2k), TorusPrecision(p.k_glwe));
            let by = match ks_glwe {
                Some(kg) => {
                    let tmp = GLWELayout {
                        n: Degree(p.n_glwe),
                        base2k: ks_lwe.base2k(),
                        k: ks_lwe.max_k().min(glwe.max_k()),
                        rank: {
                            use poulpy_core::layouts::GGLWEInfos;
                            ks_lwe.rank_out()
                        },
                    };
                    a64(GLWE::<Vec<u8>>::bytes_of_from_infos(&tmp)) + m.glwe_keyswitch_tmp_bytes(&tmp, &glwe, kg).max(m.lwe_from_glwe_tmp_bytes(&lwe, &tmp, ks_lwe))
                }
                None => m.lwe_from_glwe_tmp_bytes(&lwe, &glwe, ks_lwe),
            };
            win.call::<B, _>(by, |s| ct.get_bit_lwe(m, v(0) % T::bits(), &mut lwe, ks_glwe, ks_lwe, s))?;
            outs.push(("lwe".into(), i64_bytes(lwe.data().raw())));
        }
        "uint_zero_byte" | "uint_splice_u8" | "uint_splice_u16" | "uint_sext" => {
            let g = a64(GLWE::<Vec<u8>>::bytes_of_from_infos(&glwe));
            let trace = m.glwe_trace_tmp_bytes(&glwe, &glwe, &atk_infos);
            let rot = m.glwe_rotate_tmp_bytes();
            let zero_byte = rot.max(g + trace);
            let splice8 = zero_byte.max(g + trace.max(rot));
            let ca = guarded(|| encrypt_word::<B, T>(ctx, T::from_u64(word), 5))?;
            let cb = guarded(|| encrypt_word::<B, T>(ctx, T::from_u64(word2), 6))?;
            let bytes = T::bits() / 8;
            match c.op.as_str() {
                "uint_zero_byte" => {
                    let mut x = guarded(|| encrypt_word::<B, T>(ctx, T::from_u64(word), 5))?;
                    win.call::<B, _>(zero_byte, |s| x.zero_byte(m, v(0) % bytes, key, s))?;
                    outs.push(("ct".into(), glwe_out(&x)));
                }
                "uint_splice_u8" => {
                    let mut res = alloc_word::<B, T>(ctx, 0);
                    win.call::<B, _>(splice8, |s| res.splice_u8(m, v(0) % bytes, v(1) % bytes, &ca, &cb, key, s))?;
                    outs.push(("ct".into(), glwe_out(&res)));
                }
                "uint_splice_u16" => {
                    let halves = (T::bits() / 16).max(1);
                    let mut res = alloc_word::<B, T>(ctx, 0);
                    win.call::<B, _>(g + splice8, |s| res.splice_u16(m, v(0) % halves, v(1) % halves, &ca, &cb, key, s))?;
                    outs.push(("ct".into(), glwe_out(&res)));
                }
                _ => {
                    let mut x = guarded(|| encrypt_word::<B, T>(ctx, T::from_u64(word), 5))?;
                    let by = g + trace.max(g).max(g + splice8);
                    win.call::<B, _>(by, |s| x.sext(m, v(0) % bytes, key, s))?;
                    outs.push(("ct".into(), glwe_out(&x)));
                }
            }
        }
        "uint_from_prepared" | "prepared_decrypt" => {
            let pr = guarded(|| sel_word::<B, T>(ctx, word, c.sel, 7))?;
            let sl = sel_layout(p, c.sel);
            let g = a64(GLWE::<Vec<u8>>::bytes_of_from_infos(&glwe));
            let from = T::bits() * g + m.cmux_tmp_bytes(&glwe, &glwe, &sl).max(m.glwe_pack_tmp_bytes(&glwe, &atk_infos));
            if c.op == "uint_from_prepared" {
                let mut res = alloc_word::<B, T>(ctx, 0);
                win.call::<B, _>(from, |s| res.from_fhe_uint_prepared(m, &pr, key, s))?;
                outs.push(("ct".into(), glwe_out(&res)));
            } else {
                let probe: FheUint<Vec<u8>, T> = FheUint::alloc_from_infos(&pr);
                // the temporary word takes the prepared word's layout
                let tmp_infos = GLWELayout {
                    n: Degree(p.n_glwe),
                    base2k: Base2K(p.base2k),
                    k: sl.max_k(),
                    rank: Rank(p.rank),
                };
                let gt = a64(GLWE::<Vec<u8>>::bytes_of_from_infos(&tmp_infos));
                let from_t = T::bits() * gt + m.cmux_tmp_bytes(&tmp_infos, &tmp_infos, &sl).max(m.glwe_pack_tmp_bytes(&tmp_infos, &atk_infos));
                let by = gt + from_t.max(probe.decrypt_tmp_bytes(m));
                let got = win.call::<B, _>(by, |s| pr.decrypt(m, &ctx.sk_prep, key, s))?;
                outs.push(("value".into(), got.to_u64().to_le_bytes().to_vec()));
            }
        }
        "prepared_encrypt_sk" => {
            let sl = sel_layout(p, c.sel);
            let enc = EncryptionLayout::new_from_default_sigma(sl).expect("ggsw layout");
            let mut pr: Prep<B, T> = FheUintPrepared::alloc_from_infos(m, &sl);
            let by = a64(GGSW::<Vec<u8>>::bytes_of_from_infos(&sl))
                + a64(ScalarZnx::<Vec<u8>>::bytes_of(p.n_glwe as usize, 1))
                + m.ggsw_encrypt_sk_tmp_bytes(&sl).max(m.ggsw_prepare_tmp_bytes(&sl));
            win.call::<B, _>(by, |s| pr.encrypt_sk(m, T::from_u64(word), &ctx.sk_prep, &enc, &mut Source::new([0x23; 32]), &mut Source::new([0x24; 32]), s))?;
            outs.push(("prepared".into(), prep_out::<B, T>(&pr)));
            if win.observe_prepared {
                outs.push(("prepared_through_cmux".into(), prep_through_cmux::<B, T>(ctx, &pr)?));
            }
        }
        // v = [entry point: 0 = FheUintPrepared::prepare, 1 = Module::fhe_uint_prepare, 2 = Module::fhe_uint_prepare_custom,
        //      3 = FheUintPrepared::prepare_custom, start, length]
        "prepared_prepare" => {
            let ct = guarded(|| encrypt_word::<B, T>(ctx, T::from_u64(word), 5))?;
            let mut pr = guarded(|| sel_word::<B, T>(ctx, T::mask(), (p.k_ggsw, p.ggsw_dnum, 1), 8))?;
            let by = m.fhe_uint_prepare_tmp_bytes(cbt.block_size(), 1, &ggsw, &glwe, key);
            let (start, len) = (v(1).min(T::bits()), v(2).min(T::bits() - v(1).min(T::bits())));
            match v(0) {
                0 => win.call::<B, _>(by, |s| pr.prepare(m, &ct, key, s))?,
                1 => win.call::<B, _>(by, |s| m.fhe_uint_prepare(&mut pr, &ct, key, s))?,
                2 => win.call::<B, _>(by, |s| m.fhe_uint_prepare_custom(&mut pr, &ct, start, len, key, s))?,
                _ => win.call::<B, _>(by, |s| pr.prepare_custom(m, &ct, start, start + len, key, s))?,
            }
            outs.push(("prepared".into(), prep_out::<B, T>(&pr)));
            if win.observe_prepared {
                outs.push(("prepared_through_cmux".into(), prep_through_cmux::<B, T>(ctx, &pr)?));
            }
        }
        "debug_prepare" => {
            let ct = guarded(|| encrypt_word::<B, T>(ctx, T::from_u64(word), 5))?;
            let mut dbg: FheUintPreparedDebug<Vec<u8>, T> = FheUintPreparedDebug::alloc_from_infos(m, &ggsw);
            let by = m.fhe_uint_prepare_tmp_bytes(cbt.block_size(), 1, &dbg, &ct, key);
            win.call::<B, _>(by, |s| dbg.prepare(m, &ct, key, s))?;
            // the debug form exposes its bits only through the noise measurement (generous scratch)
            let mut o = vec![];
            for row in 0..p.ggsw_dnum as usize {
                for col in 0..=p.rank as usize {
                    for st in guarded(|| dbg.noise(m, row, col, T::from_u64(word), &ctx.sk_prep, B::borrow(&mut big)))? {
                        o.extend(st.max().to_le_bytes());
                        o.extend(st.std().to_le_bytes());
                    }
                }
            }
            outs.push(("noise_of_every_cell".into(), o));
        }
        // ------------------------------------------------------------------ decision diagrams and word operations
        // v = [circuit index in the library's table, number of outputs evaluated (0 = all)]
        "execute_bdd_circuit" | "execute_bdd_circuit_2w_to_1w" | "execute_bdd_circuit_1w_to_1w" => {
            let table = verif_circuits::u32_circuits();
            let (name, _) = table[v(0) % table.len()];
            let circ = circuit(name);
            let a = guarded(|| sel_word::<B, u32>(ctx, 0xA5C3_96F0, c.sel, 9))?;
            let b = guarded(|| sel_word::<B, u32>(ctx, 0x0000_0015, c.sel, 10))?;
            let sl = sel_layout(p, c.sel);
            match c.op.as_str() {
                "execute_bdd_circuit" => {
                    let mut out: Vec<GLWE<Vec<u8>>> = (0..32).map(|_| alloc_glwe::<B>(ctx, 0)).collect();
                    let by = m.execute_bdd_circuit_tmp_bytes(&glwe, circ.max_state_size(), &sl);
                    let two = Two(&a, &b);
                    if name == "identity" {
                        win.call::<B, _>(by, |s| m.execute_bdd_circuit(&mut out, &a, &circ, s))?;
                    } else {
                        win.call::<B, _>(by, |s| m.execute_bdd_circuit(&mut out, &two, &circ, s))?;
                    }
                    outs.push(("bits".into(), out.iter().flat_map(glwe_out).collect()));
                }
                "execute_bdd_circuit_2w_to_1w" => {
                    if name == "identity" {
                        return Err("not a two-word circuit".into());
                    }
                    let mut res = alloc_word::<B, u32>(ctx, 0);
                    let by = m.execute_bdd_circuit_2w_to_1w_tmp_bytes::<_, u32, _, _, _, _>(&circ, &glwe, &sl, key);
                    win.call::<B, _>(by, |s| m.execute_bdd_circuit_2w_to_1w(&mut res, &circ, &a, &b, key, s))?;
                    outs.push(("ct".into(), glwe_out(&res)));
                }
                _ => {
                    use poulpy_bin_fhe::bdd_arithmetic::ExecuteBDDCircuit1WTo1W;
                    let circ = circuit("identity");
                    let mut res = alloc_word::<B, u32>(ctx, 0);
                    let by = m.execute_bdd_circuit_2w_to_1w_tmp_bytes::<_, u32, _, _, _, _>(&circ, &glwe, &sl, key);
                    win.call::<B, _>(by, |s| m.execute_bdd_circuit_1w_to_1w(&mut res, &circ, &a, key, s))?;
                    outs.push(("ct".into(), glwe_out(&res)));
                }
            }
        }
        // v = [word operation index, threads]
        "wordop" | "wordop_identity" => {
            let op = if c.op == "wordop_identity" { WOp::Identity } else { ALL_WOPS[v(0) % 10] };
            let threads = v(1).max(1);
            let a = guarded(|| sel_word::<B, u32>(ctx, 0xA5C3_96F0, c.sel, 9))?;
            let b = guarded(|| sel_word::<B, u32>(ctx, 0x0000_0015, c.sel, 10))?;
            let sl = sel_layout(p, c.sel);
            let mut res = alloc_word::<B, u32>(ctx, 0);
            macro_rules! q {
                ($st:ident, $mt:ident) => {
                    if threads <= 1 { res.$st(m, &glwe, &sl, key) } else { res.$mt(m, threads, &glwe, &sl, key) }
                };
            }
            let by = match op {
                WOp::Add => q!(add_tmp_bytes, add_multi_thread_tmp_bytes),
                WOp::Sub => q!(sub_tmp_bytes, sub_multi_thread_tmp_bytes),
                WOp::Sll => q!(sll_tmp_bytes, sll_multi_thread_tmp_bytes),
                WOp::Srl => q!(srl_tmp_bytes, srl_multi_thread_tmp_bytes),
                WOp::Sra => q!(sra_tmp_bytes, sra_multi_thread_tmp_bytes),
                WOp::Slt => q!(slt_tmp_bytes, slt_multi_thread_tmp_bytes),
                WOp::Sltu => q!(sltu_tmp_bytes, sltu_multi_thread_tmp_bytes),
                WOp::And => q!(and_tmp_bytes, and_multi_thread_tmp_bytes),
                WOp::Or => q!(or_tmp_bytes, or_multi_thread_tmp_bytes),
                WOp::Xor => q!(xor_tmp_bytes, xor_multi_thread_tmp_bytes),
                WOp::Identity => {
                    let circ = circuit("identity");
                    if threads <= 1 {
                        m.execute_bdd_circuit_2w_to_1w_tmp_bytes::<_, u32, _, _, _, _>(&circ, &glwe, &sl, key)
                    } else {
                        m.execute_bdd_circuit_2w_to_1w_multi_thread_tmp_bytes::<_, u32, _, _, _, _>(threads, &circ, &glwe, &sl, key)
                    }
                }
            };
            win.call::<B, _>(by, |s| crate::c15::apply_op::<B, _, _>(ctx, op, &mut res, &a, &b, threads, s))?;
            outs.push(("ct".into(), glwe_out(&res)));
        }
        // ------------------------------------------------------------------ selection / retrieval
        // v = [array length, position of the index field, index, presence mask (selection)]
        "blind_selection" | "blind_retrieval_statefull" | "blind_retriever" => {
            let (len, rsh, idx) = (v(0).max(1), v(1), v(2));
            let mask: usize = if len <= 1 { 0 } else { (usize::BITS - (len - 1).leading_zeros()) as usize };
            let k = ((idx as u32) << rsh) | 0x4000_0000;
            let sel = guarded(|| sel_word::<B, u32>(ctx, k as u64, c.sel, 11))?;
            let sl = sel_layout(p, c.sel);
            let mut data: Vec<FheUint<Vec<u8>, u32>> = Vec::new();
            for i in 0..len {
                data.push(guarded(|| encrypt_word::<B, u32>(ctx, datum(i), 20 + i as u64))?);
            }
            match c.op.as_str() {
                "blind_selection" => {
                    let mut res = alloc_glwe::<B>(ctx, 0);
                    let by = <Module<B> as GLWEBlindSelection<u32, B>>::glwe_blind_selection_tmp_bytes(m, &glwe, &sl);
                    let present = v(3);
                    win.call::<B, _>(by, |s| {
                        let mut map: HashMap<usize, &mut FheUint<Vec<u8>, u32>> = HashMap::new();
                        for (i, ct) in data.iter_mut().enumerate() {
                            if (present >> i) & 1 == 1 {
                                map.insert(i, ct);
                            }
                        }
                        <Module<B> as GLWEBlindSelection<u32, B>>::glwe_blind_selection(m, &mut res, map, &sel, rsh, mask, s)
                    })?;
                    outs.push(("ct".into(), glwe_out(&res)));
                }
                "blind_retrieval_statefull" => {
                    let by = m.glwe_blind_retrieval_tmp_bytes(&glwe, &sl);
                    win.call::<B, _>(by, |s| m.glwe_blind_retrieval_statefull(&mut data, &sel, rsh, mask, s))?;
                    outs.push(("array".into(), data.iter().flat_map(glwe_out).collect()));
                    win.call::<B, _>(by, |s| m.glwe_blind_retrieval_statefull_rev(&mut data, &sel, rsh, mask, s))?;
                    outs.push(("array_after_reverse".into(), data.iter().flat_map(glwe_out).collect()));
                }
                _ => {
                    let mut res = alloc_word::<B, u32>(ctx, 0);
                    let by = GLWEBlindRetriever::retrieve_tmp_bytes(m, &glwe, &sl);
                    let mut r = GLWEBlindRetriever::alloc(&glwe, len);
                    win.call::<B, _>(by, |s| r.retrieve(m, &mut res, &data, &sel, rsh, s))?;
                    outs.push(("ct".into(), glwe_out(&res)));
                    // the incremental interface: add one by one, then flush
                    let mut res2 = alloc_word::<B, u32>(ctx, 0);
                    for ct in &data {
                        win.call::<B, _>(by, |s| r.add(m, ct, &sel, rsh, s))?;
                    }
                    win.call::<B, _>(by, |s| r.flush(m, &mut res2, &sel, rsh, s))?;
                    outs.push(("ct_add_flush".into(), glwe_out(&res2)));
                }
            }
        }
        // ------------------------------------------------------------------ blind rotations
        // v = [sign, bit_rsh, bit_mask, bit_lsh]
        "glwe_blind_rotation" | "glwe_blind_rotation_assign" | "ggsw_blind_rotation" | "ggsw_blind_rotation_assign" | "scalar_to_ggsw_blind_rotation" => {
            let (sign, rsh, mask, lsh) = (v(0) == 1, v(1), v(2), v(3));
            let sel = guarded(|| sel_word::<B, u32>(ctx, 0xA5A5_A5A5, c.sel, 12))?;
            let sl = sel_layout(p, c.sel);
            let n = p.n_glwe as usize;
            let data: Vec<i64> = (0..n as i64).collect();
            if c.op.starts_with("glwe") {
                let enc = EncryptionLayout::new_from_default_sigma(glwe).expect("glwe layout");
                let mut pt: GLWEPlaintext<Vec<u8>> = GLWEPlaintext::alloc_from_infos(&glwe);
                pt.encode_vec_i64(&data, TorusPrecision(p.base2k));
                let mut tv: GLWE<Vec<u8>> = GLWE::alloc_from_infos(&glwe);
                guarded(|| m.glwe_encrypt_sk(&mut tv, &pt, &ctx.sk_prep, &enc, &mut Source::new([0x25; 32]), &mut Source::new([0x26; 32]), B::borrow(&mut big)))?;
                let by = m.glwe_blind_rotation_tmp_bytes(&glwe, &sl);
                if c.op == "glwe_blind_rotation" {
                    let mut res = alloc_glwe::<B>(ctx, 0);
                    win.call::<B, _>(by, |s| m.glwe_blind_rotation(&mut res, &tv, &sel, sign, rsh, mask, lsh, s))?;
                    outs.push(("ct".into(), glwe_out(&res)));
                } else {
                    win.call::<B, _>(by, |s| m.glwe_blind_rotation_assign(&mut tv, &sel, sign, rsh, mask, lsh, s))?;
                    outs.push(("ct".into(), glwe_out(&tv)));
                }
            } else {
                let mut scalar: ScalarZnx<Vec<u8>> = ScalarZnx::alloc(n, 1);
                scalar.raw_mut().copy_from_slice(&data);
                let mut res: GGSW<Vec<u8>> = GGSW::alloc_from_infos(&ggsw);
                ggsw_garbage(&mut res);
                let by_s = <Module<B> as GGSWBlindRotation<u32, B>>::scalar_to_ggsw_blind_rotation_tmp_bytes(m, &ggsw, &sl);
                let by_g = <Module<B> as GGSWBlindRotation<u32, B>>::ggsw_to_ggsw_blind_rotation_tmp_bytes(m, &ggsw, &sl);
                if c.op == "scalar_to_ggsw_blind_rotation" {
                    win.call::<B, _>(by_s, |s| {
                        <Module<B> as GGSWBlindRotation<u32, B>>::scalar_to_ggsw_blind_rotation(m, &mut res, &scalar, &sel, sign, rsh, mask, lsh, s)
                    })?;
                    outs.push(("ggsw".into(), ggsw_out(&res)));
                } else {
                    // a fresh GGSW of the scalar as operand
                    let enc = EncryptionLayout::new_from_default_sigma(ggsw).expect("ggsw layout");
                    let mut a: GGSW<Vec<u8>> = GGSW::alloc_from_infos(&ggsw);
                    guarded(|| m.ggsw_encrypt_sk(&mut a, &scalar, &ctx.sk_prep, &enc, &mut Source::new([0x27; 32]), &mut Source::new([0x28; 32]), B::borrow(&mut big)))?;
                    if c.op == "ggsw_blind_rotation" {
                        win.call::<B, _>(by_g, |s| {
                            <Module<B> as GGSWBlindRotation<u32, B>>::ggsw_blind_rotation(m, &mut res, &a, &sel, sign, rsh, mask, lsh, s)
                        })?;
                        outs.push(("ggsw".into(), ggsw_out(&res)));
                    } else {
                        win.call::<B, _>(by_g, |s| {
                            <Module<B> as GGSWBlindRotation<u32, B>>::ggsw_blind_rotation_assign(m, &mut a, &sel, sign, rsh, mask, lsh, s)
                        })?;
                        outs.push(("ggsw".into(), ggsw_out(&a)));
                    }
                }
            }
        }
        o => panic!("C12 bin-fhe: unknown operation {o}"),
    }
    Ok(outs)
}

fn kind_of(msg: &str) -> Option<&'static str> {
    let l = msg.to_lowercase();
    if l.contains("scratch") || l.contains("attempted to take") || l.contains("tmp_bytes") { Some("scratch_too_small") } else { None }
}

fn desc(c: &C12Case, backend: &str, kind: &str, inner: Value, extra: Value) -> Value {
    let mut d = json!({"op": c.op, "backend": backend, "kind": kind, "case": c, "inner": inner,
        "query": if is_assumed(&c.op) { "assumed" } else { "own" }, "n_glwe": c.p.n_glwe, "block_size": c.p.block_size, "key_dsize": c.p.key_dsize,
        "sel_dsize": c.sel.2, "width": c.width});
    if c.op.starts_with("cbt_execute") && c.v.len() >= 6 {
        // classification of the circuit-bootstrapping cases: result rows, mode, whether post-processing re-packs
        let log_n = log2(c.p.n_glwe as usize);
        d["res_dnum"] = json!(c.v[4]);
        d["extension_factor"] = json!(c.v[1]);
        d["repack"] = json!(c.op == "cbt_execute_exponent" && c.v[5] + c.v[0] != log_n);
    }
    if let (Value::Object(m), Value::Object(e)) = (&mut d, extra) {
        m.extend(e);
    }
    d
}

fn exec_t<B: Bk, T: Word>(ctx: &Ctx<B>, c: &C12Case, rec: &mut Rec)
where
    Module<B>: HalAll<B>
        + CoreAll<B>
        + UintAll<B>
        + Uint12All<B>
        + FheUintPreparedFactory<T, B>
        + FheUintPreparedEncryptSk<T, B>
        + poulpy_bin_fhe::bdd_arithmetic::FheUintPrepareDebug<CGGI, T, B>,
    Scratch<B>: ScratchTakeCore<B> + ScratchTakeBDD<T, B>,
    ScratchOwned<B>: ScratchOwnedAlloc<B> + ScratchOwnedBorrow<B>,
    Prep<B, u32>: Sync,
{
    HARNESS_THREAD.with(|h| h.set(true));
    rec.distinct(fnv(format!("{c:?}").as_bytes()));
    rec.sample(|| serde_json::to_value(c).unwrap());
    let mut runs: Vec<(usize, Outs, usize)> = vec![];
    for fill in FILLS {
        let mut win = Win::new(fill);
        let r = run_op::<B, T>(ctx, c, &mut win);
        rec.evals(1);
        let tmp = win.bytes;
        let shape = json!({"tmp_bytes": tmp, "tmp_bytes_multiple_of_64": tmp.map(|b| b % 64 == 0)});
        if !win.canaries_ok {
            rec.fail(desc(c, B::NAME, "scratch_overrun", json!({"fill": fill_name(fill)}), shape.clone()));
            return;
        }
        match r {
            Ok(o) => runs.push((fill, o, tmp.unwrap_or(0))),
            Err(msg) => {
                match kind_of(&msg) {
                    Some(kind) => {
                        let mut ex = shape;
                        ex["panic"] = json!(msg);
                        ex["reached_operation"] = json!(tmp.is_some());
                        rec.fail(desc(c, B::NAME, kind, json!({"fill": fill_name(fill)}), ex));
                    }
                    // same inputs, same window size, completed with another fill: the panic itself depends on what the
                    // scratch held (e.g. stale garbage read as a huge operand)
                    None if !runs.is_empty() => {
                        rec.fail(desc(
                            c,
                            B::NAME,
                            "scratch_dependent_result",
                            json!({"fill_a": fill_name(runs[0].0), "fill_b": fill_name(fill)}),
                            json!({"differs": "panics with this fill only", "panic": msg, "tmp_bytes": tmp}),
                        ));
                    }
                    None => {
                        rec.add("other_property_panics", 1);
                        if std::env::var("VERIF_C12_DEBUG").is_ok() {
                            eprintln!("[C12 debug] {} {:?} {:?} N={} : {}", c.op, c.v, c.sel, c.p.n_glwe, msg);
                        }
                    }
                }
                return;
            }
        }
    }
    rec.add("operations_completed", 1);
    rec.add(&format!("completed/{}", c.op), 1);
    if runs[0].2 % 64 != 0 {
        rec.add("windows_not_multiple_of_64", 1);
    }
    let (f0, o0, tmp) = &runs[0];
    rec.outcome(fnv(&o0.iter().flat_map(|(_, b)| b.iter().copied()).collect::<Vec<u8>>()));
    for (f1, o1, _) in runs.iter().skip(1) {
        for ((l0, b0), (_, b1)) in o0.iter().zip(o1.iter()) {
            if b0 != b1 {
                let at = b0.iter().zip(b1.iter()).position(|(x, y)| x != y);
                rec.fail(desc(
                    c,
                    B::NAME,
                    "scratch_dependent_result",
                    json!({"fill_a": fill_name(*f0), "fill_b": fill_name(*f1)}),
                    json!({"differs": l0, "first_differing_byte": at, "tmp_bytes": tmp}),
                ));
                return;
            }
        }
    }
}

/// `run_op` dispatched on the case's word width
pub fn run_op_w<B: Bk>(ctx: &Ctx<B>, c: &C12Case, win: &mut Win) -> Result<Outs, String>
where
    Module<B>: HalAll<B> + CoreAll<B> + UintAll<B> + Uint12All<B>,
    Scratch<B>: ScratchTakeCore<B>,
    ScratchOwned<B>: ScratchOwnedAlloc<B> + ScratchOwnedBorrow<B>,
    Prep<B, u32>: Sync,
{
    match c.width.as_str() {
        "u8" => run_op::<B, u8>(ctx, c, win),
        "u16" => run_op::<B, u16>(ctx, c, win),
        _ => run_op::<B, u32>(ctx, c, win),
    }
}

pub fn exec<B: Bk>(ctx: &Ctx<B>, c: &C12Case, rec: &mut Rec)
where
    Module<B>: HalAll<B> + CoreAll<B> + UintAll<B> + Uint12All<B>,
    Scratch<B>: ScratchTakeCore<B>,
    ScratchOwned<B>: ScratchOwnedAlloc<B> + ScratchOwnedBorrow<B>,
    Prep<B, u32>: Sync,
{
    match c.width.as_str() {
        "u8" => exec_t::<B, u8>(ctx, c, rec),
        "u16" => exec_t::<B, u16>(ctx, c, rec),
        _ => exec_t::<B, u32>(ctx, c, rec),
    }
}

// ---------------------------------------------------------------------------------------------
// enumeration
// ---------------------------------------------------------------------------------------------

pub fn shapes(thorough: bool) -> Vec<Params> {
    let base = Params::suite(128);
    let mut block1 = base;
    block1.block_size = 1;
    let mut dsize2 = base;
    dsize2.key_dsize = 2;
    let mut direct = base;
    direct.direct_ks = true;
    let mut v = vec![base, block1, dsize2];
    if thorough {
        let mut b256 = Params::suite(256);
        v.push(b256);
        b256.block_size = 1;
        v.push(b256);
        let mut d256 = Params::suite(256);
        d256.key_dsize = 2;
        v.push(d256);
        v.push(direct);
        let mut small = Params::suite(32);
        small.n_lwe = 28;
        v.push(small);
    } else {
        v.push(direct);
    }
    v
}

pub fn cases<B: Bk>(thorough: bool) -> Vec<C12Case> {
    let mut out = vec![];
    let widths = ["u8", "u16", "u32"];
    for (pi, p) in shapes(thorough).into_iter().enumerate() {
        let log_n = log2(p.n_glwe as usize);
        let primary = pi == 0;
        let mut push = |op: &str, width: &str, sel: (u32, u32, u32), v: Vec<usize>| {
            out.push(C12Case {
                backend: B::NAME.into(),
                p,
                op: op.into(),
                width: width.into(),
                sel,
                v,
            })
        };
        let suite_sel = (p.k_ggsw, p.ggsw_dnum, 1);
        // selector layouts: the suite's, one digit of two limbs, three digits, two digits of two limbs
        let sels: Vec<(u32, u32, u32)> = if thorough || primary { vec![suite_sel, (39, 1, 2), (52, 3, 1), (52, 2, 2)] } else { vec![suite_sel, (39, 1, 2)] };
        // keys (they depend on the key shape only)
        for op in ["brk_encrypt_sk", "brk_compressed_encrypt_sk", "brk_prepare", "cbt_key_encrypt_sk", "cbt_key_prepare", "bdd_key_encrypt_sk", "bdd_key_prepare"] {
            push(op, "u32", suite_sel, vec![]);
        }
        // circuit bootstrapping: both modes, extension factors 1 and 2, result layouts, domains
        for (k, dnum) in [(39usize, 2usize), (26, 1), (52, 2), (39, 1)] {
            if !(thorough || primary) && (k, dnum) != (39, 2) {
                continue;
            }
            for ext in [1usize, 2] {
                // the extended rotation is defined for block-binary LWE secrets only (asserted by the library)
                if ext == 2 && p.block_size <= 1 {
                    continue;
                }
                for ld in 1..=(if thorough { 3usize } else { 2 }) {
                    push("cbt_execute_constant", "u32", suite_sel, vec![ld, ext, (1 << ld) - 1, k, dnum, 0]);
                    for gap in [0usize, 1, log_n - ld] {
                        push("cbt_execute_exponent", "u32", suite_sel, vec![ld, ext, 1, k, dnum, gap]);
                    }
                }
            }
        }
        // packed words and prepared words, every width
        for w in widths {
            let bits = match w {
                "u8" => 8usize,
                "u16" => 16,
                _ => 32,
            };
            // preparation bootstraps an LWE of dimension N_glwe - 1 (sample extraction of the whole ring); the standard
            // CGGI path (plain binary secret) asserts lwe.n() == n_lwe, so word preparation exists for block-binary
            // secrets only
            let can_prepare = p.block_size > 1;
            for op in ["uint_encrypt_sk", "uint_decrypt", "uint_noise", "uint_pack", "debug_prepare"] {
                if op == "debug_prepare" && !can_prepare {
                    continue;
                }
                push(op, w, suite_sel, vec![]);
            }
            for i in [0usize, bits / 2 + 1, bits - 1] {
                push("uint_get_bit_glwe", w, suite_sel, vec![i]);
                push("uint_get_bit_lwe", w, suite_sel, vec![i, 0]);
                push("uint_get_bit_lwe", w, suite_sel, vec![i, 1]);
            }
            for byte in 0..bits / 8 {
                push("uint_get_byte", w, suite_sel, vec![byte]);
                push("uint_zero_byte", w, suite_sel, vec![byte]);
                push("uint_sext", w, suite_sel, vec![byte]);
                push("uint_splice_u8", w, suite_sel, vec![byte, (byte + 1) % (bits / 8)]);
            }
            for h in 0..bits / 16 {
                push("uint_splice_u16", w, suite_sel, vec![h, (h + 1) % (bits / 16)]);
            }
            for &sel in &sels {
                push("uint_from_prepared", w, sel, vec![]);
                push("prepared_decrypt", w, sel, vec![]);
                push("prepared_encrypt_sk", w, sel, vec![]);
            }
            if !can_prepare {
                continue;
            }
            // preparation: the four single-thread entry points, full and custom ranges
            push("prepared_prepare", w, suite_sel, vec![0, 0, bits]);
            push("prepared_prepare", w, suite_sel, vec![1, 0, bits]);
            for (start, len) in [(0usize, bits), (0, 1), (1, bits - 1), (bits / 2, bits / 4), (bits - 1, 1), (3, 0)] {
                push("prepared_prepare", w, suite_sel, vec![2, start, len]);
                if thorough || primary {
                    push("prepared_prepare", w, suite_sel, vec![3, start, len]);
                }
            }
        }
        // decision diagrams: every circuit of the table through the raw evaluator and the word-level executors
        for &sel in &sels {
            for ci in 0..11usize {
                push("execute_bdd_circuit", "u32", sel, vec![ci]);
                if ci != 10 {
                    push("execute_bdd_circuit_2w_to_1w", "u32", sel, vec![ci]);
                    push("wordop", "u32", sel, vec![ci, 1]);
                    if thorough && sel == suite_sel {
                        push("wordop", "u32", sel, vec![ci, 2]);
                        push("wordop", "u32", sel, vec![ci, 3]);
                    }
                }
            }
            push("wordop_identity", "u32", sel, vec![0, 1]);
            push("execute_bdd_circuit_1w_to_1w", "u32", sel, vec![10]);
            // selection / retrieval
            for len in if thorough { vec![1usize, 2, 3, 4, 5, 8, 9, 16] } else { vec![1usize, 2, 5, 8] } {
                for rsh in [0usize, 13] {
                    let idx = len - 1;
                    let slots = len.next_power_of_two();
                    push("blind_selection", "u32", sel, vec![slots, rsh, idx, (1usize << slots) - 1]);
                    push("blind_selection", "u32", sel, vec![slots, rsh, idx, 0b1001 & ((1usize << slots) - 1)]);
                    push("blind_retrieval_statefull", "u32", sel, vec![len, rsh, idx]);
                    push("blind_retriever", "u32", sel, vec![len, rsh, idx]);
                }
            }
            // blind rotations
            for (rsh, mask, lsh) in [(0usize, 0usize, 0usize), (0, 1, 0), (3, 4, 1), (32 - log_n - 1, log_n + 1, 0), (8, 3, log_n - 2)] {
                for sign in [0usize, 1] {
                    for op in ["glwe_blind_rotation", "glwe_blind_rotation_assign", "scalar_to_ggsw_blind_rotation", "ggsw_blind_rotation", "ggsw_blind_rotation_assign"] {
                        if !(thorough || primary) && sign == 1 {
                            continue;
                        }
                        push(op, "u32", sel, vec![sign, rsh, mask, lsh]);
                    }
                }
            }
        }
    }
    out
}

fn fam<B: Bk>(run: &mut Run)
where
    Module<B>: HalAll<B> + CoreAll<B> + UintAll<B> + Uint12All<B>,
    Scratch<B>: ScratchTakeCore<B>,
    ScratchOwned<B>: ScratchOwnedAlloc<B> + ScratchOwnedBorrow<B>,
    Prep<B, u32>: Sync,
    Ctx<B>: Sync,
{
    let thorough = run.tier.is_thorough();
    // quick: the reference FFT64 backend only; thorough: every backend
    if !thorough && B::NAME != "fft64-ref" {
        return;
    }
    let all = cases::<B>(thorough && !(B::FAMILY == pvc_common::Family::Ntt120));
    let pool = Pool::<B>::new(&{
        let mut ps: Vec<Params> = vec![];
        for c in &all {
            if !ps.contains(&c.p) {
                ps.push(c.p);
            }
        }
        ps
    });
    let (own, assumed): (Vec<C12Case>, Vec<C12Case>) = all.into_iter().partition(|c| !is_assumed(&c.op));
    run.family(
        &format!("binfhe_exact_scratch/{}", B::NAME),
        "outer = (parameter shape: N 128 (256, 32), block-binary LWE secret of block 7 | plain binary secret (block size 1), key digit size 1 | 2, with | without the rank-reduction key; operation with a companion query of its own: blind-rotation key encrypt / compressed encrypt / prepare, circuit-bootstrapping key encrypt / prepare, BDD key encrypt / prepare, circuit bootstrapping to constant and to exponent (extension factor 1 | 2, log_domain 1..3, result layouts, gaps incl. the no-repacking one), FheUint encrypt_sk / decrypt (u8 u16 u32), FheUintPrepared prepare through its four single-thread entry points (full and custom ranges), execute_bdd_circuit on each of the 11 compiled circuits, execute_bdd_circuit_2w_to_1w and the 10 two-word operations (thorough: also 2 / 3 threads with the multi-thread query), blind selection (full and sparse maps), stateful retrieval + reverse, retriever retrieve / add / flush (array lengths 1..16), glwe / ggsw / scalar-to-ggsw blind rotation and the assign forms; selector layouts (k, dnum, dsize) = suite, (39,1,2), (52,3,1), (52,2,2)); inner = 3 pre-fills (zeros, NaN/huge, large values) of a window of exactly the queried size between canaries; evaluations = exact-window runs of the operation",
        own,
        |c, rec| exec::<B>(pool.get(&c.p), c, rec),
    );
    run.family(
        &format!("binfhe_assumed_query/{}", B::NAME),
        "same shapes; operations WITHOUT a companion query: FheUint pack / get_bit_glwe / get_byte / get_bit_lwe / zero_byte / splice_u8 / splice_u16 / sext / from_fhe_uint_prepared / noise, FheUintPrepared encrypt_sk / decrypt, FheUintPreparedDebug prepare, the 1w->1w executor and identity; the window is the query the library's own callers budget for the call, or the bytes of the temporaries the body takes plus the largest companion query of its callees (listed per operation in the assumptions)",
        assumed,
        |c, rec| exec::<B>(pool.get(&c.p), c, rec),
    );
}

pub fn run(run: &mut Run) {
    install_inner_hook();
    run.assume("scratch = exactly the companion query of the operation, evaluated on the layouts the call is made with; window start 64-byte aligned, length not rounded, canary bytes on both sides; inputs, keys and result buffers are identical across the three pre-fills (fixed seeds, same garbage in result buffers)");
    run.assume("a panic whose message does not mention the scratch is not judged here (counted as other_property_panics): shapes the operation rejects by assertion, or defects of other properties");
    run.assume("result independence is judged on raw ciphertext bytes, serialised keys, DFT-domain bytes of prepared words, decrypted values; prepared keys expose no accessor and are observed through one operation that uses them (generous scratch)");
    for (op, how) in QUERY_NOTES {
        run.assume(&format!("no companion query for {op}: window = {how}"));
    }
    for_backends!(fam(run));
}

/// false if the descriptor does not belong to this part
pub fn replay(run: &mut Run, d: &Value) -> bool {
    let fam = d["family"].as_str().unwrap_or("").to_string();
    if !fam.starts_with("binfhe_") {
        return false;
    }
    install_inner_hook();
    let c: C12Case = match serde_json::from_value(d["case"].clone()) {
        Ok(c) => c,
        Err(_) => return false,
    };
    macro_rules! go {
        ($B:ty) => {{
            let pool = Pool::<$B>::new(&[c.p]);
            let ctx = pool.get(&c.p).clone();
            run.single(&fam, "replay", |rec| exec::<$B>(&ctx, &c, rec))
        }};
    }
    match c.backend.as_str() {
        "fft64-ref" => go!(pvc_common::FFT64Ref),
        "ntt120-ref" => go!(pvc_common::NTT120Ref),
        "fft64-avx" => go!(pvc_common::FFT64Avx),
        "ntt120-avx" => go!(pvc_common::NTT120Avx),
        _ => return false,
    }
    true
}

//! C10 (poulpy-bin-fhe part) - equal inputs and equal seeds give bit-identical keys, ciphertexts and decryptions on
//! every backend.
//!
//! Every case is executed on every available backend (FFT64Ref, FFT64Avx, NTT120Ref, NTT120Avx; the NTT120 backends on
//! the cases flagged for them - they are about ten times slower) with the same seeds, and the byte strings written
//! after EVERY step are compared on the pairs fft64-ref~fft64-avx, ntt120-ref~ntt120-avx and fft64-ref~ntt120-ref
//! (same radices everywhere, all products inside the FFT64 magnitude domain: N * digits * 2^(2*13) < 2^50).
//!   binfhe_ops       the single-operation pipelines of c12uint.rs (key generation: blind-rotation key standard +
//!                    compressed, circuit-bootstrapping key, BDD key, their preparations; pack / encrypt / decrypt, bit and
//!                    byte extraction, splice / sext, preparation full + custom ranges, circuit bootstrapping constant +
//!                    exponent with extension factors 1 and 2, decision diagrams, selection / retrieval, blind rotations)
//!   binfhe_wordops   encrypt -> prepare (circuit bootstrapping) -> the 11 word operations -> decrypt on a boundary grid
//!   binfhe_programs  every program of depth <= 2 of c15p's 46-action menu from two starting pairs
//! Standard-form objects are compared byte for byte (raw ciphertext limbs, GGSW cells, serialised keys, decrypted
//! values). Prepared (DFT-domain) objects are backend-specific representations: they are compared through one
//! coefficient-domain operation (every bit as CMux selector on noiseless constants; keys through an operation that
//! uses them); their raw bytes are compared as well within a ref~avx pair, but a difference there alone is only counted
//! (`dft_bytes_differ`), because reference and FMA transform kernels may legitimately round the last bit differently.

use crate::c12uint::{C12Case, Outs, Uint12All, Win, glwe_out, prep_out, prep_through_cmux, run_op_w};
use crate::c15::{ALL_WOPS, Pool, Prep, alloc_word, apply_op, arena, boundary_u32, encrypt_word, garbage_scratch, op_bytes, prepare_word};
use crate::c15p::{Act, Regs, all_actions, init_regs, step};
use crate::uctx::*;
use poulpy_core::ScratchTakeCore;
use poulpy_hal::api::{ScratchOwnedAlloc, ScratchOwnedBorrow};
use poulpy_hal::layouts::{Module, Scratch, ScratchOwned};
use pvc_common::{Bk, CoreAll, FFT64Avx, FFT64Ref, HalAll, NTT120Avx, NTT120Ref, host_has_avx};
use pvc_engine::{Rec, Run, fnv, guarded};
use serde::{Deserialize, Serialize};
use serde_json::{Value, json};

pub const PAIRS: [(&str, &str); 3] = [("fft64-ref", "fft64-avx"), ("ntt120-ref", "ntt120-avx"), ("fft64-ref", "ntt120-ref")];

pub struct Pools {
    pub f: Pool<FFT64Ref>,
    pub n: Pool<NTT120Ref>,
    pub fa: Option<Pool<FFT64Avx>>,
    pub na: Option<Pool<NTT120Avx>>,
}

impl Pools {
    pub fn new(all: &[Params], ntt: &[Params]) -> Self {
        let avx = host_has_avx();
        std::thread::scope(|s| {
            let f = s.spawn(|| Pool::<FFT64Ref>::new(all));
            let n = s.spawn(|| Pool::<NTT120Ref>::new(ntt));
            let fa = s.spawn(|| if avx { Some(Pool::<FFT64Avx>::new(all)) } else { None });
            let na = s.spawn(|| if avx { Some(Pool::<NTT120Avx>::new(ntt)) } else { None });
            Pools {
                f: f.join().expect("keygen"),
                n: n.join().expect("keygen"),
                fa: fa.join().expect("keygen"),
                na: na.join().expect("keygen"),
            }
        })
    }
}

type Trace = Result<Outs, String>;

/// runs `$body` (an expression generic in the backend type `$B` and its context `$ctx`) on every backend the case wants
macro_rules! on_backends {
    ($pools:expr, $p:expr, $ntt:expr, |$B:ident, $ctx:ident| $body:expr) => {{
        let mut per: Vec<(&'static str, Trace)> = vec![];
        {
            type $B = FFT64Ref;
            let $ctx = $pools.f.get($p);
            per.push((<$B as Bk>::NAME, $body));
        }
        if let Some(pool) = &$pools.fa {
            type $B = FFT64Avx;
            let $ctx = pool.get($p);
            per.push((<$B as Bk>::NAME, $body));
        }
        if $ntt {
            {
                type $B = NTT120Ref;
                let $ctx = $pools.n.get($p);
                per.push((<$B as Bk>::NAME, $body));
            }
            if let Some(pool) = &$pools.na {
                type $B = NTT120Avx;
                let $ctx = pool.get($p);
                per.push((<$B as Bk>::NAME, $body));
            }
        }
        per
    }};
}

fn is_dft_label(l: &str) -> bool {
    l == "prepared" || l.ends_with("/prepared")
}

fn compare<C: Serialize>(per: &[(&'static str, Trace)], op: &str, case: &C, rec: &mut Rec) {
    rec.evals(per.len() as u64);
    let get = |name: &str| per.iter().find(|p| p.0 == name).map(|p| &p.1);
    if per.iter().all(|p| p.1.is_err()) {
        rec.add("panics_on_every_backend", 1);
        if std::env::var("VERIF_C10_DEBUG").is_ok() {
            eprintln!("[C10 debug] {op}: {:?}", per[0].1.as_ref().err());
        }
        return;
    }
    for (a, b) in PAIRS {
        let (Some(ra), Some(rb)) = (get(a), get(b)) else { continue };
        let pair = format!("{a}~{b}");
        let cross = a.split('-').next() != b.split('-').next();
        rec.add(&format!("pairs/{pair}"), 1);
        let fail = |rec: &mut Rec, step: usize, label: &str, extra: Value| {
            let mut d = json!({"op": op, "backend": pair, "kind": "backend_mismatch", "case": case, "inner": {"step": step, "pair": [a, b]},
                "differs": label, "cross_family": cross});
            if let (Value::Object(m), Value::Object(e)) = (&mut d, extra) {
                m.extend(e);
            }
            rec.fail(d);
        };
        match (ra, rb) {
            (Ok(oa), Ok(ob)) => {
                if oa.len() != ob.len() {
                    fail(rec, oa.len().min(ob.len()), "step_count", json!({"steps": [oa.len(), ob.len()]}));
                    continue;
                }
                rec.add("compared_steps", oa.len() as u64);
                for (i, ((la, ba), (lb, bb))) in oa.iter().zip(ob.iter()).enumerate() {
                    if la != lb {
                        fail(rec, i, la, json!({"other_label": lb}));
                        break;
                    }
                    if ba != bb {
                        if is_dft_label(la) {
                            // representation bytes: judged through the coefficient-domain observation that follows
                            rec.add(&format!("dft_bytes_differ/{pair}"), 1);
                            continue;
                        }
                        let at = ba.iter().zip(bb.iter()).position(|(x, y)| x != y);
                        fail(rec, i, la, json!({"first_differing_byte": at, "bytes": ba.len()}));
                        break;
                    } else if is_dft_label(la) {
                        rec.add(&format!("dft_bytes_equal/{pair}"), 1);
                    }
                }
            }
            (Err(e), Ok(_)) => fail(rec, 0, "panics on the first backend only", json!({"panic": e})),
            (Ok(_), Err(e)) => fail(rec, 0, "panics on the second backend only", json!({"panic": e})),
            (Err(_), Err(_)) => {}
        }
    }
    if let Some((_, Ok(o))) = per.first() {
        rec.outcome(fnv(&o.iter().flat_map(|(_, b)| b.iter().copied()).collect::<Vec<u8>>()));
    }
}

// ---------------------------------------------------------------------------------------------
// family binfhe_ops
// ---------------------------------------------------------------------------------------------

#[derive(Clone, Debug, Serialize, Deserialize)]
pub struct OpCase {
    pub c: C12Case,
    /// also executed on the NTT120 backends
    pub ntt: bool,
}

fn trace_op<B: Bk>(ctx: &Ctx<B>, c: &C12Case) -> Trace
where
    Module<B>: HalAll<B> + CoreAll<B> + UintAll<B> + Uint12All<B>,
    Scratch<B>: ScratchTakeCore<B>,
    ScratchOwned<B>: ScratchOwnedAlloc<B> + ScratchOwnedBorrow<B>,
    Prep<B, u32>: Sync,
{
    let mut c = c.clone();
    c.backend = B::NAME.into();
    run_op_w::<B>(ctx, &c, &mut Win::generous())
}

pub fn exec_op(pools: &Pools, c: &OpCase, rec: &mut Rec) {
    rec.distinct(fnv(format!("{c:?}").as_bytes()));
    rec.sample(|| serde_json::to_value(c).unwrap());
    let per = on_backends!(pools, &c.c.p, c.ntt, |B, ctx| trace_op::<B>(ctx, &c.c));
    compare(&per, &c.c.op, c, rec);
}

// ---------------------------------------------------------------------------------------------
// family binfhe_wordops
// ---------------------------------------------------------------------------------------------

#[derive(Clone, Debug, Serialize, Deserialize)]
pub struct WordCase {
    pub p: Params,
    pub a: u32,
    pub b: u32,
    pub ntt: bool,
}

fn trace_words<B: Bk>(ctx: &Ctx<B>, c: &WordCase) -> Trace
where
    Module<B>: HalAll<B> + CoreAll<B> + UintAll<B>,
    Scratch<B>: ScratchTakeCore<B>,
    ScratchOwned<B>: ScratchOwnedAlloc<B> + ScratchOwnedBorrow<B>,
{
    let mut outs: Outs = vec![];
    let mut preps = vec![];
    for (name, w, seed) in [("a", c.a, 0x71u64), ("b", c.b, 0x72)] {
        let ct = guarded(|| encrypt_word::<B, u32>(ctx, w, seed))?;
        outs.push((format!("encrypt_{name}"), glwe_out(&ct)));
        let mut s = arena::<B>(ctx, 2);
        let v = guarded(|| ct.decrypt(&ctx.module, &ctx.sk_prep, B::borrow(&mut s)))?;
        outs.push((format!("decrypt_{name}"), v.to_le_bytes().to_vec()));
        let p = prepare_word::<B, u32>(ctx, &ct, 2)?;
        outs.push((format!("prepare_{name}/prepared"), prep_out::<B, u32>(&p)));
        outs.push((format!("prepare_{name}/through_cmux"), prep_through_cmux::<B, u32>(ctx, &p)?));
        preps.push(p);
    }
    for op in ALL_WOPS {
        let mut res = alloc_word::<B, u32>(ctx, 2);
        let mut s = garbage_scratch::<B>(op_bytes::<B>(ctx, op, 1) + (1 << 16), 2);
        guarded(|| apply_op::<B, _, _>(ctx, op, &mut res, &preps[0], &preps[1], 1, B::borrow(&mut s)))?;
        outs.push((format!("{}", op.name()), glwe_out(&res)));
        let mut s = arena::<B>(ctx, 2);
        let v = guarded(|| res.decrypt(&ctx.module, &ctx.sk_prep, B::borrow(&mut s)))?;
        outs.push((format!("{}/decrypt", op.name()), v.to_le_bytes().to_vec()));
    }
    Ok(outs)
}

pub fn exec_words(pools: &Pools, c: &WordCase, rec: &mut Rec) {
    rec.distinct(fnv(format!("{c:?}").as_bytes()));
    rec.sample(|| serde_json::to_value(c).unwrap());
    let per = on_backends!(pools, &c.p, c.ntt, |B, ctx| trace_words::<B>(ctx, c));
    compare(&per, "wordops", c, rec);
}

// ---------------------------------------------------------------------------------------------
// family binfhe_programs
// ---------------------------------------------------------------------------------------------

#[derive(Clone, Debug, Serialize, Deserialize)]
pub struct ProgCase10 {
    pub p: Params,
    pub init: (u32, u32),
    /// first action (index in c15p::all_actions)
    pub first: u8,
    /// 1: the first action only; 2: followed by every action of the menu
    pub depth: usize,
    pub ntt: bool,
}

fn written<B: Bk>(ctx: &Ctx<B>, regs: &Regs<B>, act: Act, label: &str, outs: &mut Outs) -> Result<(), String>
where
    Module<B>: HalAll<B> + CoreAll<B> + UintAll<B>,
    Scratch<B>: ScratchTakeCore<B>,
    ScratchOwned<B>: ScratchOwnedAlloc<B> + ScratchOwnedBorrow<B>,
{
    match act {
        Act::Prepare(i) => {
            let p = &*regs.prep[i as usize];
            outs.push((format!("{label}/prepared"), prep_out::<B, u32>(p)));
            outs.push((format!("{label}/through_cmux"), prep_through_cmux::<B, u32>(ctx, p)?));
        }
        Act::Op2 { dst, .. } | Act::Ident { dst, .. } => {
            let ct = &*regs.ct[dst as usize];
            outs.push((format!("{label}/ct"), glwe_out(ct)));
            let mut s = arena::<B>(ctx, 2);
            let v = guarded(|| ct.decrypt(&ctx.module, &ctx.sk_prep, B::borrow(&mut s)))?;
            outs.push((format!("{label}/decrypt"), v.to_le_bytes().to_vec()));
        }
    }
    Ok(())
}

fn trace_prog<B: Bk>(ctx: &Ctx<B>, c: &ProgCase10) -> Trace
where
    Module<B>: HalAll<B> + CoreAll<B> + UintAll<B>,
    Scratch<B>: ScratchTakeCore<B>,
    ScratchOwned<B>: ScratchOwnedAlloc<B> + ScratchOwnedBorrow<B>,
{
    let acts = all_actions();
    let mut outs: Outs = vec![];
    let fmt = |e: (String, &'static str, Value)| format!("{}: {} {}", e.0, e.1, e.2);
    let r0 = init_regs::<B>(ctx, c.init, 0).map_err(fmt)?;
    for i in 0..2 {
        outs.push((format!("init/ct{i}"), glwe_out(&*r0.ct[i])));
        outs.push((format!("init/prep{i}/prepared"), prep_out::<B, u32>(&r0.prep[i])));
        outs.push((format!("init/prep{i}/through_cmux"), prep_through_cmux::<B, u32>(ctx, &r0.prep[i])?));
    }
    let a1 = acts[c.first as usize];
    let (r1, _) = step::<B>(ctx, &r0, a1, 0).map_err(fmt)?;
    written::<B>(ctx, &r1, a1, &format!("{a1:?}"), &mut outs)?;
    if c.depth >= 2 {
        for a2 in &acts {
            let (r2, _) = step::<B>(ctx, &r1, *a2, 0).map_err(fmt)?;
            written::<B>(ctx, &r2, *a2, &format!("{a1:?};{a2:?}"), &mut outs)?;
        }
    }
    Ok(outs)
}

pub fn exec_prog(pools: &Pools, c: &ProgCase10, rec: &mut Rec) {
    rec.distinct(fnv(format!("{c:?}").as_bytes()));
    rec.sample(|| serde_json::to_value(c).unwrap());
    let per = on_backends!(pools, &c.p, c.ntt, |B, ctx| trace_prog::<B>(ctx, c));
    rec.add("programs", if c.depth >= 2 { 1 + all_actions().len() as u64 } else { 1 });
    compare(&per, "program", c, rec);
}

// ---------------------------------------------------------------------------------------------
// enumeration
// ---------------------------------------------------------------------------------------------

fn base() -> Params {
    Params::suite(128)
}

pub fn op_cases(thorough: bool) -> Vec<OpCase> {
    let all = crate::c12uint::cases::<FFT64Ref>(false);
    let b = base();
    all.into_iter()
        .enumerate()
        .map(|(i, c)| {
            let key_or_cbt = c.op.contains("key") || c.op.starts_with("brk") || c.op.starts_with("cbt_execute");
            // the NTT120 backends: every case of the primary shape in thorough; in quick the key / bootstrapping cases and
            // every sixth of the others
            let ntt = c.p == b && (thorough || key_or_cbt || i % 6 == 0);
            OpCase { c, ntt }
        })
        .collect()
}

pub fn word_cases(thorough: bool, seed: u64) -> Vec<WordCase> {
    let w = boundary_u32(seed);
    let (g, gn) = if thorough { (8usize, 4usize) } else { (4, 1) };
    let mut v = vec![];
    for (i, &a) in w.iter().take(g).enumerate() {
        for (j, &b) in w.iter().take(g).enumerate() {
            v.push(WordCase {
                p: base(),
                a,
                b,
                ntt: i < gn && j < gn,
            });
        }
    }
    v
}

pub fn prog_cases(thorough: bool) -> Vec<ProgCase10> {
    let inits = [(0xAAAA_AAAAu32, 0x8000_0015u32), (1, 0xFFFF_FFFF)];
    // quick: the programs run at N = 64 (n_lwe 56; same kernels, half the cost); thorough: at the primary N = 128
    let pp = if thorough { base() } else { crate::c15::params_small(64) };
    let mut v = vec![];
    for (k, init) in inits.iter().enumerate() {
        for first in 0..all_actions().len() as u8 {
            // FFT64 backends: every program of depth <= 2 from both starting pairs; NTT120 backends: thorough only
            // (quick: their depth-1 programs from the first pair, as separate cases below)
            v.push(ProgCase10 {
                p: pp,
                init: *init,
                first,
                depth: 2,
                ntt: thorough,
            });
            if !thorough && k == 0 {
                v.push(ProgCase10 {
                    p: pp,
                    init: *init,
                    first,
                    depth: 1,
                    ntt: true,
                });
            }
        }
    }
    v
}

pub fn run(run: &mut Run) {
    run.assume("all backends receive the same seeds (secrets, encryption randomness, key generation) and the same inputs; every layout uses the same radices on every backend and every product stays inside the FFT64 magnitude domain (N <= 128, at most 12 digit rows, digits below 2^13), so the FFT64 ~ NTT120 comparison is admissible too");
    run.assume("standard-form objects are compared byte for byte; prepared (DFT-domain) words are compared through every bit used as CMux selector on noiseless constants, prepared keys through a blind rotation / bootstrapping / bit extraction that uses them; raw DFT bytes are compared as well but a difference there alone is only counted");
    if !host_has_avx() {
        run.note("avx", json!("host lacks AVX2/FMA: the pairs with an AVX backend are skipped"));
    }
    let thorough = run.tier.is_thorough();
    let seed = run.seed;
    let ops = op_cases(thorough);
    let mut all: Vec<Params> = vec![];
    let mut ntt: Vec<Params> = vec![base()];
    for c in &ops {
        if !all.contains(&c.c.p) {
            all.push(c.c.p);
        }
        if c.ntt && !ntt.contains(&c.c.p) {
            ntt.push(c.c.p);
        }
    }
    for c in prog_cases(thorough).iter().take(1) {
        if !all.contains(&c.p) {
            all.push(c.p);
            ntt.push(c.p);
        }
    }
    let pools = Pools::new(&all, &ntt);
    run.family(
        "binfhe_ops",
        "outer = the single-operation pipelines of the bin-fhe scratch check (parameter shapes: N 128 with block-binary / plain binary LWE secret, key digit size 1 | 2, with | without rank-reduction key; operations: blind-rotation key standard + compressed + prepare, circuit-bootstrapping key + prepare, BDD key + prepare, circuit bootstrapping constant + exponent (extension factor 1 | 2 = standard / extended blind rotation), FheUint encrypt / decrypt / pack / noise / get_bit_glwe / get_bit_lwe / get_byte / zero_byte / splice_u8 / splice_u16 / sext on u8 u16 u32, FheUintPrepared encrypt / decrypt / prepare through four entry points full + custom ranges, debug prepare, the 11 compiled circuits through the raw evaluator and the word-level executors, blind selection / retrieval / retriever, glwe / ggsw / scalar-to-ggsw blind rotations); executed with equal seeds on every backend (NTT120: primary shape; quick: key and bootstrapping cases + every sixth other case); every written object compared on the three backend pairs",
        ops,
        |c, rec| exec_op(&pools, c, rec),
    );
    run.family(
        "binfhe_wordops",
        "outer = (a, b) over the g x g prefix grid of the boundary words (quick 4x4, NTT120 the first pair; thorough 8x8, NTT120 4x4); steps: encrypt a, b -> decrypt -> prepare by circuit bootstrapping (DFT bytes + every bit through CMux) -> each of the 11 word operations -> decrypt; every step compared on the three backend pairs",
        word_cases(thorough, seed),
        |c, rec| exec_words(&pools, c, rec),
    );
    run.family(
        "binfhe_programs",
        "outer = (starting pair of 2, first action of the 46-action menu of the C15 program search); inner = every second action: ALL programs of depth <= 2 from two starting pairs on the FFT64 backends (quick at N = 64, thorough at N = 128) (thorough: on the NTT120 backends too; quick: NTT120 runs the depth-1 programs of the first pair); after every step the written object (ciphertext bytes + decrypted value, or the re-prepared word through CMux) is compared on the backend pairs",
        prog_cases(thorough),
        |c, rec| exec_prog(&pools, c, rec),
    );
}

/// false if the descriptor does not belong to this part
pub fn replay(run: &mut Run, d: &Value) -> bool {
    let fam = d["family"].as_str().unwrap_or("").to_string();
    if !fam.starts_with("binfhe_") {
        return false;
    }
    let p: Params = match serde_json::from_value(d["case"]["p"].clone()).or_else(|_| serde_json::from_value(d["case"]["c"]["p"].clone())) {
        Ok(p) => p,
        Err(_) => return false,
    };
    let pools = Pools::new(&[p], &[p]);
    match fam.as_str() {
        "binfhe_ops" => {
            let Ok(c) = serde_json::from_value::<OpCase>(d["case"].clone()) else { return false };
            run.single(&fam, "replay", |rec| exec_op(&pools, &c, rec));
        }
        "binfhe_wordops" => {
            let Ok(c) = serde_json::from_value::<WordCase>(d["case"].clone()) else { return false };
            run.single(&fam, "replay", |rec| exec_words(&pools, &c, rec));
        }
        "binfhe_programs" => {
            let Ok(c) = serde_json::from_value::<ProgCase10>(d["case"].clone()) else { return false };
            run.single(&fam, "replay", |rec| exec_prog(&pools, &c, rec));
        }
        _ => return false,
    }
    true
}

//! pvc-uint: checks C15, C20 and the poulpy-bin-fhe parts of the cross-cutting properties C10 and C12.  usage: pvc-uint <Cxx> --tier quick|thorough [--replay f] [--only family]

pub mod c10uint;
pub mod c12uint;
pub mod c15;
pub mod c15b;
pub mod c15p;
pub mod uctx;
pub mod c20;

use pvc_engine::{Run, load_replay, parse_args};

fn main() {
    let args = parse_args();
    macro_rules! check {
        ($level:expr, $run:path, $replay:path) => {{
            let mut run = Run::new(&args, $level);
            match &args.replay {
                Some(p) => $replay(&mut run, &load_replay(p)),
                None => $run(&mut run),
            }
            run.finish()
        }};
    }
    // part of a multi-group property: a replay descriptor of another group's family is not ours (exit code 2)
    macro_rules! part {
        ($level:expr, $run:path, $replay:path) => {{
            let mut run = Run::new(&args, $level);
            match &args.replay {
                Some(p) => {
                    if !$replay(&mut run, &load_replay(p)) {
                        std::process::exit(2);
                    }
                }
                None => $run(&mut run),
            }
            run.finish()
        }};
    }
    let code = match args.property.as_str() {
        "C10" => part!("exploration", c10uint::run, c10uint::replay),
        "C12" => part!("exploration", c12uint::run, c12uint::replay),
        "C15" => check!("model_checking", c15::run, c15::replay),
        "C20" => check!("model_checking", c20::run, c20::replay),
        o => {
            eprintln!("pvc-uint: unknown property {o}");
            2
        }
    };
    std::process::exit(code);
}

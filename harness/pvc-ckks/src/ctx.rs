//! Per-(backend, element type, parameter set) context for C16: module, key set, slot encoder, plaintext operand pool.
//!
//! Everything in here is immutable after construction and shared by all worker threads.

use std::collections::HashMap;
use std::fmt::Debug;

use num_traits::{Float, FloatConst, FromPrimitive, ToPrimitive};
use poulpy_ckks::encoding::Encoder;
use poulpy_ckks::layouts::{
    CKKSCiphertext, CKKSConstPlaintextConversion, CKKSPlaintextConversion, CKKSPlaintextCstRnx, CKKSPlaintextCstZnx,
    CKKSPlaintextVecRnx, CKKSPlaintextVecZnx,
};
use poulpy_ckks::leveled::{
    CKKSAddManyOps, CKKSAddOps, CKKSAddOpsUnsafe, CKKSAllOpsTmpBytes, CKKSDotProductOps, CKKSMulManyOps, CKKSConjugateOps, CKKSDecrypt, CKKSEncrypt, CKKSMulAddOps, CKKSMulOps, CKKSMulSubOps,
    CKKSNegOps, CKKSPlaintextZnxOps, CKKSPow2Ops, CKKSRescaleOps, CKKSRotateOps, CKKSSubOps,
};
use poulpy_ckks::oep::CKKSImpl;
use poulpy_ckks::{CKKSInfos, CKKSMeta};
use poulpy_core::layouts::prepared::GLWESecretPrepared;
use poulpy_core::layouts::{
    GLWEAutomorphismKey, GLWEAutomorphismKeyLayout, GLWEAutomorphismKeyPrepared, GLWEAutomorphismKeyPreparedFactory, GLWELayout,
    GLWESecret, GLWESecretPreparedFactory, GLWETensorKey, GLWETensorKeyLayout, GLWETensorKeyPrepared,
    GLWETensorKeyPreparedFactory, LWEInfos, Rank,
};
use poulpy_core::{EncryptionLayout, GLWEAutomorphismKeyEncryptSk, GLWETensorKeyEncryptSk, ScratchTakeCore};
use poulpy_hal::api::ScratchAvailable;
use poulpy_hal::layouts::{Backend, DeviceBuf, GaloisElement, Module, Scratch, WriterTo};
use poulpy_hal::source::Source;
use pvc_common::{Bk, CoreAll, HalAll};
use serde::{Deserialize, Serialize};

use poulpy_ckks::layouts::CKKSMaintainOps;

/// Plaintext element type of the RNX forms (the API is generic over it): f64 and f128.
pub trait Real:
    Float + FloatConst + FromPrimitive + ToPrimitive + Debug + Send + Sync + Copy + 'static
{
    const NAME: &'static str;
    /// largest log_delta this harness decodes at with this element type (the library admits mantissa+1)
    const MAX_DECODE_LD: usize;
    /// mantissa bits
    const MANT: i32;
    fn f(x: f64) -> Self {
        <Self as FromPrimitive>::from_f64(x).unwrap()
    }
    fn to64(self) -> f64 {
        <Self as ToPrimitive>::to_f64(&self).unwrap()
    }
}

impl Real for f64 {
    const NAME: &'static str = "f64";
    const MAX_DECODE_LD: usize = 50;
    const MANT: i32 = 52;
}

impl Real for f128::f128 {
    const NAME: &'static str = "f128";
    const MAX_DECODE_LD: usize = 108;
    const MANT: i32 = 112;
}

macro_rules! umbrella {
    ($name:ident<$b:ident> : $($t:path),+ $(,)?) => {
        pub trait $name<$b: Backend + CKKSImpl<$b>>: $($t +)+ Sized {}
        impl<$b: Backend + CKKSImpl<$b>, T> $name<$b> for T where T: $($t +)+ Sized {}
    };
}

umbrella!(CkksAll<B>:
    CKKSEncrypt<B>, CKKSDecrypt<B>, CKKSAddOps<B>, CKKSSubOps<B>, CKKSMulOps<B>, CKKSNegOps<B>, CKKSPow2Ops<B>,
    CKKSRotateOps<B>, CKKSConjugateOps<B>, CKKSRescaleOps<B>, CKKSMulAddOps<B>, CKKSMulSubOps<B>, CKKSMaintainOps,
    CKKSAllOpsTmpBytes<B>, CKKSPlaintextZnxOps<B>, CKKSAddManyOps<B>, CKKSMulManyOps<B>, CKKSDotProductOps<B>,
    CKKSAddOpsUnsafe<B>,
);

/// backend bound used by every generic function of this crate
pub trait Cb: Bk + CKKSImpl<Self> {}
impl<T: Bk + CKKSImpl<T>> Cb for T {}

/// A (log_delta, k) encryption starting point: the ciphertext is allocated with `k` bits and encrypted with noise at `k`.
#[derive(Clone, Copy, Debug, PartialEq, Eq, Serialize, Deserialize)]
pub struct Start {
    pub log_delta: usize,
    pub k: usize,
}

#[derive(Clone, Debug, Serialize, Deserialize, PartialEq, Eq)]
pub struct Params {
    pub name: String,
    pub n: usize,
    pub base2k: usize,
    /// precision of the largest ciphertext; keys are generated at k_max + dsize*base2k
    pub k_max: usize,
    pub dsize: usize,
    pub hw: usize,
    pub starts: Vec<Start>,
    /// (log_delta, log_budget) of plaintext operands (vector forms and constants)
    pub pt_precs: Vec<(usize, usize)>,
    /// rotation indices for which an automorphism key is supplied
    pub rot_keys: Vec<i64>,
}

impl Params {
    pub fn m(&self) -> usize {
        self.n / 2
    }
    pub fn key_k(&self) -> usize {
        self.k_max + self.dsize * self.base2k
    }
    pub fn dnum(&self) -> usize {
        self.key_k().div_ceil(self.dsize * self.base2k)
    }
    pub fn glwe_layout(&self, k: usize) -> GLWELayout {
        GLWELayout {
            n: (self.n as u32).into(),
            base2k: (self.base2k as u32).into(),
            k: (k as u32).into(),
            rank: Rank(1),
        }
    }
}

pub type Cplx<F> = (F, F);

pub struct Ctx<B: Cb, F: Real> {
    pub p: Params,
    pub module: Module<B>,
    pub sk: GLWESecretPrepared<DeviceBuf<B>, B>,
    pub tsk: GLWETensorKeyPrepared<DeviceBuf<B>, B>,
    pub atks: HashMap<i64, GLWEAutomorphismKeyPrepared<DeviceBuf<B>, B>>,
    pub conj: GLWEAutomorphismKeyPrepared<DeviceBuf<B>, B>,
    pub enc: Encoder<F>,
    /// serialised (non-prepared) forms of the evaluation keys, for cross-backend comparison (C10)
    pub key_bytes: Vec<(String, Vec<u8>)>,
    pub tsk_layout: GLWETensorKeyLayout,
    pub atk_layout: GLWEAutomorphismKeyLayout,
    pub scratch_bytes: usize,
    /// slot-vector alphabet used for encryptions and vector plaintext operands
    pub vecs: Vec<Vec<Cplx<F>>>,
    pub vec_rnx: Vec<CKKSPlaintextVecRnx<F>>,
    /// [prec][vec]
    pub vec_znx: Vec<Vec<CKKSPlaintextVecZnx<Vec<u8>>>>,
    /// vector plaintext with a different radix (base2k-1), precision pt_precs[0], vector 0
    pub vec_znx_bad: CKKSPlaintextVecZnx<Vec<u8>>,
    /// constants (re, im)
    pub consts: Vec<(Option<F>, Option<F>)>,
}

pub fn unit_vector<F: Real>(m: usize, a: f64, b: f64) -> Vec<Cplx<F>> {
    // points on the unit circle: exp(2 pi i (a*j + b) / m)   (same family as the library's test vectors)
    let tau = F::TAU();
    (0..m)
        .map(|j| {
            let t = tau * (F::f(a) * F::f(j as f64) + F::f(b)) / F::f(m as f64);
            (t.cos(), t.sin())
        })
        .collect()
}

impl<B: Cb, F: Real> Ctx<B, F>
where
    Module<B>: HalAll<B> + CoreAll<B> + CkksAll<B>,
    Scratch<B>: ScratchTakeCore<B> + ScratchAvailable,
{
    pub fn new(p: &Params, seed: u64) -> Self {
        let module = B::module(p.n);
        let m = p.m();
        let glwe_infos = EncryptionLayout::new_from_default_sigma(p.glwe_layout(p.k_max)).unwrap();
        let key_k = p.key_k();
        let dnum = p.dnum();
        let tsk_infos = EncryptionLayout::new_from_default_sigma(GLWETensorKeyLayout {
            n: (p.n as u32).into(),
            base2k: (p.base2k as u32).into(),
            k: (key_k as u32).into(),
            rank: Rank(1),
            dsize: (p.dsize as u32).into(),
            dnum: (dnum as u32).into(),
        })
        .unwrap();
        let atk_infos = EncryptionLayout::new_from_default_sigma(GLWEAutomorphismKeyLayout {
            n: (p.n as u32).into(),
            base2k: (p.base2k as u32).into(),
            k: (key_k as u32).into(),
            rank: Rank(1),
            dsize: (p.dsize as u32).into(),
            dnum: (dnum as u32).into(),
        })
        .unwrap();

        let mut sd = pvc_engine::rng::Rng::new(seed, 0xC16);
        let mut xs = Source::new(sd.seed32());
        let mut xa = Source::new(sd.seed32());
        let mut xe = Source::new(sd.seed32());

        let mut sk_raw = GLWESecret::alloc_from_infos(&glwe_infos);
        sk_raw.fill_ternary_hw(p.hw, &mut xs);
        let mut sk = module.glwe_secret_prepared_alloc_from_infos(&glwe_infos);
        module.glwe_secret_prepare(&mut sk, &sk_raw);

        let max_prec = CKKSMeta {
            log_delta: p.pt_precs.iter().map(|x| x.0).max().unwrap(),
            log_budget: p.pt_precs.iter().map(|x| x.1).max().unwrap(),
        };
        let mut scratch_bytes = module.ckks_all_ops_with_atk_tmp_bytes(&glwe_infos, &tsk_infos, &atk_infos, &max_prec);
        // decryption into plaintexts of other precisions, composite operations: ask every query we use
        scratch_bytes = scratch_bytes
            .max(module.ckks_mul_add_ct_tmp_bytes(&glwe_infos, &tsk_infos))
            .max(module.ckks_mul_sub_ct_tmp_bytes(&glwe_infos, &tsk_infos))
            .max(module.ckks_mul_add_pt_vec_rnx_tmp_bytes(&glwe_infos, &glwe_infos, &max_prec))
            .max(module.ckks_mul_sub_pt_vec_rnx_tmp_bytes(&glwe_infos, &glwe_infos, &max_prec))
            .max(module.ckks_mul_add_pt_const_tmp_bytes(&glwe_infos, &glwe_infos, &max_prec))
            .max(module.ckks_mul_sub_pt_const_tmp_bytes(&glwe_infos, &glwe_infos, &max_prec))
            .max(module.ckks_decrypt_tmp_bytes(&glwe_infos))
            .max(module.ckks_align_tmp_bytes())
            .max(module.ckks_rescale_tmp_bytes());
        scratch_bytes = 4 * scratch_bytes + (1 << 16);
        let mut scratch = B::scratch(scratch_bytes);

        let mut tsk_raw = GLWETensorKey::alloc_from_infos(&tsk_infos);
        module.glwe_tensor_key_encrypt_sk(&mut tsk_raw, &sk_raw, &tsk_infos, &mut xa, &mut xe, B::borrow(&mut scratch));
        let mut key_bytes: Vec<(String, Vec<u8>)> = vec![];
        {
            let mut v = vec![];
            tsk_raw.write_to(&mut v).expect("serialise tensor key");
            key_bytes.push(("tensor_key".into(), v));
        }
        let mut tsk = module.alloc_tensor_key_prepared_from_infos(&tsk_infos);
        module.prepare_tensor_key(&mut tsk, &tsk_raw, B::borrow(&mut scratch));

        let mut mk = |p_gal: i64| {
            let mut atk = GLWEAutomorphismKey::alloc_from_infos(&atk_infos);
            module.glwe_automorphism_key_encrypt_sk(&mut atk, p_gal, &sk_raw, &atk_infos, &mut xa, &mut xe, B::borrow(&mut scratch));
            let mut prep = module.glwe_automorphism_key_prepared_alloc_from_infos(&atk_infos);
            module.glwe_automorphism_key_prepare(&mut prep, &atk, B::borrow(&mut scratch));
            let mut v = vec![];
            atk.write_to(&mut v).expect("serialise automorphism key");
            (prep, v)
        };
        let mut atks = HashMap::new();
        for &r in &p.rot_keys {
            let (k, v) = mk(module.galois_element(r));
            atks.insert(r, k);
            key_bytes.push((format!("automorphism_key(rot {r})"), v));
        }
        let (conj, v) = mk(-1);
        key_bytes.push(("automorphism_key(conjugation)".into(), v));

        let enc = Encoder::<F>::new(m).unwrap();
        let vecs: Vec<Vec<Cplx<F>>> = vec![
            unit_vector::<F>(m, 1.0, 0.25),
            unit_vector::<F>(m, 2.5, 1.5),
            // operand for plaintext forms: modulus 3/4, not a root of unity pattern
            unit_vector::<F>(m, 3.0, 0.375)
                .into_iter()
                .map(|(r, i)| (r * F::f(0.75), i * F::f(0.75)))
                .collect(),
        ];
        let mut vec_rnx = vec![];
        for v in &vecs {
            let mut pt = CKKSPlaintextVecRnx::<F>::alloc(p.n).unwrap();
            let re: Vec<F> = v.iter().map(|c| c.0).collect();
            let im: Vec<F> = v.iter().map(|c| c.1).collect();
            enc.encode_reim(&mut pt, &re, &im).unwrap();
            vec_rnx.push(pt);
        }
        let mut vec_znx = vec![];
        for &(ld, lb) in &p.pt_precs {
            let meta = CKKSMeta {
                log_delta: ld,
                log_budget: lb,
            };
            let mut row = vec![];
            for r in &vec_rnx {
                let mut z = CKKSPlaintextVecZnx::alloc((p.n as u32).into(), (p.base2k as u32).into(), meta);
                r.to_znx(&mut z).unwrap();
                row.push(z);
            }
            vec_znx.push(row);
        }
        let vec_znx_bad = {
            let (ld, lb) = p.pt_precs[0];
            let meta = CKKSMeta {
                log_delta: ld,
                log_budget: lb,
            };
            let mut z = CKKSPlaintextVecZnx::alloc((p.n as u32).into(), ((p.base2k - 1) as u32).into(), meta);
            vec_rnx[0].to_znx(&mut z).unwrap();
            z
        };
        let consts = vec![
            (Some(F::f(0.5)), None),
            (None, Some(F::f(-0.25))),
            (Some(F::f(0.75)), Some(F::f(0.5))),
            (None, None),
        ];
        Ctx {
            p: p.clone(),
            module,
            sk,
            tsk,
            atks,
            conj,
            enc,
            key_bytes,
            tsk_layout: tsk_infos.layout,
            atk_layout: atk_infos.layout,
            scratch_bytes,
            vecs,
            vec_rnx,
            vec_znx,
            vec_znx_bad,
            consts,
        }
    }

    pub fn pt_meta(&self, prec: usize) -> CKKSMeta {
        let (ld, lb) = self.p.pt_precs[prec];
        CKKSMeta {
            log_delta: ld,
            log_budget: lb,
        }
    }

    pub fn cst_rnx(&self, c: usize) -> CKKSPlaintextCstRnx<F> {
        CKKSPlaintextCstRnx::new(self.consts[c].0, self.consts[c].1)
    }

    /// constant as complex number (absent parts are 0)
    pub fn cst_val(&self, c: usize) -> Cplx<F> {
        (self.consts[c].0.unwrap_or(F::zero()), self.consts[c].1.unwrap_or(F::zero()))
    }

    /// natural ZNX encoding of a constant (the form `mul_const` consumes)
    pub fn cst_znx_natural(&self, c: usize, prec: usize) -> CKKSPlaintextCstZnx
    where
        CKKSPlaintextCstRnx<F>: CKKSConstPlaintextConversion,
    {
        self.cst_rnx(c).to_znx((self.p.base2k as u32).into(), self.pt_meta(prec)).unwrap()
    }

    /// ZNX encoding aligned to a destination with `dst_log_budget` (the form `add_const` consumes, see the API docs)
    pub fn cst_znx_aligned(&self, c: usize, prec: usize, dst_log_budget: usize) -> CKKSPlaintextCstZnx
    where
        CKKSPlaintextCstRnx<F>: CKKSConstPlaintextConversion,
    {
        let ld = self.p.pt_precs[prec].0;
        self.cst_rnx(c).to_znx_at_k((self.p.base2k as u32).into(), dst_log_budget + ld, ld).unwrap()
    }

    /// fresh ciphertext buffer of `size` limbs, filled with garbage
    pub fn blank(&self, size: usize, which: usize) -> CKKSCiphertext<Vec<u8>> {
        let mut ct = CKKSCiphertext::alloc((self.p.n as u32).into(), ((size * self.p.base2k) as u32).into(), (self.p.base2k as u32).into());
        pvc_engine::rng::garbage(&mut ct.data_mut().data, which);
        ct
    }

    /// exact copy of a ciphertext (aligned allocation, same limb count, same metadata)
    pub fn copy_ct(&self, ct: &CKKSCiphertext<Vec<u8>>) -> CKKSCiphertext<Vec<u8>> {
        let mut c = CKKSCiphertext::alloc(ct.n(), ((ct.size() * self.p.base2k) as u32).into(), ct.base2k());
        c.data_mut().data.copy_from_slice(&ct.data().data);
        c.set_meta_checked(ct.meta()).expect("copy_ct: source metadata exceeds its own storage");
        c
    }
}

//! C16 - smoke
use crate::ctx::*;
use pvc_engine::Run;
use serde_json::Value;
use pvc_common::FFT64Ref;
use poulpy_ckks::layouts::*;
use poulpy_ckks::leveled::*;
use poulpy_ckks::{CKKSInfos, CKKSMeta};
use poulpy_core::EncryptionLayout;
use poulpy_core::layouts::LWEInfos;
use poulpy_hal::source::Source;
use pvc_common::Bk;

pub fn run(_run: &mut Run) {
    let p = Params { name: "t".into(), n: 16, base2k: 19, k_max: 152, dsize: 1, hw: 8,
        starts: vec![Start{log_delta:30,k:152}], pt_precs: vec![(30,10)], rot_keys: vec![1,3] };
    let c = Ctx::<FFT64Ref, f64>::new(&p, 0);
    println!("scratch {}", c.scratch_bytes);
    let mut s = FFT64Ref::scratch(c.scratch_bytes);
    let mut ct = c.blank(8, 0);
    let enc_infos = EncryptionLayout::new_from_default_sigma(p.glwe_layout(152)).unwrap();
    let mut xa = Source::new([1u8;32]); let mut xe = Source::new([2u8;32]);
    c.module.ckks_encrypt_sk(&mut ct, &c.vec_znx[0][0], &c.sk, &enc_infos, &mut xa, &mut xe, FFT64Ref::borrow(&mut s)).unwrap();
    println!("meta {:?} size {}", ct.meta(), ct.size());
    let mut pt = CKKSPlaintextVecZnx::alloc(16u32.into(), 19u32.into(), CKKSMeta{log_delta:30, log_budget: 8});
    c.module.ckks_decrypt(&mut pt, &ct, &c.sk, FFT64Ref::borrow(&mut s)).unwrap();
    let mut r = CKKSPlaintextVecRnx::<f64>::alloc(16).unwrap();
    r.decode_from_znx(&pt).unwrap();
    let mut re = vec![0.0;8]; let mut im = vec![0.0;8];
    c.enc.decode_reim(&r, &mut re, &mut im).unwrap();
    for j in 0..8 { println!("{j}: got ({:.9},{:.9}) want ({:.9},{:.9})", re[j], im[j], c.vecs[0][j].0, c.vecs[0][j].1); }
}

pub fn replay(_run: &mut Run, _d: &Value) {
    panic!("C16: not implemented yet");
}

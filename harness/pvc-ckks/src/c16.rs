//! C16 - CKKS evaluator tracks values and metadata through any program (engine E2: explicit-state search).
//!
//! State: register file of 3 real `CKKSCiphertext`s + R6 shadow (complex slots, error bound).  Action: one public
//! poulpy-ckks call.  Layered breadth-first search; a state is identified by its canonical abstract key
//! (depth, sorted per-register (blank, value-defined, log_delta, log_budget, size, max_size, base2k)); the first
//! state (in (parent index, action index) order - independent of thread timing) that reaches a key represents it.
//! Every transition is checked against the invariants of the property on the real objects.

use std::collections::{BTreeMap, HashMap, HashSet};
use std::sync::{Arc, Mutex};

use poulpy_ckks::CKKSInfos;
use poulpy_ckks::CKKSMeta;
use poulpy_ckks::encoding::Encoder;
use poulpy_ckks::layouts::{CKKSPlaintextConversion, CKKSPlaintextVecRnx, CKKSPlaintextVecZnx};
use poulpy_core::ScratchTakeCore;
use poulpy_core::layouts::LWEInfos;
use poulpy_hal::api::ScratchAvailable;
use poulpy_hal::layouts::{Module, Scratch};
use pvc_common::{CoreAll, FFT64Avx, FFT64Ref, HalAll, NTT120Ref, host_has_avx};
use pvc_engine::{Rec, Run, Tier, fnv, guarded};
use serde::{Deserialize, Serialize};
use serde_json::{Value, json};

use crate::ctx::{Cb, CkksAll, Cplx, Ctx, Params, Real, Start};
use crate::ops::*;

// ------------------------------------------------------------------------------------------------------------
// configuration

#[derive(Clone, Debug, Serialize, Deserialize, PartialEq, Eq)]
pub struct MenuCfg {
    pub dst_sizes: Vec<Dst>,
    /// destination sizes for ct-plaintext out-of-place forms
    pub pt_dst_sizes: Vec<Dst>,
    pub bits: Vec<u8>,
    pub rots: Vec<i8>,
    pub precs: Vec<u8>,
    pub forms: Vec<PtForm>,
    pub enc_starts: Vec<u8>,
    pub enc_vecs: Vec<u8>,
    pub consts: Vec<u8>,
    pub pt_vecs: Vec<u8>,
    /// wrong-radix plaintext operand: 0 = never, 1 = assign forms, 2 = assign and out-of-place forms
    pub badbase: u8,
    pub realloc_delta: Vec<i8>,
    /// if non-empty: keep only the actions with these operation names (narrow menus for deep chains)
    pub only_ops: Vec<String>,
    /// operand-list patterns (register indices) of add_many / mul_many / dot_product_*; empty: no composites
    pub list_patterns: Vec<Vec<u8>>,
    pub composite_sizes: Vec<Dst>,
}

#[derive(Clone, Debug, Serialize, Deserialize, PartialEq, Eq)]
pub struct SearchCfg {
    pub name: String,
    pub backend: String,
    pub elem: String,
    pub params: Params,
    pub menu: MenuCfg,
    /// starting points: each is a sequence of Encrypt actions applied to an all-blank register file
    pub inits: Vec<Vec<Action>>,
    pub depth: usize,
}

pub fn params_fft64() -> Params {
    Params {
        name: "fft64-n16-b19".into(),
        n: 16,
        base2k: 19,
        k_max: 152,
        dsize: 1,
        hw: 8,
        starts: vec![
            Start { log_delta: 30, k: 152 },
            Start { log_delta: 30, k: 100 },
            Start { log_delta: 20, k: 57 },
        ],
        pt_precs: vec![(30, 10), (12, 5)],
        rot_keys: vec![1, 2, 5],
    }
}

pub fn params_ntt120(f128: bool) -> Params {
    if f128 {
        Params {
            name: "ntt120-n16-b52-f128".into(),
            n: 16,
            base2k: 52,
            k_max: 416,
            dsize: 1,
            hw: 8,
            starts: vec![
                Start { log_delta: 80, k: 416 },
                Start { log_delta: 80, k: 300 },
                Start { log_delta: 60, k: 208 },
            ],
            pt_precs: vec![(80, 10), (30, 5)],
            rot_keys: vec![1, 2, 5],
        }
    } else {
        Params {
            name: "ntt120-n16-b52".into(),
            n: 16,
            base2k: 52,
            k_max: 312,
            dsize: 1,
            hw: 8,
            starts: vec![
                Start { log_delta: 40, k: 312 },
                Start { log_delta: 40, k: 200 },
                Start { log_delta: 30, k: 104 },
            ],
            pt_precs: vec![(40, 10), (14, 5)],
            rot_keys: vec![1, 2, 5],
        }
    }
}

pub fn inits() -> Vec<Vec<Action>> {
    vec![
        vec![
            Action::Encrypt { dst: 0, start: 0, vec: 0 },
            Action::Encrypt { dst: 1, start: 0, vec: 1 },
            Action::Encrypt { dst: 2, start: 1, vec: 0 },
        ],
        vec![
            Action::Encrypt { dst: 0, start: 1, vec: 1 },
            Action::Encrypt { dst: 1, start: 2, vec: 0 },
        ],
    ]
}

pub fn menu_cfg(p: &Params, level: u8) -> MenuCfg {
    let b = p.base2k as u8;
    let big = p.k_max.div_ceil(p.base2k) as u8;
    let m = p.m() as i8;
    match level {
        // quick
        0 => MenuCfg {
            dst_sizes: vec![Dst::Keep, Dst::Limbs((big / 3).max(1))],
            pt_dst_sizes: vec![Dst::Keep],
            bits: vec![1, b],
            rots: vec![1, 3],
            precs: vec![0],
            forms: vec![PtForm::VecZnx, PtForm::VecRnx, PtForm::CstZnx, PtForm::CstRnx],
            enc_starts: vec![0, 2],
            enc_vecs: vec![0],
            consts: vec![2, 3],
            pt_vecs: vec![2],
            badbase: 1,
            realloc_delta: vec![-1, 1],
            only_ops: vec![],
            list_patterns: vec![vec![0], vec![0, 1], vec![1, 2], vec![0, 0], vec![0, 1, 2], vec![0, 0, 1]],
            composite_sizes: vec![Dst::Keep, Dst::Limbs((big / 3).max(1))],
        },
        // narrow menu for long chains (budget exhaustion): multiplicative operations, the maintenance calls they
        // need, and a few linear ones
        2 => {
            let mut m = menu_cfg(p, 0);
            m.dst_sizes = vec![Dst::Keep];
            m.bits = vec![b];
            m.rots = vec![1];
            m.consts = vec![2];
            m.badbase = 0;
            m.list_patterns = vec![];
            m.enc_starts = vec![];
            m.only_ops = [
                "mul_ct_into", "mul_ct_assign", "square_assign", "square_into", "mul_add_ct_into", "mul_sub_ct_into",
                "compact_limbs", "rescale_assign", "align_assign", "mul_pt_vecznx_assign", "mul_pt_vecrnx_into",
                "mul_pt_cstrnx_assign", "mul_pt_cstznx_into", "mul_add_pt_vecrnx_into", "add_ct_assign", "sub_ct_into",
                "div_pow2_assign", "mul_pow2_assign", "rotate_assign", "conjugate_assign", "add_pt_cstrnx_assign",
                "sub_pt_vecznx_assign", "neg_assign",
            ]
            .iter()
            .map(|x| x.to_string())
            .collect();
            m
        }
        // thorough, full menu
        _ => MenuCfg {
            dst_sizes: vec![Dst::Keep, Dst::Limbs(1), Dst::Limbs((big / 3).max(2)), Dst::Limbs(big - 2), Dst::Limbs(big + 1)],
            pt_dst_sizes: vec![Dst::Keep, Dst::Limbs((big / 3).max(2))],
            bits: vec![1, b - 1, b, b + 1],
            rots: (0..m).collect(),
            precs: vec![0, 1],
            forms: vec![PtForm::VecZnx, PtForm::VecRnx, PtForm::CstZnx, PtForm::CstRnx],
            enc_starts: vec![0, 1, 2],
            enc_vecs: vec![0, 1],
            consts: vec![0, 1, 2, 3],
            pt_vecs: vec![2],
            badbase: 2,
            realloc_delta: vec![-1, 1],
            only_ops: vec![],
            list_patterns: vec![
                vec![0],
                vec![1],
                vec![2],
                vec![0, 0],
                vec![0, 1],
                vec![1, 0],
                vec![1, 2],
                vec![0, 2],
                vec![0, 0, 0],
                vec![0, 1, 2],
                vec![0, 0, 1],
                vec![2, 1, 0],
                vec![0, 0, 0, 0],
                vec![0, 1, 2, 0],
                vec![0, 0, 1, 1],
                vec![0, 1, 0, 1],
            ],
            composite_sizes: vec![Dst::Keep, Dst::Limbs((big / 3).max(1)), Dst::Limbs(big + 1)],
        },
    }
}

// ------------------------------------------------------------------------------------------------------------
// action menu (fixed order: in-place unary, out-of-place unary, maintenance, plaintext, ciphertext-ciphertext, encrypt)

pub fn menu<B: Cb, F: Real>(cx: &Ctx<B, F>, st: &State<F>, mc: &MenuCfg) -> Vec<Action> {
    use Action::*;
    let live: Vec<u8> = (0..NREG as u8).filter(|&i| !st.regs[i as usize].blank).collect();
    let all: Vec<u8> = (0..NREG as u8).collect();
    let b2k = cx.p.base2k;
    let dnum = cx.p.dnum();
    let mut v = vec![];
    let rescale_ks = |r: u8| -> Vec<u8> {
        let ld = st.regs[r as usize].ct.log_delta().min(255) as u8;
        let mut ks = vec![1u8, b2k as u8];
        if !ks.contains(&ld) && ld > 0 {
            ks.push(ld);
        }
        ks
    };
    let ok_size = |s: &Dst| match s {
        Dst::Keep => true,
        Dst::Limbs(n) => (*n as usize) <= dnum && *n >= 1,
    };
    // in-place unary
    for &d in &live {
        v.push(NegAssign { dst: d });
        for &bits in &mc.bits {
            v.push(MulPow2Assign { dst: d, bits });
            v.push(DivPow2Assign { dst: d, bits });
        }
        for k in rescale_ks(d) {
            v.push(RescaleAssign { dst: d, k });
        }
        for &k in &mc.rots {
            v.push(RotateAssign { dst: d, k });
        }
        v.push(ConjAssign { dst: d });
        v.push(Compact { dst: d });
        let sz = st.regs[d as usize].ct.size() as i64;
        for &dl in &mc.realloc_delta {
            let n = sz + dl as i64;
            if n >= 1 && n as usize <= dnum {
                v.push(Realloc { dst: d, size: n as u8 });
            }
        }
        v.push(SquareAssign { dst: d });
    }
    for &a in &live {
        for &b in &live {
            if a < b {
                v.push(Align { a, b });
                v.push(Align { a: b, b: a });
            }
        }
    }
    // out-of-place unary
    for &a in &live {
        for &d in &all {
            if d == a {
                continue;
            }
            v.push(CompactCopy { dst: d, a });
            for size in mc.dst_sizes.iter().copied().filter(ok_size) {
                v.push(NegInto { dst: d, size, a });
                for &bits in &mc.bits {
                    v.push(MulPow2Into { dst: d, size, a, bits });
                    v.push(DivPow2Into { dst: d, size, a, bits });
                }
                for k in rescale_ks(a) {
                    v.push(RescaleInto { dst: d, size, a, k });
                }
                for &k in &mc.rots {
                    v.push(RotateInto { dst: d, size, a, k });
                }
                v.push(ConjInto { dst: d, size, a });
                v.push(SquareInto { dst: d, size, a });
            }
        }
    }
    // ciphertext-plaintext
    let mut sels: Vec<PtSel> = vec![];
    for &form in &mc.forms {
        for &prec in &mc.precs {
            let idxs: &Vec<u8> = if matches!(form, PtForm::VecZnx | PtForm::VecRnx) { &mc.pt_vecs } else { &mc.consts };
            for &idx in idxs {
                sels.push(PtSel {
                    form,
                    prec,
                    idx,
                    badbase: false,
                });
            }
        }
    }
    let bad = PtSel {
        form: PtForm::VecZnx,
        prec: 0,
        idx: 0,
        badbase: true,
    };
    for &d in &live {
        for op in [Arith::Add, Arith::Sub, Arith::Mul] {
            for pt in &sels {
                v.push(PtAssign { op, pt: *pt, dst: d });
            }
            if mc.badbase >= 1 {
                v.push(PtAssign { op, pt: bad, dst: d });
            }
        }
    }
    for &a in &live {
        for &d in &all {
            if d == a {
                continue;
            }
            for op in [Arith::Add, Arith::Sub, Arith::Mul] {
                for size in mc.pt_dst_sizes.iter().copied().filter(ok_size) {
                    for pt in &sels {
                        v.push(PtInto { op, pt: *pt, dst: d, size, a });
                    }
                    if mc.badbase >= 2 {
                        v.push(PtInto { op, pt: bad, dst: d, size, a });
                    }
                }
            }
            if !st.regs[d as usize].blank {
                for op in [Arith::MulAdd, Arith::MulSub] {
                    for pt in &sels {
                        v.push(PtInto {
                            op,
                            pt: *pt,
                            dst: d,
                            size: Dst::Keep,
                            a,
                        });
                    }
                }
            }
        }
    }
    // ciphertext-ciphertext
    for &d in &live {
        for &a in &live {
            if a != d {
                for op in [Arith::Add, Arith::Sub, Arith::Mul] {
                    v.push(CtAssign { op, dst: d, a });
                }
            }
        }
    }
    for &d in &all {
        for &a in &live {
            for &b in &live {
                if a == d || b == d {
                    continue;
                }
                for op in [Arith::Add, Arith::Sub, Arith::Mul] {
                    for size in mc.dst_sizes.iter().copied().filter(ok_size) {
                        v.push(CtInto { op, dst: d, size, a, b });
                    }
                }
                if !st.regs[d as usize].blank {
                    for op in [Arith::MulAdd, Arith::MulSub] {
                        v.push(CtInto {
                            op,
                            dst: d,
                            size: Dst::Keep,
                            a,
                            b,
                        });
                    }
                }
            }
        }
    }
    // composite operations (operand lists over the registers; destination written through register `d`)
    {
        let pats: Vec<&Vec<u8>> = mc.list_patterns.iter().filter(|l| l.iter().all(|r| live.contains(r))).collect();
        let sizes: Vec<Dst> = mc.composite_sizes.iter().copied().filter(ok_size).collect();
        let d = (NREG - 1) as u8;
        for &size in &sizes {
            for p in &pats {
                v.push(AddMany { dst: d, size, regs: List::of(p) });
                v.push(MulMany { dst: d, size, regs: List::of(p) });
                for q in pats.iter().filter(|q| q.len() == p.len()) {
                    v.push(DotCt { dst: d, size, a: List::of(p), b: List::of(q) });
                }
                for &form in &mc.forms {
                    for &prec in &mc.precs {
                        let idx = if matches!(form, PtForm::VecZnx | PtForm::VecRnx) { mc.pt_vecs[0] } else { 0 };
                        v.push(DotPt {
                            dst: d,
                            size,
                            a: List::of(p),
                            pt: PtSel {
                                form,
                                prec,
                                idx,
                                badbase: false,
                            },
                        });
                    }
                }
            }
        }
    }
    // (re-)encryption
    for &d in &all {
        for &start in &mc.enc_starts {
            for &vec in &mc.enc_vecs {
                v.push(Encrypt { dst: d, start, vec });
            }
        }
    }
    if !mc.only_ops.is_empty() {
        v.retain(|a| mc.only_ops.contains(&a.name()));
    }
    v
}

// ------------------------------------------------------------------------------------------------------------
// failure bookkeeping: a few descriptors per class, counters for the rest

pub struct FailCtl {
    seen: Mutex<HashMap<String, u64>>,
    totals: Mutex<HashMap<String, u64>>,
    per_class: u64,
}

/// per-case local tallies (merged into the shared tables once per outer case: no lock on the hot path)
#[derive(Default)]
pub struct Local {
    pub class_counts: HashMap<String, u64>,
    pub worst: BTreeMap<String, f64>,
}

impl FailCtl {
    pub fn new(per_class: u64) -> Self {
        FailCtl {
            seen: Mutex::new(HashMap::new()),
            totals: Mutex::new(HashMap::new()),
            per_class,
        }
    }
    /// `desc` is only built when the descriptor is going to be recorded
    pub fn report(&self, rec: &mut Rec, local: &std::cell::RefCell<Local>, class: String, desc: impl FnOnce() -> Value) {
        {
            let mut l = local.borrow_mut();
            let c = l.class_counts.entry(class.clone()).or_insert(0);
            *c += 1;
            if *c > self.per_class {
                // this case alone already exceeded the quota of the class: tally only
                rec.add("failures_not_recorded_same_class", 1);
                return;
            }
        }
        let mut g = self.seen.lock().unwrap();
        let c = g.entry(class).or_insert(0);
        *c += 1;
        if *c <= self.per_class {
            drop(g);
            rec.fail(desc());
        } else {
            drop(g);
            rec.add("failures_not_recorded_same_class", 1);
        }
    }
    pub fn merge_local(&self, local: Local, worst: &Mutex<BTreeMap<String, f64>>) {
        {
            let mut g = self.totals.lock().unwrap();
            for (k, v) in local.class_counts {
                *g.entry(k).or_insert(0) += v;
            }
        }
        let mut w = worst.lock().unwrap();
        for (k, v) in local.worst {
            let x = w.entry(k).or_insert(0.0);
            if v > *x || v.is_nan() {
                *x = v;
            }
        }
    }
    pub fn classes(&self) -> BTreeMap<String, u64> {
        self.totals.lock().unwrap().iter().map(|(k, v)| (k.clone(), *v)).collect()
    }
}

pub fn squash_digits(s: &str) -> String {
    let mut out = String::new();
    let mut last_hash = false;
    for ch in s.chars() {
        if ch.is_ascii_digit() {
            if !last_hash {
                out.push('#');
            }
            last_hash = true;
        } else {
            last_hash = false;
            out.push(if ch == '\n' { ' ' } else { ch });
        }
    }
    out.chars().take(140).collect()
}

// ------------------------------------------------------------------------------------------------------------
// one transition with all invariants

pub struct StepOut<F: Real> {
    /// new contents of the changed registers when the call succeeded and every invariant held
    pub changed: Option<Vec<(usize, Reg<F>)>>,
    pub validated: bool,
}

pub struct StepEnv<'a> {
    pub cfg: &'a SearchCfg,
    pub init: usize,
    pub seed: u64,
    pub fc: &'a FailCtl,
    /// per-case tallies: failure classes, largest observed ratio (decoded error / tolerance) per operation name
    pub local: &'a std::cell::RefCell<Local>,
}

fn reg_desc<F: Real>(st: &State<F>, i: Option<u8>) -> Value {
    match i {
        Some(i) => st.regs[i as usize].describe(),
        None => Value::Null,
    }
}

fn operands(act: &Action) -> (Option<u8>, Option<u8>) {
    use Action::*;
    match *act {
        CtInto { a, b, .. } => (Some(a), Some(b)),
        CtAssign { a, .. } => (Some(a), None),
        SquareInto { a, .. } | PtInto { a, .. } | NegInto { a, .. } | MulPow2Into { a, .. } | DivPow2Into { a, .. }
        | RotateInto { a, .. } | ConjInto { a, .. } | RescaleInto { a, .. } | CompactCopy { a, .. } => (Some(a), None),
        Align { a, b } => (Some(a), Some(b)),
        _ => (None, None),
    }
}

pub fn step<B: Cb, F: Real>(
    cx: &Ctx<B, F>,
    st: &State<F>,
    act: &Action,
    depth: usize,
    scr: &mut Scr,
    rec: &mut Rec,
    env: &StepEnv,
) -> StepOut<F>
where
    Module<B>: HalAll<B> + CoreAll<B> + CkksAll<B>,
    Scratch<B>: ScratchTakeCore<B> + ScratchAvailable,
{
    let none = StepOut {
        changed: None,
        validated: false,
    };
    let pred = predict(cx, st, act);
    // scratch contents never matter: refill with the adversarial pattern before every call
    scr.fill();
    let applied = apply(cx, st, act, &pred, depth, env.seed, scr.get::<B>());
    let opname = act.name();
    let (oa, ob) = operands(act);
    let dsti = act_dst(act) as u8;
    let b2k = cx.p.base2k;
    let noncompact = sources(act).iter().any(|&i| {
        let c = &st.regs[i as usize].ct;
        c.effective_k().div_ceil(b2k) != c.size()
    });
    // classification fields for known-finding selectors
    // log_delta of the two factors of a ciphertext-ciphertext product (None for every other operation)
    let ld_equal: Option<bool> = {
        let ldr = |i: u8| st.regs[i as usize].ct.log_delta();
        match *act {
            Action::CtInto { op: Arith::Mul | Arith::MulAdd | Arith::MulSub, a, b, .. } => Some(ldr(a) == ldr(b)),
            Action::CtAssign { op: Arith::Mul, dst, a } => Some(ldr(dst) == ldr(a)),
            Action::SquareInto { .. } | Action::SquareAssign { .. } => Some(true),
            Action::MulMany { regs, .. } => Some(regs.regs().iter().all(|&i| ldr(i) == ldr(regs.regs()[0]))),
            Action::DotCt { a, b, .. } => Some(a.regs().iter().chain(b.regs()).all(|&i| ldr(i) == ldr(a.regs()[0]))),
            _ => None,
        }
    };
    let lineage_uld = ld_equal == Some(false) || sources(act).iter().any(|&i| st.regs[i as usize].lineage_uld);
    let (pt_badbase, pt_form, pt_ld, cst_limbs_exceed_dst) = match act {
        Action::PtInto { pt, .. } | Action::PtAssign { pt, .. } | Action::DotPt { pt, .. } => {
            let ldp = cx.p.pt_precs[pt.prec as usize].0;
            let dst_size = match act {
                Action::PtInto { dst, size, .. } | Action::DotPt { dst, size, .. } => dst_limbs(st, *dst, *size),
                _ => st.regs[dsti as usize].ct.size(),
            };
            let is_cst = matches!(pt.form, PtForm::CstZnx | PtForm::CstRnx);
            (pt.badbase, Some(pt.form), Some(ldp), is_cst && (pred.res_lb + ldp).div_ceil(b2k) > dst_size)
        }
        _ => (false, None, None, false),
    };
    let base = |kind: &str, extra: Value| -> Value {
        let mut trace = st.trace.clone();
        trace.push(*act);
        let mut d = json!({
            "op": opname, "backend": B::NAME, "elem": F::NAME, "kind": kind,
            "case": {"cfg": env.cfg.name, "init": env.init, "trace": trace},
            "inner": {"action": act, "depth": depth},
            "a": reg_desc(st, oa), "b": reg_desc(st, ob), "d": reg_desc(st, Some(dsti)),
            "any_src_noncompact": noncompact, "mul_operands_log_delta_equal": ld_equal,
            "lineage_has_unequal_log_delta_product": lineage_uld,
            "pt_badbase": pt_badbase, "pt_form": pt_form, "pt_log_delta": pt_ld, "const_limbs_exceed_dst": cst_limbs_exceed_dst,
            "predicted_ok": pred.ok, "predicted_errors": pred.errs,
        });
        if let (Value::Object(m), Value::Object(e)) = (&mut d, extra) {
            for (k, v) in e {
                m.insert(k, v);
            }
        }
        d
    };
    match &applied.res {
        CallRes::Panic(msg) => {
            let class = format!("{opname}|panic|{}|nc={noncompact}|bb={pt_badbase}|cl={cst_limbs_exceed_dst}", squash_digits(msg));
            env.fc.report(rec, env.local, class, || base("panic", json!({"panic": msg})));
            return none;
        }
        CallRes::Err { kind, text } => {
            if pred.ok && pred.errs.contains(kind) {
                // unspecified case: refusing with this error value is admissible
                rec.add("error_paths_confirmed", 1);
                rec.add(&format!("error_value/{kind:?}"), 1);
            } else if pred.ok {
                let class = format!("{opname}|unexpected_error|{kind:?}");
                env.fc
                    .report(rec, env.local, class, || base("unexpected_error", json!({"error_kind": kind, "error": text})));
            } else if !pred.errs.contains(kind) {
                let class = format!("{opname}|wrong_error|{kind:?}|{:?}", pred.errs);
                env.fc.report(rec, env.local, class, || base("wrong_error", json!({"error_kind": kind, "error": text})));
            } else {
                rec.add("error_paths_confirmed", 1);
                rec.add(&format!("error_value/{kind:?}"), 1);
                rec.outcome(fnv(format!("{opname}/{kind:?}").as_bytes()));
            }
            return none;
        }
        CallRes::Ok => {
            if !pred.ok {
                let class = format!("{opname}|missing_error|{:?}", pred.errs);
                let res = &applied.changed[0].1;
                env.fc.report(rec, env.local, class, || base("missing_error", json!({"res_log_delta": res.log_delta(), "res_log_budget": res.log_budget(), "res_size": res.size()})));
                return none;
            }
        }
    }
    // ---- Ok: metadata invariants on every changed register
    for (i, ct) in &applied.changed {
        let (ld, lb, mk) = (ct.log_delta(), ct.log_budget(), ct.max_k().as_usize());
        let resd = json!({"res_reg": i, "res_log_delta": ld, "res_log_budget": lb, "res_size": ct.size(), "res_max_k": mk});
        if ld > (1usize << 40) || lb > (1usize << 40) {
            let which = if ld > (1usize << 40) { "log_delta" } else { "log_budget" };
            env.fc
                .report(rec, env.local, format!("{opname}|meta_wrapped|{which}"), || base("meta_wrapped", json!({"which": which, "res": resd})));
            return none;
        }
        if ld + lb > mk {
            env.fc.report(rec, env.local, format!("{opname}|meta_exceeds_storage"), || base("meta_exceeds_storage", json!({"which": "log_delta+log_budget", "excess_bits": ld + lb - mk, "res": resd})));
            return none;
        }
        if let Some((_, pld, plb)) = pred.meta.iter().find(|x| x.0 == *i) {
            if *pld != ld || *plb != lb {
                let which = if *pld != ld { "log_delta" } else { "log_budget" };
                env.fc.report(rec, env.local, format!("{opname}|meta_mismatch|{which}"), || base("meta_mismatch", json!({"which": which, "documented": [pld, plb], "res": resd})));
                return none;
            }
        }
        if matches!(act, Action::Compact { .. } | Action::CompactCopy { .. }) && ct.size() != (ld + lb).div_ceil(b2k).max(0) {
            env.fc.report(rec, env.local, format!("{opname}|meta_mismatch|size"), || base("meta_mismatch", json!({"which": "size", "documented": (ld + lb).div_ceil(b2k), "res": resd})));
            return none;
        }
        if let Action::Realloc { size, .. } = act {
            if ct.size() != *size as usize {
                env.fc
                    .report(rec, env.local, format!("{opname}|meta_mismatch|size"), || base("meta_mismatch", json!({"which": "size", "res": resd})));
                return none;
            }
        }
    }
    // ---- Ok: the metadata describes the data
    let sh = shadow(cx, st, act, &applied.changed);
    let mut out: Vec<(usize, Reg<F>)> = vec![];
    let mut validated = false;
    for ((i, ct), (s, e)) in applied.changed.into_iter().zip(sh) {
        let lb = ct.log_budget();
        let mut s = s;
        let mut mg = 0.0f64;
        if let Some(v) = &s {
            mg = mag(v);
            // representable range of the ciphertext: |coefficients| <= |slots| < 2^(log_budget-1); keep 1 bit of margin
            if !(mg.is_finite() && e.is_finite()) || mg + e > ((lb as f64) - 2.0).exp2() {
                s = None;
                rec.add("value_left_representable_range", 1);
            }
        }
        if let Some(want) = &s {
            match observe(cx, &ct, mg.max(1e-300).log2(), scr) {
                Observed::Failed { stage, text, panic } => {
                    let kind = if panic { "panic" } else { "decrypt_failed" };
                    env.fc.report(rec, env.local, format!("{opname}|{kind}|{stage}|{}", squash_digits(&text)), || base(kind, json!({"stage": stage, "panic": text, "res": {"log_delta": ct.log_delta(), "log_budget": lb, "size": ct.size()}})));
                    return none;
                }
                Observed::Slots(got, ld_pt) => {
                    let mut worst = 0.0f64;
                    let mut at = 0usize;
                    for (j, (g, w)) in got.iter().zip(want.iter()).enumerate() {
                        let d = ((g.0 - w.0).to64().powi(2) + (g.1 - w.1).to64().powi(2)).sqrt();
                        if !(d <= worst) {
                            worst = d;
                            at = j;
                        }
                    }
                    let em = ErrModel::of(cx);
                    let tol = e + SAFETY * em.n * (-(ld_pt as f64)).exp2() + mg * ((8 - F::MANT) as f64).exp2();
                    let ratio = worst / tol;
                    {
                        let mut l = env.local.borrow_mut();
                        let x = l.worst.entry(opname.clone()).or_insert(0.0);
                        if ratio > *x || ratio.is_nan() {
                            *x = ratio;
                            if std::env::var("C16_TRACE_WORST").is_ok() && ratio > 0.3 && ratio < 2.0 {
                                eprintln!("worst {ratio:.3} {opname} err=2^{:.2} tol=2^{:.2} e=2^{:.2} trace={:?} + {:?}", worst.log2(), tol.log2(), e.log2(), &st.trace, act);
                            }
                        }
                    }
                    if !(worst <= tol) {
                        // classify: is the decoded vector the expected one times a power of two?
                        let mut scale_bits: Option<i32> = None;
                        for sb in (-24..=24).filter(|x| *x != 0) {
                            let f = (sb as f64).exp2();
                            let ok = got.iter().zip(want.iter()).all(|(g, w)| {
                                let d = ((g.0.to64() - w.0.to64() * f).powi(2) + (g.1.to64() - w.1.to64() * f).powi(2)).sqrt();
                                d <= tol * f.max(1.0) * 4.0
                            });
                            if ok {
                                scale_bits = Some(sb);
                                break;
                            }
                        }
                        let class = format!("{opname}|wrong_value|scale={scale_bits:?}|nc={noncompact}|ldeq={ld_equal:?}|lin={lineage_uld}");
                        env.fc.report(rec, env.local, class, || base(
                                "wrong_value",
                                json!({"log2_error": worst.log2(), "log2_tolerance": tol.log2(), "slot": at,
                                    "got": [got[at].0.to64(), got[at].1.to64()], "want": [want[at].0.to64(), want[at].1.to64()],
                                    "decoded_is_expected_times_2_pow": scale_bits,
                                    "res": {"log_delta": ct.log_delta(), "log_budget": lb, "size": ct.size(), "max_k": ct.max_k().as_usize()}}),
                            ));
                        return none;
                    }
                    validated = true;
                }
            }
        }
        out.push((
            i,
            Reg {
                ct,
                sh: s,
                err: e,
                blank: false,
                lineage_uld,
            },
        ));
    }
    {
        let mut v: Vec<i64> = vec![fnv(opname.as_bytes()) as i64];
        for (_, r) in &out {
            let k = r.key();
            v.extend_from_slice(&[k.valid as i64, k.ld as i64, k.lb as i64, k.size as i64]);
        }
        rec.outcome(pvc_engine::hash_i64s(&v));
    }
    StepOut {
        changed: Some(out),
        validated,
    }
}

// ------------------------------------------------------------------------------------------------------------
// the search

pub fn blank_state<B: Cb, F: Real>(cx: &Ctx<B, F>) -> State<F>
where
    Module<B>: HalAll<B> + CoreAll<B> + CkksAll<B>,
    Scratch<B>: ScratchTakeCore<B> + ScratchAvailable,
{
    let mk = || {
        Arc::new(Reg {
            ct: cx.blank(cx.p.k_max.div_ceil(cx.p.base2k), 0),
            sh: None,
            err: 0.0,
            blank: true,
            lineage_uld: false,
        })
    };
    State {
        regs: [mk(), mk(), mk()],
        trace: vec![],
    }
}

pub fn succ_state<F: Real>(st: &State<F>, act: &Action, changed: Vec<(usize, Reg<F>)>) -> State<F> {
    let mut regs = st.regs.clone();
    for (i, r) in changed {
        regs[i] = Arc::new(r);
    }
    let mut trace = st.trace.clone();
    trace.push(*act);
    State { regs, trace }
}

pub type Key = [RegKey; NREG];

pub fn succ_key<F: Real>(st: &State<F>, changed: &[(usize, Reg<F>)]) -> Key {
    let mut k: Vec<RegKey> = (0..NREG)
        .map(|i| match changed.iter().find(|c| c.0 == i) {
            Some((_, r)) => r.key(),
            None => st.regs[i].key(),
        })
        .collect();
    k.sort();
    [k[0], k[1], k[2]]
}

#[derive(Serialize)]
struct Case {
    cfg: String,
    init: usize,
    idx: usize,
    trace: Vec<Action>,
}

struct Succ<F: Real> {
    key: Key,
    act: Action,
    changed: Vec<(usize, Reg<F>)>,
}

#[derive(Clone, Debug, Default, PartialEq, Serialize)]
pub struct LayerStat {
    pub depth: usize,
    pub frontier: usize,
    pub transitions: u64,
    pub new_states: usize,
    pub key_hash: u64,
}

pub struct SearchOut {
    pub layers: Vec<LayerStat>,
    pub states: u64,
    pub transitions: u64,
    pub validated: u64,
    pub completed: bool,
}

fn hash_key(k: &Key) -> u64 {
    let mut v: Vec<i64> = Vec::with_capacity(7 * NREG);
    for r in k {
        v.extend_from_slice(&[r.blank as i64, r.valid as i64, r.ld as i64, r.lb as i64, r.size as i64, r.max_size as i64, r.base2k as i64]);
    }
    pvc_engine::hash_i64s(&v)
}

/// order-independent digest of a set of keys
fn hash_keys(keys: &[Key]) -> u64 {
    let mut h = 0u64;
    for k in keys {
        h = h.wrapping_add(hash_key(k).wrapping_mul(0x9E3779B97F4A7C15) | 1);
    }
    h
}

pub fn search<B: Cb, F: Real>(run: &mut Run, cfg: &SearchCfg, tag: &str, worst: &Mutex<BTreeMap<String, f64>>) -> SearchOut
where
    Module<B>: HalAll<B> + CoreAll<B> + CkksAll<B>,
    Scratch<B>: ScratchTakeCore<B> + ScratchAvailable,
{
    let cx = Ctx::<B, F>::new(&cfg.params, run.seed);
    let seed = run.seed;
    let mut out = SearchOut {
        layers: vec![],
        states: 0,
        transitions: 0,
        validated: 0,
        completed: true,
    };
    let fc = FailCtl::new(3);
    // ---- starting points: Encrypt prefixes, themselves checked transitions
    let mut frontier: Vec<(usize, State<F>)> = vec![];
    {
        let fam = format!("search/{}{}/init", cfg.name, tag);
        if !run.wants(&fam) {
            out.completed = false;
            return out;
        }
        let collected: Mutex<Vec<(usize, State<F>)>> = Mutex::new(vec![]);
        let cases: Vec<Case> = cfg
            .inits
            .iter()
            .enumerate()
            .map(|(i, t)| Case {
                cfg: cfg.name.clone(),
                init: i,
                idx: i,
                trace: t.clone(),
            })
            .collect();
        run.family(&fam, "each starting point = prefix of Encrypt actions on blank registers, every one a checked transition", cases, |c, rec| {
            let mut st = blank_state(&cx);
            let mut scr = Scr::new(cx.scratch_bytes);
            let local = std::cell::RefCell::new(Local::default());
            let env = StepEnv {
                cfg,
                init: c.init,
                seed,
                fc: &fc,
                local: &local,
            };
            let mut ok = true;
            for (d, a) in c.trace.iter().enumerate() {
                rec.evals(1);
                let so = step(&cx, &st, a, d, &mut scr, rec, &env);
                if so.validated {
                    rec.add("validated", 1);
                }
                match so.changed {
                    Some(ch) => st = succ_state(&st, a, ch),
                    None => {
                        ok = false;
                        break;
                    }
                }
            }
            fc.merge_local(local.into_inner(), worst);
            if ok {
                collected.lock().unwrap().push((c.init, st));
            }
        });
        let mut v = collected.into_inner().unwrap();
        v.sort_by_key(|x| x.0);
        frontier = v;
        let fr = run.families.last().unwrap();
        out.transitions += fr.rec.evaluations;
        out.validated += fr.rec.extra.get("validated").copied().unwrap_or(0);
    }
    let base_depth: Vec<usize> = cfg.inits.iter().map(|t| t.len()).collect();
    let mut seen: HashSet<(usize, Key)> = HashSet::new();
    for (_, st) in &frontier {
        seen.insert((0, succ_key(st, &[])));
    }
    out.states += frontier.len() as u64;
    for d in 0..cfg.depth {
        let last = d + 1 == cfg.depth;
        let fam = format!("search/{}{}/depth{}", cfg.name, tag, d + 1);
        let n = frontier.len();
        let slots: Vec<Mutex<Option<Vec<Succ<F>>>>> = (0..n).map(|_| Mutex::new(None)).collect();
        // last layer: only the set of abstract keys is needed (no representative is kept), collected in a sharded
        // set so that nothing per-transition stays in memory; set content is independent of thread timing
        let last_sets: Vec<Mutex<HashSet<Key>>> = (0..256).map(|_| Mutex::new(HashSet::new())).collect();
        let cases: Vec<Case> = frontier
            .iter()
            .enumerate()
            .map(|(i, (init, st))| Case {
                cfg: cfg.name.clone(),
                init: *init,
                idx: i,
                trace: st.trace.clone(),
            })
            .collect();
        let frontier_ref = &frontier;
        run.family(
            &fam,
            "outer case = one frontier state (given by its trace); inner = every action of the menu; evaluations = real library calls, each checked against the C16 invariants; distinct = abstract successor keys",
            cases,
            |c, rec| {
                let (init, st) = &frontier_ref[c.idx];
                let mut scr = Scr::new(cx.scratch_bytes);
                let local = std::cell::RefCell::new(Local::default());
                let env = StepEnv {
                    cfg,
                    init: *init,
                    seed,
                    fc: &fc,
                    local: &local,
                };
                let acts = menu(&cx, st, &cfg.menu);
                let mut succ = Vec::new();
                // successors of one state are de-duplicated here already (first action in menu order wins)
                let mut local_keys: HashSet<Key> = HashSet::new();
                let depth_abs = base_depth[*init] + d;
                for a in &acts {
                    rec.evals(1);
                    let so = step(&cx, st, a, depth_abs, &mut scr, rec, &env);
                    if so.validated {
                        rec.add("validated", 1);
                    }
                    if let Some(ch) = so.changed {
                        let key = succ_key(st, &ch);
                        if local_keys.insert(key) {
                            rec.distinct(hash_key(&key));
                            if last {
                                last_sets[(hash_key(&key) >> 20) as usize % last_sets.len()].lock().unwrap().insert(key);
                            } else {
                                succ.push(Succ {
                                    key,
                                    act: *a,
                                    changed: ch,
                                });
                            }
                        }
                    } else {
                        rec.add("no_successor(err_or_violation)", 1);
                    }
                }
                rec.sample(|| json!({"trace": c.trace, "menu_size": acts.len()}));
                fc.merge_local(local.into_inner(), worst);
                *slots[c.idx].lock().unwrap() = Some(succ);
            },
        );
        if !run.wants(&fam) {
            out.completed = false;
            return out;
        }
        let fr = run.families.last().unwrap();
        let trans = fr.rec.evaluations;
        out.transitions += trans;
        out.validated += fr.rec.extra.get("validated").copied().unwrap_or(0);
        let capped = fr.capped || fr.outer_done != fr.outer_cases;
        // deterministic merge: parents in index order, actions in menu order
        let mut next: Vec<(usize, State<F>)> = vec![];
        let mut new_keys: Vec<Key> = vec![];
        for set in last_sets {
            new_keys.extend(set.into_inner().unwrap());
        }
        for (i, slot) in slots.into_iter().enumerate() {
            let Some(list) = slot.into_inner().unwrap() else {
                continue;
            };
            for s in list {
                if seen.insert((d + 1, s.key)) {
                    new_keys.push(s.key);
                    next.push((frontier[i].0, succ_state(&frontier[i].1, &s.act, s.changed)));
                }
            }
        }
        out.states += new_keys.len() as u64;
        out.layers.push(LayerStat {
            depth: d + 1,
            frontier: n,
            transitions: trans,
            new_states: new_keys.len(),
            key_hash: hash_keys(&new_keys),
        });
        eprintln!(
            "[C16]   {}{} depth {}: frontier {} transitions {} new states {}",
            cfg.name,
            tag,
            d + 1,
            n,
            trans,
            new_keys.len()
        );
        if capped {
            out.completed = false;
            break;
        }
        frontier = next;
    }
    let classes = fc.classes();
    if !classes.is_empty() {
        run.note(&format!("failure_classes/{}{}", cfg.name, tag), json!(classes));
    }
    out
}

// ------------------------------------------------------------------------------------------------------------
// encode -> decode identity (E1), with an independent slot oracle (evaluation of the polynomial at the roots)

#[derive(Clone, Debug, Serialize, Deserialize)]
pub struct EncCase {
    pub elem: String,
    pub m: usize,
    pub base2k: usize,
    pub log_delta: usize,
    pub log_budget: usize,
    /// 0: unit real at slot j, 1: unit imaginary at slot j, 2: all ones, 3: alternating +-1, 4: unit circle,
    /// 5: constant near the magnitude limit, 6: alternating extremes, 7: single extreme at slot j (others 0)
    pub pattern: usize,
    pub j: usize,
}

fn enc_vector<F: Real>(c: &EncCase) -> Vec<Cplx<F>> {
    let m = c.m;
    // magnitude limit: the semantic width is log_delta + log_budget bits including the sign
    let lim = F::f(((c.log_budget - 1) as f64).exp2()) * F::f(0.999);
    let z = (F::zero(), F::zero());
    match c.pattern {
        0 => (0..m).map(|i| if i == c.j { (F::one(), F::zero()) } else { z }).collect(),
        1 => (0..m).map(|i| if i == c.j { (F::zero(), F::one()) } else { z }).collect(),
        2 => vec![(F::one(), F::zero()); m],
        3 => (0..m).map(|i| if i % 2 == 0 { (F::one(), F::zero()) } else { (-F::one(), F::zero()) }).collect(),
        4 => crate::ctx::unit_vector::<F>(m, 1.0, 0.25),
        5 => vec![(lim, F::zero()); m],
        6 => (0..m)
            .map(|i| {
                let s = lim / F::f(m as f64).sqrt() / F::f(2.0);
                if i % 2 == 0 { (s, -s) } else { (-s, s) }
            })
            .collect(),
        _ => (0..m).map(|i| if i == c.j { (lim * F::f(0.7), lim * F::f(0.7)) } else { z }).collect(),
    }
}

/// slot j of a real polynomial p of degree n = 2m: p(w^(5^j)), w = exp(i*pi/n)   (definition; O(n) per slot)
fn eval_slot<F: Real>(p: &[F], j: usize) -> Cplx<F> {
    let n = p.len();
    let two_n = 2 * n;
    let mut e = 1usize;
    for _ in 0..j {
        e = (e * 5) % two_n;
    }
    let mut acc = (F::zero(), F::zero());
    for (k, c) in p.iter().enumerate() {
        let t = F::PI() * F::f(((e * k) % two_n) as f64) / F::f(n as f64);
        acc = (acc.0 + *c * t.cos(), acc.1 + *c * t.sin());
    }
    acc
}

fn enc_exec<F: Real>(c: &EncCase, rec: &mut Rec) {
    let m = c.m;
    let n = 2 * m;
    let v = enc_vector::<F>(c);
    let mg = mag(&v).max(1.0);
    let re: Vec<F> = v.iter().map(|x| x.0).collect();
    let im: Vec<F> = v.iter().map(|x| x.1).collect();
    let fail = |rec: &mut Rec, kind: &str, stage: &str, extra: Value| {
        rec.fail(json!({"op": "encode_decode", "backend": "none", "elem": F::NAME, "kind": kind, "stage": stage, "case": c, "inner": extra}));
    };
    let eps = ((4 - F::MANT) as f64).exp2() * mg * (n as f64);
    let enc = match guarded(|| Encoder::<F>::new(m)) {
        Ok(Ok(e)) => e,
        Ok(Err(e)) => return fail(rec, "unexpected_error", "Encoder::new", json!({"error": e.to_string()})),
        Err(p) => return fail(rec, "panic", "Encoder::new", json!({"panic": p})),
    };
    let mut pt = CKKSPlaintextVecRnx::<F>::alloc(n).unwrap();
    for x in pt.data_mut() {
        *x = F::nan();
    }
    match guarded(|| enc.encode_reim(&mut pt, &re, &im)) {
        Ok(Ok(())) => {}
        Ok(Err(e)) => return fail(rec, "unexpected_error", "encode_reim", json!({"error": e.to_string()})),
        Err(p) => return fail(rec, "panic", "encode_reim", json!({"panic": p})),
    }
    rec.evals(1);
    // (a) the encoded polynomial takes the slot values at the roots (definition)
    for j in 0..m {
        let s = eval_slot(pt.data(), j);
        let d = ((s.0 - v[j].0).to64().powi(2) + (s.1 - v[j].1).to64().powi(2)).sqrt();
        if !(d <= eps) {
            return fail(rec, "wrong_value", "encode_reim vs evaluation at roots", json!({"slot": j, "log2_error": d.log2(), "log2_tolerance": eps.log2()}));
        }
    }
    // (b) decode(encode(v)) = v within the element type's precision
    let mut ro = vec![F::nan(); m];
    let mut io = vec![F::nan(); m];
    match guarded(|| enc.decode_reim(&pt, &mut ro, &mut io)) {
        Ok(Ok(())) => {}
        Ok(Err(e)) => return fail(rec, "unexpected_error", "decode_reim", json!({"error": e.to_string()})),
        Err(p) => return fail(rec, "panic", "decode_reim", json!({"panic": p})),
    }
    rec.evals(1);
    for j in 0..m {
        let d = ((ro[j] - v[j].0).to64().powi(2) + (io[j] - v[j].1).to64().powi(2)).sqrt();
        if !(d <= eps) {
            return fail(rec, "wrong_value", "decode_reim(encode_reim)", json!({"slot": j, "log2_error": d.log2(), "log2_tolerance": eps.log2()}));
        }
    }
    // (c) through the quantised form
    let meta = CKKSMeta {
        log_delta: c.log_delta,
        log_budget: c.log_budget,
    };
    let mut z = CKKSPlaintextVecZnx::alloc((n as u32).into(), (c.base2k as u32).into(), meta);
    pvc_engine::rng::garbage(&mut z.data_mut().data, 0);
    match guarded(|| pt.to_znx(&mut z)) {
        Ok(Ok(())) => {}
        Ok(Err(e)) => return fail(rec, "unexpected_error", "to_znx", json!({"error": e.to_string()})),
        Err(p) => return fail(rec, "panic", "to_znx", json!({"panic": p})),
    }
    let mut back = CKKSPlaintextVecRnx::<F>::alloc(n).unwrap();
    match guarded(|| back.decode_from_znx(&z)) {
        Ok(Ok(())) => {}
        Ok(Err(e)) => return fail(rec, "unexpected_error", "decode_from_znx", json!({"error": e.to_string()})),
        Err(p) => return fail(rec, "panic", "decode_from_znx", json!({"panic": p})),
    }
    enc.decode_reim(&back, &mut ro, &mut io).unwrap();
    rec.evals(1);
    let tol = (n as f64) * 0.5 * (-(c.log_delta as f64)).exp2() * 1.01 + eps;
    let mut worst = 0.0f64;
    for j in 0..m {
        let d = ((ro[j] - v[j].0).to64().powi(2) + (io[j] - v[j].1).to64().powi(2)).sqrt();
        if !(d <= tol) {
            return fail(rec, "wrong_value", "decode(quantise(encode))", json!({"slot": j, "log2_error": d.log2(), "log2_tolerance": tol.log2()}));
        }
        worst = worst.max(d);
    }
    rec.distinct(fnv(format!("{}/{}/{}/{}", c.m, c.log_delta, c.log_budget, c.pattern).as_bytes()));
    rec.outcome(fnv(&worst.to_bits().to_le_bytes()));
}

fn enc_cases(tier: Tier) -> Vec<EncCase> {
    let mut v = vec![];
    let ms: Vec<usize> = if tier.is_thorough() { vec![1, 2, 4, 8, 16, 64] } else { vec![4, 8] };
    for elem in ["f64", "f128"] {
        for &m in &ms {
            let precs: Vec<(usize, usize, usize)> = if elem == "f64" {
                vec![(19, 30, 10), (19, 20, 8), (19, 40, 30), (52, 40, 12), (52, 50, 60), (17, 12, 5)]
            } else {
                vec![(52, 80, 30), (52, 40, 12), (19, 30, 10), (52, 100, 20), (52, 60, 60)]
            };
            for (b, ld, lb) in precs {
                for pattern in 0..8 {
                    let js: Vec<usize> = if matches!(pattern, 0 | 1 | 7) { (0..m).collect() } else { vec![0] };
                    for j in js {
                        v.push(EncCase {
                            elem: elem.into(),
                            m,
                            base2k: b,
                            log_delta: ld,
                            log_budget: lb,
                            pattern,
                            j,
                        });
                    }
                }
            }
        }
    }
    v
}

fn enc_dispatch(c: &EncCase, rec: &mut Rec) {
    if c.elem == "f64" { enc_exec::<f64>(c, rec) } else { enc_exec::<f128::f128>(c, rec) }
}

// ------------------------------------------------------------------------------------------------------------
// entry points

fn configs(tier: Tier) -> Vec<SearchCfg> {
    let mut v = vec![];
    let pf = params_fft64();
    match tier {
        Tier::Quick => {
            v.push(SearchCfg {
                name: "fft64/f64/quick".into(),
                backend: "fft64-ref".into(),
                elem: "f64".into(),
                menu: menu_cfg(&pf, 0),
                params: pf,
                inits: inits(),
                depth: 3,
            });
        }
        Tier::Thorough => {
            let pn = params_ntt120(false);
            let pq = params_ntt120(true);
            let mut add = |name: &str, backend: &str, elem: &str, p: &Params, level: u8, depth: usize| {
                v.push(SearchCfg {
                    name: name.into(),
                    backend: backend.into(),
                    elem: elem.into(),
                    menu: menu_cfg(p, level),
                    params: p.clone(),
                    inits: inits(),
                    depth,
                });
            };
            // full menu (all destination sizes, all shift amounts, every rotation index, both plaintext precisions)
            add("fft64/f64/full", "fft64-ref", "f64", &pf, 1, 3);
            add("ntt120/f64/full", "ntt120-ref", "f64", &pn, 1, 3);
            // reduced menu, deeper
            add("fft64/f64/deep", "fft64-ref", "f64", &pf, 0, 4);
            add("ntt120/f64/deep", "ntt120-ref", "f64", &pn, 0, 4);
            add("ntt120/f128/deep", "ntt120-ref", "f128", &pq, 0, 4);
            // narrow menu, long chains: down to exhaustion of the budget of every starting point
            add("fft64/f64/chain", "fft64-ref", "f64", &pf, 2, 7);
            add("ntt120/f128/chain", "ntt120-ref", "f128", &pq, 2, 6);
            if host_has_avx() {
                add("fft64avx/f64/deep", "fft64-avx", "f64", &pf, 0, 3);
            }
        }
    }
    v
}

fn dispatch_search(run: &mut Run, cfg: &SearchCfg, tag: &str, worst: &Mutex<BTreeMap<String, f64>>) -> SearchOut {
    match (cfg.backend.as_str(), cfg.elem.as_str()) {
        ("fft64-ref", "f64") => search::<FFT64Ref, f64>(run, cfg, tag, worst),
        ("fft64-ref", "f128") => search::<FFT64Ref, f128::f128>(run, cfg, tag, worst),
        ("ntt120-ref", "f64") => search::<NTT120Ref, f64>(run, cfg, tag, worst),
        ("ntt120-ref", "f128") => search::<NTT120Ref, f128::f128>(run, cfg, tag, worst),
        ("fft64-avx", "f64") => search::<FFT64Avx, f64>(run, cfg, tag, worst),
        (b, e) => panic!("unsupported backend/element combination {b}/{e}"),
    }
}

pub fn run(run: &mut Run) {
    run.assume("all ciphertexts of one search share n=16 and one base2k (mixed radices are exercised only through a vector plaintext operand of radix base2k-1); rank 1; secret ternary with hamming weight n/2");
    run.assume("a register is used as an operand only if it holds a ciphertext produced by a successful call; after Err/panic nothing is demanded of the destination and no successor state is generated");
    run.assume("values are compared only while |slot| + error < 2^(log_budget-2) (representable range of the ciphertext); beyond that the register keeps being used for the metadata / no-panic / error-value invariants only");
    run.assume("constants for add/sub_pt_const_znx are encoded with to_znx_at_k at k = destination log_budget + log_delta, as the API documentation requires; constants for mul use to_znx");
    run.assume("destination limb counts stay <= dnum of the evaluation keys; rotation index k is looked up in the key map by k itself (keys supplied for k in {1,2,5})");
    run.assume("tolerance = accumulated worst-case bound (slot domain): fresh encryption N*(0.5+20)*2^-ld, each result truncation N*(N+1)*2^(lb-max_k), each key switch N^2*dnum*2^(b-1)*20*2^(lb-k_key), products |a|E_b+|b|E_a+E_aE_b where a ciphertext operand's error includes N*(N+1)*2^-ld (products consume operands down to their effective precision only), plaintext quantisation N/2*2^-ld_pt; all fresh terms times 4; observed error/tolerance maxima are reported per operation");
    run.assume("observation: ckks_decrypt into a plaintext of (log_delta = finest the element type admits, log_budget = what the shadow magnitude needs), decode_from_znx, decode_reim; the position of the value depends on the ciphertext's log_budget only, so a budget or scale off by one bit is a factor-2 value error");
    run.assume("state key = depth + sorted per-register (blank, value-defined, log_delta, log_budget, size, max_size, base2k): registers are interchangeable, every branch of poulpy-ckks depends on these integers only; the first state reaching a key in (parent index, action index) order represents it; the last layer is checked but not expanded");
    // ---- encode/decode identity
    run.family(
        "encode_decode",
        "element type x slots m x (base2k, log_delta, log_budget) x vector pattern (units, all-ones, alternating, unit circle, extremes near the magnitude limit); three checks per case",
        enc_cases(run.tier),
        enc_dispatch,
    );
    // ---- program search
    let worst = Mutex::new(BTreeMap::new());
    let mut summary = vec![];
    for cfg in configs(run.tier) {
        let o = dispatch_search(run, &cfg, "", &worst);
        run.states += o.states;
        run.transitions += o.transitions;
        run.traces_validated += o.validated;
        summary.push(json!({"cfg": cfg.name, "depth": cfg.depth, "states": o.states, "transitions": o.transitions,
            "validated": o.validated, "completed": o.completed, "layers": o.layers}));
        // determinism: re-run one layer less and compare the shared layers (counts and key hashes)
        if o.completed && cfg.depth >= 2 && run.only.is_none() {
            let mut c2 = cfg.clone();
            c2.depth = (cfg.depth - 1).min(3);
            let o2 = dispatch_search(run, &c2, "/rerun", &worst);
            let same = o2.layers.iter().zip(o.layers.iter()).all(|(x, y)| x == y);
            let name = format!("determinism/{}", cfg.name);
            run.single(&name, "layers of a second run (depth min(d-1,3)) equal those of the first: frontier, transitions, new states, key hash", |rec| {
                rec.evals(1);
                if !same {
                    rec.fail(json!({"op": "search", "backend": cfg.backend, "kind": "nondeterministic", "case": {"cfg": cfg.name},
                        "inner": {"first": o.layers, "second": o2.layers}}));
                }
            });
        }
    }
    run.note("search_summary", json!(summary));
    let w: BTreeMap<String, f64> = worst.into_inner().unwrap();
    run.note("worst_error_over_tolerance_per_op", json!(w));
    run.note("ring", json!({"n": 16, "slots": 8, "note": "N=16 (8 slots) is admitted by the encoder and by both backend families; used for every search"}));
}

fn replay_on<B: Cb, F: Real>(run: &mut Run, cfg: &SearchCfg, init: usize, trace: &[Action])
where
    Module<B>: HalAll<B> + CoreAll<B> + CkksAll<B>,
    Scratch<B>: ScratchTakeCore<B> + ScratchAvailable,
{
    let cx = Ctx::<B, F>::new(&cfg.params, run.seed);
    let fc = FailCtl::new(1000);
    let local = std::cell::RefCell::new(Local::default());
    let seed = run.seed;
    run.single("replay", "re-executes the recorded trace with every check", |rec| {
        let mut st = blank_state(&cx);
        let mut scr = Scr::new(cx.scratch_bytes);
        let env = StepEnv {
            cfg,
            init,
            seed,
            fc: &fc,
            local: &local,
        };
        for (d, a) in trace.iter().enumerate() {
            rec.evals(1);
            for s in sources(a) {
                if st.regs[s as usize].blank {
                    panic!("replay: action {a:?} reads blank register {s}");
                }
            }
            let so = step(&cx, &st, a, d, &mut scr, rec, &env);
            eprintln!(
                "[C16] replay step {d}: {a:?} -> {}",
                match &so.changed {
                    Some(ch) => format!("ok {}", ch.iter().map(|(i, r)| format!("r{i}={}", r.describe())).collect::<Vec<_>>().join(" ")),
                    None => "no successor (error value or violation)".into(),
                }
            );
            match so.changed {
                Some(ch) => st = succ_state(&st, a, ch),
                None => break,
            }
        }
    });
}

pub fn replay(run: &mut Run, d: &Value) {
    if d["op"].as_str() == Some("encode_decode") {
        let c: EncCase = serde_json::from_value(d["case"].clone()).expect("replay: bad encode_decode case");
        run.single("encode_decode", "replay", |rec| enc_dispatch(&c, rec));
        return;
    }
    let name = d["case"]["cfg"].as_str().expect("replay: case.cfg").to_string();
    let init = d["case"]["init"].as_u64().unwrap_or(0) as usize;
    let trace: Vec<Action> = serde_json::from_value(d["case"]["trace"].clone()).expect("replay: case.trace");
    let cfg = configs(Tier::Quick)
        .into_iter()
        .chain(configs(Tier::Thorough))
        .find(|c| c.name == name)
        .unwrap_or_else(|| panic!("replay: unknown configuration {name}"));
    match (cfg.backend.as_str(), cfg.elem.as_str()) {
        ("fft64-ref", "f64") => replay_on::<FFT64Ref, f64>(run, &cfg, init, &trace),
        ("ntt120-ref", "f64") => replay_on::<NTT120Ref, f64>(run, &cfg, init, &trace),
        ("ntt120-ref", "f128") => replay_on::<NTT120Ref, f128::f128>(run, &cfg, init, &trace),
        ("fft64-avx", "f64") => replay_on::<FFT64Avx, f64>(run, &cfg, init, &trace),
        (b, e) => panic!("unsupported backend/element combination {b}/{e}"),
    }
}


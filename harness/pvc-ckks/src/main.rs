//! pvc-ckks: check C16 and the CKKS parts of the cross-cutting properties C10 and C12.
//! usage: pvc-ckks <Cxx> --tier quick|thorough [--replay f] [--only family]

pub mod c10ckks;
pub mod c12ckks;
pub mod c16;
pub mod ctx;
pub mod ops;

use pvc_engine::{Run, load_replay, parse_args};

fn main() {
    let args = parse_args();
    macro_rules! check {
        ($level:expr, $run:path, $replay:path) => {{
            let mut run = Run::new(&args, $level);
            match &args.replay {
                Some(p) => $replay(&mut run, &load_replay(p)),
                None => $run(&mut run),
            }
            run.finish()
        }};
    }
    // part of a multi-group property: a replay descriptor of another group's family is not ours (exit code 2)
    macro_rules! part {
        ($level:expr, $run:path, $replay:path) => {{
            let mut run = Run::new(&args, $level);
            match &args.replay {
                Some(p) => {
                    if !$replay(&mut run, &load_replay(p)) {
                        std::process::exit(2);
                    }
                }
                None => $run(&mut run),
            }
            run.finish()
        }};
    }
    let code = match args.property.as_str() {
        "C16" => check!("model_checking", c16::run, c16::replay),
        "C10" => part!("exploration", c10ckks::run, c10ckks::replay),
        "C12" => part!("exploration", c12ckks::run, c12ckks::replay),
        o => {
            eprintln!("pvc-ckks: unknown property {o}");
            2
        }
    };
    std::process::exit(code);
}

//! C16 transition system: actions (one public poulpy-ckks call each), their execution on the real library,
//! the R6 shadow evaluation (complex numbers + explicit error budget) and the success/error prediction.

use std::sync::Arc;

use poulpy_ckks::layouts::{
    CKKSCiphertext, CKKSMaintainOps, CKKSPlaintextConversion, CKKSPlaintextVecRnx, CKKSPlaintextVecZnx,
};
use poulpy_ckks::leveled::{
    CKKSAddManyOps, CKKSAddOps, CKKSConjugateOps, CKKSDotProductOps, CKKSMulManyOps, CKKSDecrypt, CKKSEncrypt, CKKSMulAddOps, CKKSMulOps, CKKSMulSubOps, CKKSNegOps, CKKSPow2Ops,
    CKKSRescaleOps, CKKSRotateOps, CKKSSubOps,
};
use poulpy_ckks::{CKKSCompositionError, CKKSInfos, CKKSMeta};
use poulpy_core::layouts::LWEInfos;
use poulpy_core::{EncryptionLayout, ScratchTakeCore};
use poulpy_hal::api::ScratchAvailable;
use poulpy_hal::layouts::{Module, Scratch};
use poulpy_hal::source::Source;
use pvc_common::{CoreAll, HalAll};
use pvc_engine::guarded;
use serde::{Deserialize, Serialize};
use serde_json::{Value, json};

use crate::ctx::{Cb, CkksAll, Cplx, Ctx, Real};

pub const NREG: usize = 3;

/// 64-byte aligned scratch arena owned by the harness, refilled with the adversarial pattern before every call
pub struct Scr {
    buf: Vec<u8>,
}

impl Scr {
    pub fn new(bytes: usize) -> Self {
        Scr {
            buf: poulpy_hal::alloc_aligned::<u8>(bytes.next_multiple_of(64) + 64),
        }
    }
    pub fn fill(&mut self) {
        let w = pvc_engine::rng::GARBAGE_NAN.to_le_bytes();
        for c in self.buf.chunks_exact_mut(8) {
            c.copy_from_slice(&w);
        }
    }
    pub fn get<B: Cb>(&mut self) -> &mut Scratch<B> {
        B::scratch_from_bytes(&mut self.buf)
    }
}

#[derive(Clone, Copy, Debug, PartialEq, Eq, Hash, Serialize, Deserialize)]
pub enum Arith {
    Add,
    Sub,
    Mul,
    MulAdd,
    MulSub,
}

#[derive(Clone, Copy, Debug, PartialEq, Eq, Hash, Serialize, Deserialize)]
pub enum PtForm {
    VecZnx,
    VecRnx,
    CstZnx,
    CstRnx,
}

/// plaintext operand selector: precision index, vector/constant index, wrong-radix variant (VecZnx only)
#[derive(Clone, Copy, Debug, PartialEq, Eq, Hash, Serialize, Deserialize)]
pub struct PtSel {
    pub form: PtForm,
    pub prec: u8,
    pub idx: u8,
    pub badbase: bool,
}

/// destination of an out-of-place call: the register's existing buffer size, or a fresh buffer of `n` limbs
#[derive(Clone, Copy, Debug, PartialEq, Eq, Hash, Serialize, Deserialize)]
pub enum Dst {
    Keep,
    Limbs(u8),
}

/// operand list of a composite operation: up to 4 registers (repetitions allowed)
#[derive(Clone, Copy, Debug, PartialEq, Eq, Hash, Serialize, Deserialize)]
pub struct List {
    pub n: u8,
    pub r: [u8; 4],
}

impl List {
    pub fn of(v: &[u8]) -> Self {
        let mut r = [0u8; 4];
        r[..v.len()].copy_from_slice(v);
        List { n: v.len() as u8, r }
    }
    pub fn regs(&self) -> &[u8] {
        &self.r[..self.n as usize]
    }
}

/// constant used as weight of term i of a dot product with constants
pub const CST_ROT: [u8; 4] = [2, 0, 1, 2];

#[derive(Clone, Copy, Debug, PartialEq, Eq, Hash, Serialize, Deserialize)]
pub enum Action {
    Encrypt { dst: u8, start: u8, vec: u8 },
    CtInto { op: Arith, dst: u8, size: Dst, a: u8, b: u8 },
    CtAssign { op: Arith, dst: u8, a: u8 },
    SquareInto { dst: u8, size: Dst, a: u8 },
    SquareAssign { dst: u8 },
    PtInto { op: Arith, pt: PtSel, dst: u8, size: Dst, a: u8 },
    PtAssign { op: Arith, pt: PtSel, dst: u8 },
    NegInto { dst: u8, size: Dst, a: u8 },
    NegAssign { dst: u8 },
    MulPow2Into { dst: u8, size: Dst, a: u8, bits: u8 },
    MulPow2Assign { dst: u8, bits: u8 },
    DivPow2Into { dst: u8, size: Dst, a: u8, bits: u8 },
    DivPow2Assign { dst: u8, bits: u8 },
    RotateInto { dst: u8, size: Dst, a: u8, k: i8 },
    RotateAssign { dst: u8, k: i8 },
    ConjInto { dst: u8, size: Dst, a: u8 },
    ConjAssign { dst: u8 },
    RescaleInto { dst: u8, size: Dst, a: u8, k: u8 },
    RescaleAssign { dst: u8, k: u8 },
    Align { a: u8, b: u8 },
    Compact { dst: u8 },
    CompactCopy { dst: u8, a: u8 },
    Realloc { dst: u8, size: u8 },
    AddMany { dst: u8, size: Dst, regs: List },
    MulMany { dst: u8, size: Dst, regs: List },
    DotCt { dst: u8, size: Dst, a: List, b: List },
    /// weights: the vector `pt.idx` for every term (vector forms) or the constants CST_ROT[i] (constant forms)
    DotPt { dst: u8, size: Dst, a: List, pt: PtSel },
}

impl Action {
    pub fn name(&self) -> String {
        use Action::*;
        let pt = |p: &PtSel| format!("{:?}", p.form).to_lowercase();
        let ar = |o: &Arith| match o {
            Arith::Add => "add",
            Arith::Sub => "sub",
            Arith::Mul => "mul",
            Arith::MulAdd => "mul_add",
            Arith::MulSub => "mul_sub",
        };
        match self {
            Encrypt { .. } => "encrypt_sk".into(),
            CtInto { op, .. } => format!("{}_ct_into", ar(op)),
            CtAssign { op, .. } => format!("{}_ct_assign", ar(op)),
            SquareInto { .. } => "square_into".into(),
            SquareAssign { .. } => "square_assign".into(),
            PtInto { op, pt: p, .. } => format!("{}_pt_{}_into", ar(op), pt(p)),
            PtAssign { op, pt: p, .. } => format!("{}_pt_{}_assign", ar(op), pt(p)),
            NegInto { .. } => "neg_into".into(),
            NegAssign { .. } => "neg_assign".into(),
            MulPow2Into { .. } => "mul_pow2_into".into(),
            MulPow2Assign { .. } => "mul_pow2_assign".into(),
            DivPow2Into { .. } => "div_pow2_into".into(),
            DivPow2Assign { .. } => "div_pow2_assign".into(),
            RotateInto { .. } => "rotate_into".into(),
            RotateAssign { .. } => "rotate_assign".into(),
            ConjInto { .. } => "conjugate_into".into(),
            ConjAssign { .. } => "conjugate_assign".into(),
            RescaleInto { .. } => "rescale_into".into(),
            RescaleAssign { .. } => "rescale_assign".into(),
            Align { .. } => "align_assign".into(),
            Compact { .. } => "compact_limbs".into(),
            CompactCopy { .. } => "compact_limbs_copy".into(),
            Realloc { .. } => "reallocate_limbs_checked".into(),
            AddMany { .. } => "add_many".into(),
            MulMany { .. } => "mul_many".into(),
            DotCt { .. } => "dot_product_ct".into(),
            DotPt { pt: p, .. } => format!("dot_product_pt_{}", pt(p)),
        }
    }
}

/// One register: a real ciphertext, its shadow slots (None: the value left the representable range or was never
/// defined, only metadata/no-panic invariants are checked downstream) and the accumulated error bound (slot domain).
pub struct Reg<F: Real> {
    pub ct: CKKSCiphertext<Vec<u8>>,
    pub sh: Option<Vec<Cplx<F>>>,
    pub err: f64,
    pub blank: bool,
    /// classification only (not part of the state key): some ancestor of this value is a ciphertext-ciphertext
    /// product of operands with unequal log_delta
    pub lineage_uld: bool,
}

pub struct State<F: Real> {
    pub regs: [Arc<Reg<F>>; NREG],
    pub trace: Vec<Action>,
}

#[derive(Clone, Copy, Debug, PartialEq, Eq, Hash, PartialOrd, Ord)]
pub struct RegKey {
    pub blank: bool,
    pub valid: bool,
    pub ld: u64,
    pub lb: u64,
    pub size: u32,
    pub max_size: u32,
    pub base2k: u32,
}

impl<F: Real> Reg<F> {
    pub fn key(&self) -> RegKey {
        RegKey {
            blank: self.blank,
            valid: self.sh.is_some(),
            ld: if self.blank { 0 } else { self.ct.log_delta() as u64 },
            lb: if self.blank { 0 } else { self.ct.log_budget() as u64 },
            size: self.ct.size() as u32,
            max_size: self.ct.data().max_size() as u32,
            base2k: self.ct.base2k().as_u32(),
        }
    }
    pub fn mag(&self) -> f64 {
        mag(self.sh.as_ref().map(|v| v.as_slice()).unwrap_or(&[]))
    }
    pub fn describe(&self) -> Value {
        if self.blank {
            json!({"blank": true, "size": self.ct.size()})
        } else {
            json!({"log_delta": self.ct.log_delta(), "log_budget": self.ct.log_budget(), "size": self.ct.size(),
                "max_k": self.ct.max_k().as_usize(), "valid": self.sh.is_some(),
                "compact": self.ct.effective_k().div_ceil(self.ct.base2k().as_usize()) == self.ct.size(),
                "log2_mag": self.mag().log2(), "log2_err": self.err.log2()})
        }
    }
}

pub fn mag<F: Real>(v: &[Cplx<F>]) -> f64 {
    v.iter().map(|c| (c.0.to64().powi(2) + c.1.to64().powi(2)).sqrt()).fold(0.0, f64::max)
}

// ------------------------------------------------------------------------------------------------------------
// error classification

#[derive(Clone, Copy, Debug, PartialEq, Eq, Hash, Serialize, Deserialize)]
pub enum EK {
    Capacity,
    MulUnderflow,
    Base2K,
    Alignment,
    MissingKey,
    Realloc,
    Other,
}

pub fn variant_kind(e: &CKKSCompositionError) -> EK {
    match e {
        CKKSCompositionError::LimbReallocationShrinksBelowMetadata { .. } => EK::Realloc,
        CKKSCompositionError::InsufficientHomomorphicCapacity { .. } => EK::Capacity,
        CKKSCompositionError::PlaintextBase2KMismatch { .. } => EK::Base2K,
        CKKSCompositionError::MissingAutomorphismKey { .. } => EK::MissingKey,
        CKKSCompositionError::PlaintextAlignmentImpossible { .. } => EK::Alignment,
        CKKSCompositionError::MultiplicationPrecisionUnderflow { .. } => EK::MulUnderflow,
    }
}

#[derive(Clone, Debug)]
pub enum CallRes {
    Ok,
    Err { kind: EK, text: String },
    Panic(String),
}

fn conv(r: Result<anyhow::Result<()>, String>) -> CallRes {
    match r {
        Ok(Ok(())) => CallRes::Ok,
        Ok(Err(e)) => CallRes::Err {
            kind: e.downcast_ref::<CKKSCompositionError>().map(variant_kind).unwrap_or(EK::Other),
            text: e.to_string(),
        },
        Err(p) => CallRes::Panic(p),
    }
}

/// What the documented algebra says about the call: success, or the acceptable error variants.
#[derive(Clone, Debug)]
pub struct Pred {
    pub ok: bool,
    pub errs: Vec<EK>,
    /// documented result metadata (only where the API documentation states it), per changed register
    pub meta: Vec<(usize, usize, usize)>,
    /// destination log_budget the algebra gives (used to align constants for add_const_znx)
    pub res_lb: usize,
}

fn m_of<F: Real>(r: &Reg<F>) -> (usize, usize, usize, usize) {
    (r.ct.log_delta(), r.ct.log_budget(), r.ct.effective_k(), r.ct.max_k().as_usize())
}

pub fn dst_limbs<F: Real>(st: &State<F>, dst: u8, size: Dst) -> usize {
    match size {
        Dst::Keep => st.regs[dst as usize].ct.size(),
        Dst::Limbs(n) => n as usize,
    }
}

/// registers read as ciphertext operands (must hold a ciphertext)
pub fn sources(a: &Action) -> Vec<u8> {
    use Action::*;
    match *a {
        Encrypt { .. } => vec![],
        CtInto { op, dst, a, b, .. } => {
            if matches!(op, Arith::MulAdd | Arith::MulSub) {
                vec![dst, a, b]
            } else {
                vec![a, b]
            }
        }
        CtAssign { dst, a, .. } => vec![dst, a],
        SquareInto { a, .. } => vec![a],
        SquareAssign { dst } => vec![dst],
        PtInto { op, dst, a, .. } => {
            if matches!(op, Arith::MulAdd | Arith::MulSub) {
                vec![dst, a]
            } else {
                vec![a]
            }
        }
        PtAssign { dst, .. } => vec![dst],
        NegInto { a, .. } | MulPow2Into { a, .. } | DivPow2Into { a, .. } | RotateInto { a, .. } | ConjInto { a, .. }
        | RescaleInto { a, .. } | CompactCopy { a, .. } => vec![a],
        NegAssign { dst } | MulPow2Assign { dst, .. } | DivPow2Assign { dst, .. } | RotateAssign { dst, .. } | ConjAssign { dst }
        | RescaleAssign { dst, .. } | Compact { dst } | Realloc { dst, .. } => vec![dst],
        Align { a, b } => vec![a, b],
        AddMany { regs, .. } | MulMany { regs, .. } => regs.regs().to_vec(),
        DotCt { a, b, .. } => a.regs().iter().chain(b.regs()).copied().collect(),
        DotPt { a, .. } => a.regs().to_vec(),
    }
}

pub fn predict<B: Cb, F: Real>(cx: &Ctx<B, F>, st: &State<F>, act: &Action) -> Pred
where
    Module<B>: HalAll<B> + CoreAll<B> + CkksAll<B>,
    Scratch<B>: ScratchTakeCore<B> + ScratchAvailable,
{
    use Action::*;
    let b2k = cx.p.base2k;
    let ok = |res_lb: usize| Pred {
        ok: true,
        errs: vec![],
        meta: vec![],
        res_lb,
    };
    let er = |k: EK| Pred {
        ok: false,
        errs: vec![k],
        meta: vec![],
        res_lb: 0,
    };
    let unary = |a: u8, mk_dst: usize, extra: usize| -> Pred {
        let (_, lb, eff, _) = m_of(&st.regs[a as usize]);
        let off = eff.saturating_sub(mk_dst);
        if off + extra <= lb { ok(lb - off - extra) } else { er(EK::Capacity) }
    };
    match *act {
        Encrypt { start, vec: _, .. } => {
            let s = cx.p.starts[start as usize];
            let mut p = ok(s.k - s.log_delta);
            p.meta = vec![(act_dst(act), s.log_delta, s.k - s.log_delta)];
            p
        }
        CtInto { op, dst, size, a, b } => {
            let (lda, lba, effa, _) = m_of(&st.regs[a as usize]);
            let (ldb, lbb, effb, _) = m_of(&st.regs[b as usize]);
            match op {
                Arith::Add | Arith::Sub => {
                    let mk = dst_limbs(st, dst, size) * b2k;
                    let off = effa.min(effb).saturating_sub(mk);
                    if off <= lba.min(lbb) { ok(lba.min(lbb) - off) } else { er(EK::Capacity) }
                }
                Arith::Mul | Arith::MulAdd | Arith::MulSub => {
                    let mk = if op == Arith::Mul { dst_limbs(st, dst, size) * b2k } else { st.regs[dst as usize].ct.max_k().as_usize() };
                    mul_pred(lba.min(lbb), lda.max(ldb), lda.min(ldb), mk)
                }
            }
        }
        CtAssign { op, dst, a } => {
            let (ldd, lbd, _, mkd) = m_of(&st.regs[dst as usize]);
            let (lda, lba, _, _) = m_of(&st.regs[a as usize]);
            match op {
                Arith::Add | Arith::Sub => ok(lbd.min(lba)),
                _ => mul_pred(lbd.min(lba), ldd.max(lda), ldd.min(lda), mkd),
            }
        }
        SquareInto { dst, size, a } => {
            let (ld, lb, _, _) = m_of(&st.regs[a as usize]);
            mul_pred(lb, ld, ld, dst_limbs(st, dst, size) * b2k)
        }
        SquareAssign { dst } => {
            let (ld, lb, _, mk) = m_of(&st.regs[dst as usize]);
            mul_pred(lb, ld, ld, mk)
        }
        PtInto { op, pt, dst, size, a } => {
            let (lda, lba, effa, _) = m_of(&st.regs[a as usize]);
            let (ldp, _) = cx.p.pt_precs[pt.prec as usize];
            match op {
                Arith::Add | Arith::Sub => {
                    let mk = dst_limbs(st, dst, size) * b2k;
                    let off = effa.saturating_sub(mk);
                    if off > lba {
                        return er(EK::Capacity);
                    }
                    add_pt_pred(cx, &pt, lba - off)
                }
                _ => {
                    let mk = if op == Arith::Mul { dst_limbs(st, dst, size) * b2k } else { st.regs[dst as usize].ct.max_k().as_usize() };
                    if is_none_const(cx, &pt) && op != Arith::Mul {
                        // documented no-op
                        return ok(st.regs[dst as usize].ct.log_budget());
                    }
                    let mut p = mul_pred(lba, ldp, lda, mk);
                    if pt.badbase {
                        // unequal radices: PlaintextBase2KMismatch (budget errors are detected first where they apply)
                        p.ok = false;
                        p.errs.push(EK::Base2K);
                    }
                    p
                }
            }
        }
        PtAssign { op, pt, dst } => {
            let (ldd, lbd, _, mkd) = m_of(&st.regs[dst as usize]);
            let (ldp, _) = cx.p.pt_precs[pt.prec as usize];
            match op {
                Arith::Add | Arith::Sub => add_pt_pred(cx, &pt, lbd),
                _ => {
                    let mut p = mul_pred(lbd, ldp, ldd, mkd);
                    if pt.badbase {
                        p.ok = false;
                        p.errs.push(EK::Base2K);
                    }
                    p
                }
            }
        }
        NegInto { dst, size, a } | ConjInto { dst, size, a } => unary(a, dst_limbs(st, dst, size) * b2k, 0),
        MulPow2Into { dst, size, a, .. } => unary(a, dst_limbs(st, dst, size) * b2k, 0),
        DivPow2Into { dst, size, a, bits } => unary(a, dst_limbs(st, dst, size) * b2k, bits as usize),
        RotateInto { dst, size, a, k } => {
            if !cx.atks.contains_key(&(k as i64)) {
                return er(EK::MissingKey);
            }
            unary(a, dst_limbs(st, dst, size) * b2k, 0)
        }
        NegAssign { dst } | ConjAssign { dst } | MulPow2Assign { dst, .. } => {
            let (ld, lb, _, _) = m_of(&st.regs[dst as usize]);
            let mut p = ok(lb);
            if !matches!(act, MulPow2Assign { .. }) {
                p.meta = vec![(dst as usize, ld, lb)];
            }
            p
        }
        RotateAssign { dst, k } => {
            if !cx.atks.contains_key(&(k as i64)) {
                return er(EK::MissingKey);
            }
            let (ld, lb, _, _) = m_of(&st.regs[dst as usize]);
            let mut p = ok(lb);
            p.meta = vec![(dst as usize, ld, lb)];
            p
        }
        DivPow2Assign { dst, bits } => {
            let (_, lb, _, _) = m_of(&st.regs[dst as usize]);
            if bits as usize <= lb { ok(lb - bits as usize) } else { er(EK::Capacity) }
        }
        RescaleInto { dst, size, a, k } => {
            let (ld, lb, eff, _) = m_of(&st.regs[a as usize]);
            if k as usize <= lb {
                let mut p = ok(lb - k as usize);
                let mk = dst_limbs(st, dst, size) * b2k;
                if eff - k as usize <= mk {
                    // documented: "rescale lowers log_budget by k"
                    p.meta = vec![(dst as usize, ld, lb - k as usize)];
                } else {
                    // destination smaller than the rescaled value: the documentation is silent; either the call
                    // refuses (budget) or it succeeds with metadata that fits the destination and describes the data
                    p.errs = vec![EK::Capacity];
                }
                p
            } else {
                er(EK::Capacity)
            }
        }
        RescaleAssign { dst, k } => {
            let (ld, lb, _, _) = m_of(&st.regs[dst as usize]);
            if k as usize <= lb {
                let mut p = ok(lb - k as usize);
                p.meta = vec![(dst as usize, ld, lb - k as usize)];
                p
            } else {
                er(EK::Capacity)
            }
        }
        Align { a, b } => {
            let (lda, lba, _, _) = m_of(&st.regs[a as usize]);
            let (ldb, lbb, _, _) = m_of(&st.regs[b as usize]);
            let mut p = ok(lba.min(lbb));
            p.meta = vec![(a as usize, lda, lba.min(lbb)), (b as usize, ldb, lba.min(lbb))];
            p
        }
        Compact { dst } => {
            let (ld, lb, _, _) = m_of(&st.regs[dst as usize]);
            let mut p = ok(lb);
            p.meta = vec![(dst as usize, ld, lb)];
            p
        }
        CompactCopy { dst, a } => {
            let (ld, lb, _, _) = m_of(&st.regs[a as usize]);
            let mut p = ok(lb);
            p.meta = vec![(dst as usize, ld, lb)];
            p
        }
        Realloc { dst, size } => {
            let (ld, lb, eff, _) = m_of(&st.regs[dst as usize]);
            if size as usize >= eff.div_ceil(b2k) {
                let mut p = ok(lb);
                p.meta = vec![(dst as usize, ld, lb)];
                p
            } else {
                er(EK::Realloc)
            }
        }
        // composites: judged as the equivalent sequence of binary operations (the API documentation of the
        // composite traits states no algebra of its own)
        AddMany { dst, size, regs } => {
            let mk = dst_limbs(st, dst, size) * b2k;
            let rs = regs.regs();
            if rs.len() == 1 {
                return unary(rs[0], mk, 0);
            }
            let (_, lb0, eff0, _) = m_of(&st.regs[rs[0] as usize]);
            let (_, lb1, eff1, _) = m_of(&st.regs[rs[1] as usize]);
            let off = eff0.min(eff1).saturating_sub(mk);
            if off <= lb0.min(lb1) { ok(0) } else { er(EK::Capacity) }
        }
        MulMany { dst, size, regs } => {
            let mk = dst_limbs(st, dst, size) * b2k;
            let em = ErrModel::of(cx);
            let sims: Vec<Sim> = regs.regs().iter().map(|&r| Sim::of(&st.regs[r as usize])).collect();
            match sim_mul_many(&sims, mk, &em) {
                Ok(_) => ok(0),
                Err(k) => er(k),
            }
        }
        DotCt { dst, size, a, b } => {
            let mk = dst_limbs(st, dst, size) * b2k;
            let mut errs = vec![];
            for (&x, &y) in a.regs().iter().zip(b.regs()) {
                let (ldx, lbx, _, _) = m_of(&st.regs[x as usize]);
                let (ldy, lby, _, _) = m_of(&st.regs[y as usize]);
                let p = mul_pred(lbx.min(lby), ldx.max(ldy), ldx.min(ldy), mk);
                for e in p.errs {
                    if !errs.contains(&e) {
                        errs.push(e);
                    }
                }
            }
            Pred {
                ok: errs.is_empty(),
                errs,
                meta: vec![],
                res_lb: 0,
            }
        }
        DotPt { dst, size, a, pt } => {
            let mk = dst_limbs(st, dst, size) * b2k;
            let (ldp, _) = cx.p.pt_precs[pt.prec as usize];
            let mut errs = vec![];
            for &x in a.regs() {
                let (ldx, lbx, _, _) = m_of(&st.regs[x as usize]);
                let p = mul_pred(lbx, ldp, ldx, mk);
                for e in p.errs {
                    if !errs.contains(&e) {
                        errs.push(e);
                    }
                }
            }
            Pred {
                ok: errs.is_empty(),
                errs,
                meta: vec![],
                res_lb: 0,
            }
        }
    }
}

/// metadata / magnitude / error of a value during the simulation of a composite as binary operations
#[derive(Clone, Copy, Debug)]
pub struct Sim {
    pub ld: usize,
    pub lb: usize,
    /// storage bits of the buffer holding it
    pub mk: usize,
    pub mag: f64,
    pub err: f64,
}

impl Sim {
    pub fn of<F: Real>(r: &Reg<F>) -> Sim {
        Sim {
            ld: r.ct.log_delta(),
            lb: r.ct.log_budget(),
            mk: r.ct.max_k().as_usize(),
            mag: r.mag(),
            err: r.err,
        }
    }
}

fn sim_mul(a: Sim, b: Sim, mk: usize, em: &ErrModel) -> Result<Sim, EK> {
    let p = mul_pred(a.lb.min(b.lb), a.ld.max(b.ld), a.ld.min(b.ld), mk);
    if !p.ok {
        return Err(p.errs[0]);
    }
    let (ea, eb) = (a.err + em.operand_floor(a.ld), b.err + em.operand_floor(b.ld));
    let err = a.mag * eb + b.mag * ea + ea * eb + em.keyswitch(p.res_lb) + em.tensor(p.res_lb, a.mk.max(b.mk)) + em.trunc(p.res_lb, mk);
    Ok(Sim {
        ld: a.ld.min(b.ld),
        lb: p.res_lb,
        mk,
        mag: a.mag * b.mag,
        err,
    })
}

fn ceil_log2(n: usize) -> usize {
    if n <= 1 { 0 } else { (n - 1).ilog2() as usize + 1 }
}

/// `ckks_mul_many`: balanced product tree; the halves are computed into temporaries of
/// min(effective_k) - ceil(log2(len)) * log_delta bits (rounded up to whole limbs)
pub fn sim_mul_many(list: &[Sim], mk: usize, em: &ErrModel) -> Result<Sim, EK> {
    if list.iter().any(|x| x.ld != list[0].ld) {
        return Err(EK::Other);
    }
    let b2k = em.b2k as usize;
    match list.len() {
        1 => {
            let x = list[0];
            let off = (x.ld + x.lb).saturating_sub(mk);
            if off > x.lb {
                return Err(EK::Capacity);
            }
            Ok(Sim {
                ld: x.ld,
                lb: x.lb - off,
                mk,
                mag: x.mag,
                err: x.err + em.trunc(x.lb - off, mk),
            })
        }
        2 => sim_mul(list[0], list[1], mk, em),
        n => {
            let (left, right) = list.split_at(n / 2);
            let ld = list[0].ld;
            let tmp_mk = |h: &[Sim]| {
                let k = h.iter().map(|x| x.ld + x.lb).min().unwrap().saturating_sub(ceil_log2(h.len()) * ld);
                k.div_ceil(b2k) * b2k
            };
            let l = sim_mul_many(left, tmp_mk(left), em)?;
            let r = sim_mul_many(right, tmp_mk(right), em)?;
            sim_mul(l, r, mk, em)
        }
    }
}

fn is_none_const<B: Cb, F: Real>(cx: &Ctx<B, F>, pt: &PtSel) -> bool {
    matches!(pt.form, PtForm::CstZnx | PtForm::CstRnx) && cx.consts[pt.idx as usize].0.is_none() && cx.consts[pt.idx as usize].1.is_none()
}

/// multiplication: `lb_in` = min(log_budget) (ct-ct) or the ciphertext's budget (ct-pt); `consume` = bits consumed;
/// `res_ld` = result log_delta; `mk` = destination capacity.
fn mul_pred(lb_in: usize, consume: usize, res_ld: usize, mk: usize) -> Pred {
    if lb_in < consume {
        return Pred {
            ok: false,
            errs: vec![EK::MulUnderflow],
            meta: vec![],
            res_lb: 0,
        };
    }
    let lb0 = lb_in - consume;
    let off = (lb0 + res_ld).saturating_sub(mk);
    if off > lb0 {
        return Pred {
            ok: false,
            errs: vec![EK::Capacity],
            meta: vec![],
            res_lb: 0,
        };
    }
    Pred {
        ok: true,
        errs: vec![],
        meta: vec![],
        res_lb: lb0 - off,
    }
}

fn add_pt_pred<B: Cb, F: Real>(cx: &Ctx<B, F>, pt: &PtSel, res_lb: usize) -> Pred {
    let (ldp, lbp) = cx.p.pt_precs[pt.prec as usize];
    let mut errs = vec![];
    match pt.form {
        PtForm::VecZnx | PtForm::VecRnx => {
            if pt.badbase {
                errs.push(EK::Base2K);
            }
            let b = if pt.badbase { cx.p.base2k - 1 } else { cx.p.base2k };
            let pt_max_k = (ldp + lbp).div_ceil(b) * b;
            if res_lb + ldp < pt_max_k {
                errs.push(EK::Alignment);
            }
        }
        // constants are encoded for the destination (to_znx_at_k with k = dst.log_budget + log_delta): always aligned
        PtForm::CstZnx | PtForm::CstRnx => {}
    }
    Pred {
        ok: errs.is_empty(),
        errs,
        meta: vec![],
        res_lb,
    }
}

pub fn act_dst(a: &Action) -> usize {
    use Action::*;
    (match *a {
        Encrypt { dst, .. } | CtInto { dst, .. } | CtAssign { dst, .. } | SquareInto { dst, .. } | SquareAssign { dst }
        | PtInto { dst, .. } | PtAssign { dst, .. } | NegInto { dst, .. } | NegAssign { dst } | MulPow2Into { dst, .. }
        | MulPow2Assign { dst, .. } | DivPow2Into { dst, .. } | DivPow2Assign { dst, .. } | RotateInto { dst, .. }
        | RotateAssign { dst, .. } | ConjInto { dst, .. } | ConjAssign { dst } | RescaleInto { dst, .. } | RescaleAssign { dst, .. }
        | Compact { dst } | CompactCopy { dst, .. } | Realloc { dst, .. } | AddMany { dst, .. } | MulMany { dst, .. }
        | DotCt { dst, .. } | DotPt { dst, .. } => dst,
        Align { a, .. } => a,
    }) as usize
}

// ------------------------------------------------------------------------------------------------------------
// execution on the real library

pub struct Applied {
    pub res: CallRes,
    /// (register, resulting ciphertext object) - present also after Err/Panic (contents then undefined)
    pub changed: Vec<(usize, CKKSCiphertext<Vec<u8>>)>,
}

/// Performs the one library call of `act` on copies / fresh destinations; `st` is never modified.
pub fn apply<B: Cb, F: Real>(
    cx: &Ctx<B, F>,
    st: &State<F>,
    act: &Action,
    pred: &Pred,
    depth: usize,
    seed: u64,
    s: &mut Scratch<B>,
) -> Applied
where
    Module<B>: HalAll<B> + CoreAll<B> + CkksAll<B>,
    Scratch<B>: ScratchTakeCore<B> + ScratchAvailable,
{
    use Action::*;
    let m = &cx.module;
    let reg = |i: u8| -> &CKKSCiphertext<Vec<u8>> { &st.regs[i as usize].ct };
    let fresh = |dst: u8, size: Dst| cx.blank(dst_limbs(st, dst, size), 0);
    macro_rules! one {
        ($dsti:expr, $ct:expr, |$d:ident| $call:expr) => {{
            let mut $d = $ct;
            let r = guarded(|| $call);
            Applied {
                res: conv(r),
                changed: vec![($dsti as usize, $d)],
            }
        }};
    }
    match *act {
        Encrypt { dst, start, vec } => {
            let sp = cx.p.starts[start as usize];
            let ct = cx.blank(sp.k.div_ceil(cx.p.base2k), 0);
            let infos = EncryptionLayout::new_from_default_sigma(cx.p.glwe_layout(sp.k)).unwrap();
            // plaintext at the start point's log_delta: encode now (real API calls: encode_reim happened in Ctx, to_znx here)
            let meta = CKKSMeta {
                log_delta: sp.log_delta,
                log_budget: 8,
            };
            let mut pt = CKKSPlaintextVecZnx::alloc((cx.p.n as u32).into(), (cx.p.base2k as u32).into(), meta);
            pvc_engine::rng::garbage(&mut pt.data_mut().data, 0);
            let mut rng = pvc_engine::rng::Rng::new(seed, pvc_engine::fnv(format!("enc{depth}/{dst}/{start}/{vec}").as_bytes()));
            let mut xa = Source::new(rng.seed32());
            let mut xe = Source::new(rng.seed32());
            one!(dst, ct, |d| {
                cx.vec_rnx[vec as usize].to_znx(&mut pt)?;
                m.ckks_encrypt_sk(&mut d, &pt, &cx.sk, &infos, &mut xa, &mut xe, s)
            })
        }
        CtInto { op, dst, size, a, b } => {
            let (ra, rb) = (reg(a), reg(b));
            match op {
                Arith::Add => one!(dst, fresh(dst, size), |d| m.ckks_add_into(&mut d, ra, rb, s)),
                Arith::Sub => one!(dst, fresh(dst, size), |d| m.ckks_sub_into(&mut d, ra, rb, s)),
                Arith::Mul => one!(dst, fresh(dst, size), |d| m.ckks_mul_into(&mut d, ra, rb, &cx.tsk, s)),
                Arith::MulAdd => one!(dst, cx.copy_ct(reg(dst)), |d| m.ckks_mul_add_ct_into(&mut d, ra, rb, &cx.tsk, s)),
                Arith::MulSub => one!(dst, cx.copy_ct(reg(dst)), |d| m.ckks_mul_sub_ct_into(&mut d, ra, rb, &cx.tsk, s)),
            }
        }
        CtAssign { op, dst, a } => {
            let ra = reg(a);
            match op {
                Arith::Add => one!(dst, cx.copy_ct(reg(dst)), |d| m.ckks_add_assign(&mut d, ra, s)),
                Arith::Sub => one!(dst, cx.copy_ct(reg(dst)), |d| m.ckks_sub_assign(&mut d, ra, s)),
                _ => one!(dst, cx.copy_ct(reg(dst)), |d| m.ckks_mul_assign(&mut d, ra, &cx.tsk, s)),
            }
        }
        SquareInto { dst, size, a } => one!(dst, fresh(dst, size), |d| m.ckks_square_into(&mut d, reg(a), &cx.tsk, s)),
        SquareAssign { dst } => one!(dst, cx.copy_ct(reg(dst)), |d| m.ckks_square_assign(&mut d, &cx.tsk, s)),
        PtInto { op, pt, dst, size, a } => {
            let ra = reg(a);
            let prec = cx.pt_meta(pt.prec as usize);
            let acc = matches!(op, Arith::MulAdd | Arith::MulSub);
            let d0 = if acc { cx.copy_ct(reg(dst)) } else { fresh(dst, size) };
            match pt.form {
                PtForm::VecZnx => {
                    let p = if pt.badbase { &cx.vec_znx_bad } else { &cx.vec_znx[pt.prec as usize][pt.idx as usize] };
                    match op {
                        Arith::Add => one!(dst, d0, |d| m.ckks_add_pt_vec_znx_into(&mut d, ra, p, s)),
                        Arith::Sub => one!(dst, d0, |d| m.ckks_sub_pt_vec_znx_into(&mut d, ra, p, s)),
                        Arith::Mul => one!(dst, d0, |d| m.ckks_mul_pt_vec_znx_into(&mut d, ra, p, s)),
                        Arith::MulAdd => one!(dst, d0, |d| m.ckks_mul_add_pt_vec_znx_into(&mut d, ra, p, s)),
                        Arith::MulSub => one!(dst, d0, |d| m.ckks_mul_sub_pt_vec_znx_into(&mut d, ra, p, s)),
                    }
                }
                PtForm::VecRnx => {
                    let p: &CKKSPlaintextVecRnx<F> = &cx.vec_rnx[pt.idx as usize];
                    match op {
                        Arith::Add => one!(dst, d0, |d| m.ckks_add_pt_vec_rnx_into(&mut d, ra, p, prec, s)),
                        Arith::Sub => one!(dst, d0, |d| m.ckks_sub_pt_vec_rnx_into(&mut d, ra, p, prec, s)),
                        Arith::Mul => one!(dst, d0, |d| m.ckks_mul_pt_vec_rnx_into(&mut d, ra, p, prec, s)),
                        Arith::MulAdd => one!(dst, d0, |d| m.ckks_mul_add_pt_vec_rnx_into(&mut d, ra, p, prec, s)),
                        Arith::MulSub => one!(dst, d0, |d| m.ckks_mul_sub_pt_vec_rnx_into(&mut d, ra, p, prec, s)),
                    }
                }
                PtForm::CstZnx => {
                    let c = match op {
                        Arith::Add | Arith::Sub => cx.cst_znx_aligned(pt.idx as usize, pt.prec as usize, pred.res_lb),
                        _ => cx.cst_znx_natural(pt.idx as usize, pt.prec as usize),
                    };
                    match op {
                        Arith::Add => one!(dst, d0, |d| m.ckks_add_pt_const_znx_into(&mut d, ra, &c, s)),
                        Arith::Sub => one!(dst, d0, |d| m.ckks_sub_pt_const_znx_into(&mut d, ra, &c, s)),
                        Arith::Mul => one!(dst, d0, |d| m.ckks_mul_pt_const_znx_into(&mut d, ra, &c, s)),
                        Arith::MulAdd => one!(dst, d0, |d| m.ckks_mul_add_pt_const_znx_into(&mut d, ra, &c, s)),
                        Arith::MulSub => one!(dst, d0, |d| m.ckks_mul_sub_pt_const_znx_into(&mut d, ra, &c, s)),
                    }
                }
                PtForm::CstRnx => {
                    let c = cx.cst_rnx(pt.idx as usize);
                    match op {
                        Arith::Add => one!(dst, d0, |d| m.ckks_add_pt_const_rnx_into(&mut d, ra, &c, prec, s)),
                        Arith::Sub => one!(dst, d0, |d| m.ckks_sub_pt_const_rnx_into(&mut d, ra, &c, prec, s)),
                        Arith::Mul => one!(dst, d0, |d| m.ckks_mul_pt_const_rnx_into(&mut d, ra, &c, prec, s)),
                        Arith::MulAdd => one!(dst, d0, |d| m.ckks_mul_add_pt_const_rnx_into(&mut d, ra, &c, prec, s)),
                        Arith::MulSub => one!(dst, d0, |d| m.ckks_mul_sub_pt_const_rnx_into(&mut d, ra, &c, prec, s)),
                    }
                }
            }
        }
        PtAssign { op, pt, dst } => {
            let prec = cx.pt_meta(pt.prec as usize);
            let d0 = cx.copy_ct(reg(dst));
            match pt.form {
                PtForm::VecZnx => {
                    let p = if pt.badbase { &cx.vec_znx_bad } else { &cx.vec_znx[pt.prec as usize][pt.idx as usize] };
                    match op {
                        Arith::Add => one!(dst, d0, |d| m.ckks_add_pt_vec_znx_assign(&mut d, p, s)),
                        Arith::Sub => one!(dst, d0, |d| m.ckks_sub_pt_vec_znx_assign(&mut d, p, s)),
                        _ => one!(dst, d0, |d| m.ckks_mul_pt_vec_znx_assign(&mut d, p, s)),
                    }
                }
                PtForm::VecRnx => {
                    let p: &CKKSPlaintextVecRnx<F> = &cx.vec_rnx[pt.idx as usize];
                    match op {
                        Arith::Add => one!(dst, d0, |d| m.ckks_add_pt_vec_rnx_assign(&mut d, p, prec, s)),
                        Arith::Sub => one!(dst, d0, |d| m.ckks_sub_pt_vec_rnx_assign(&mut d, p, prec, s)),
                        _ => one!(dst, d0, |d| m.ckks_mul_pt_vec_rnx_assign(&mut d, p, prec, s)),
                    }
                }
                PtForm::CstZnx => {
                    let c = match op {
                        Arith::Add | Arith::Sub => cx.cst_znx_aligned(pt.idx as usize, pt.prec as usize, pred.res_lb),
                        _ => cx.cst_znx_natural(pt.idx as usize, pt.prec as usize),
                    };
                    match op {
                        Arith::Add => one!(dst, d0, |d| m.ckks_add_pt_const_znx_assign(&mut d, &c, s)),
                        Arith::Sub => one!(dst, d0, |d| m.ckks_sub_pt_const_znx_assign(&mut d, &c, s)),
                        _ => one!(dst, d0, |d| m.ckks_mul_pt_const_znx_assign(&mut d, &c, s)),
                    }
                }
                PtForm::CstRnx => {
                    let c = cx.cst_rnx(pt.idx as usize);
                    match op {
                        Arith::Add => one!(dst, d0, |d| m.ckks_add_pt_const_rnx_assign(&mut d, &c, prec, s)),
                        Arith::Sub => one!(dst, d0, |d| m.ckks_sub_pt_const_rnx_assign(&mut d, &c, prec, s)),
                        _ => one!(dst, d0, |d| m.ckks_mul_pt_const_rnx_assign(&mut d, &c, prec, s)),
                    }
                }
            }
        }
        NegInto { dst, size, a } => one!(dst, fresh(dst, size), |d| m.ckks_neg_into(&mut d, reg(a), s)),
        NegAssign { dst } => one!(dst, cx.copy_ct(reg(dst)), |d| m.ckks_neg_assign(&mut d)),
        MulPow2Into { dst, size, a, bits } => one!(dst, fresh(dst, size), |d| m.ckks_mul_pow2_into(&mut d, reg(a), bits as usize, s)),
        MulPow2Assign { dst, bits } => one!(dst, cx.copy_ct(reg(dst)), |d| m.ckks_mul_pow2_assign(&mut d, bits as usize, s)),
        DivPow2Into { dst, size, a, bits } => one!(dst, fresh(dst, size), |d| m.ckks_div_pow2_into(&mut d, reg(a), bits as usize, s)),
        DivPow2Assign { dst, bits } => one!(dst, cx.copy_ct(reg(dst)), |d| m.ckks_div_pow2_assign(&mut d, bits as usize)),
        RotateInto { dst, size, a, k } => one!(dst, fresh(dst, size), |d| m.ckks_rotate_into(&mut d, reg(a), k as i64, &cx.atks, s)),
        RotateAssign { dst, k } => one!(dst, cx.copy_ct(reg(dst)), |d| m.ckks_rotate_assign(&mut d, k as i64, &cx.atks, s)),
        ConjInto { dst, size, a } => one!(dst, fresh(dst, size), |d| m.ckks_conjugate_into(&mut d, reg(a), &cx.conj, s)),
        ConjAssign { dst } => one!(dst, cx.copy_ct(reg(dst)), |d| m.ckks_conjugate_assign(&mut d, &cx.conj, s)),
        RescaleInto { dst, size, a, k } => one!(dst, fresh(dst, size), |d| m.ckks_rescale_into(&mut d, k as usize, reg(a), s)),
        RescaleAssign { dst, k } => one!(dst, cx.copy_ct(reg(dst)), |d| m.ckks_rescale_assign(&mut d, k as usize, s)),
        Align { a, b } => {
            let mut ca = cx.copy_ct(reg(a));
            let mut cb = cx.copy_ct(reg(b));
            let r = guarded(|| m.ckks_align_assign(&mut ca, &mut cb, s));
            Applied {
                res: conv(r),
                changed: vec![(a as usize, ca), (b as usize, cb)],
            }
        }
        Compact { dst } => one!(dst, cx.copy_ct(reg(dst)), |d| m.ckks_compact_limbs(&mut d)),
        CompactCopy { dst, a } => {
            let mut out: Option<CKKSCiphertext<Vec<u8>>> = None;
            let r = guarded(|| {
                out = Some(m.ckks_compact_limbs_copy(reg(a))?);
                Ok(())
            });
            let res = conv(r);
            let ct = out.unwrap_or_else(|| cx.blank(1, 0));
            Applied {
                res,
                changed: vec![(dst as usize, ct)],
            }
        }
        Realloc { dst, size } => one!(dst, cx.copy_ct(reg(dst)), |d| m.ckks_reallocate_limbs_checked(&mut d, size as usize)),
        AddMany { dst, size, regs } => {
            let refs: Vec<&CKKSCiphertext<Vec<u8>>> = regs.regs().iter().map(|&r| reg(r)).collect();
            one!(dst, fresh(dst, size), |d| m.ckks_add_many(&mut d, &refs, s))
        }
        MulMany { dst, size, regs } => {
            let refs: Vec<&CKKSCiphertext<Vec<u8>>> = regs.regs().iter().map(|&r| reg(r)).collect();
            one!(dst, fresh(dst, size), |d| m.ckks_mul_many(&mut d, &refs, &cx.tsk, s))
        }
        DotCt { dst, size, a, b } => {
            let ra: Vec<&CKKSCiphertext<Vec<u8>>> = a.regs().iter().map(|&r| reg(r)).collect();
            let rb: Vec<&CKKSCiphertext<Vec<u8>>> = b.regs().iter().map(|&r| reg(r)).collect();
            one!(dst, fresh(dst, size), |d| m.ckks_dot_product_ct(&mut d, &ra, &rb, &cx.tsk, s))
        }
        DotPt { dst, size, a, pt } => {
            let ra: Vec<&CKKSCiphertext<Vec<u8>>> = a.regs().iter().map(|&r| reg(r)).collect();
            let n = ra.len();
            let prec = cx.pt_meta(pt.prec as usize);
            match pt.form {
                PtForm::VecZnx => {
                    let w: Vec<&CKKSPlaintextVecZnx<Vec<u8>>> = (0..n).map(|_| &cx.vec_znx[pt.prec as usize][pt.idx as usize]).collect();
                    one!(dst, fresh(dst, size), |d| m.ckks_dot_product_pt_vec_znx(&mut d, &ra, &w, s))
                }
                PtForm::VecRnx => {
                    let w: Vec<&CKKSPlaintextVecRnx<F>> = (0..n).map(|_| &cx.vec_rnx[pt.idx as usize]).collect();
                    one!(dst, fresh(dst, size), |d| m.ckks_dot_product_pt_vec_rnx(&mut d, &ra, &w, prec, s))
                }
                PtForm::CstZnx => {
                    let cs: Vec<poulpy_ckks::layouts::CKKSPlaintextCstZnx> =
                        (0..n).map(|i| cx.cst_znx_natural(CST_ROT[i] as usize, pt.prec as usize)).collect();
                    let w: Vec<&poulpy_ckks::layouts::CKKSPlaintextCstZnx> = cs.iter().collect();
                    one!(dst, fresh(dst, size), |d| m.ckks_dot_product_pt_const_znx(&mut d, &ra, &w, s))
                }
                PtForm::CstRnx => {
                    let cs: Vec<poulpy_ckks::layouts::CKKSPlaintextCstRnx<F>> = (0..n).map(|i| cx.cst_rnx(CST_ROT[i] as usize)).collect();
                    let w: Vec<&poulpy_ckks::layouts::CKKSPlaintextCstRnx<F>> = cs.iter().collect();
                    one!(dst, fresh(dst, size), |d| m.ckks_dot_product_pt_const_rnx(&mut d, &ra, &w, prec, s))
                }
            }
        }
    }
}

// ------------------------------------------------------------------------------------------------------------
// R6: shadow evaluation and error budget

fn cadd<F: Real>(a: Cplx<F>, b: Cplx<F>) -> Cplx<F> {
    (a.0 + b.0, a.1 + b.1)
}
fn csub<F: Real>(a: Cplx<F>, b: Cplx<F>) -> Cplx<F> {
    (a.0 - b.0, a.1 - b.1)
}
fn cmul<F: Real>(a: Cplx<F>, b: Cplx<F>) -> Cplx<F> {
    (a.0 * b.0 - a.1 * b.1, a.0 * b.1 + a.1 * b.0)
}
fn zip<F: Real>(a: &[Cplx<F>], b: &[Cplx<F>], f: impl Fn(Cplx<F>, Cplx<F>) -> Cplx<F>) -> Vec<Cplx<F>> {
    a.iter().zip(b).map(|(x, y)| f(*x, *y)).collect()
}

/// constants of the worst-case error calculus (slot domain, absolute)
pub struct ErrModel {
    pub n: f64,
    pub key_k: f64,
    pub dnum: f64,
    pub b2k: f64,
}

pub const SAFETY: f64 = 4.0;
pub const NOISE_BOUND: f64 = 20.0; // 6 sigma = 19.2, rounded samples

impl ErrModel {
    pub fn of<B: Cb, F: Real>(cx: &Ctx<B, F>) -> Self {
        ErrModel {
            n: cx.p.n as f64,
            key_k: cx.p.key_k() as f64,
            dnum: cx.p.dnum() as f64,
            b2k: cx.p.base2k as f64,
        }
    }
    /// truncation of a ciphertext to `max_k` bits: (1 + ||s||_1) units per coefficient, N coefficients per slot
    pub fn trunc(&self, lb: usize, max_k: usize) -> f64 {
        SAFETY * self.n * (self.n + 1.0) * (lb as f64 - max_k as f64).exp2()
    }
    /// gadget product with a key at key_k: dnum digits of magnitude 2^(b-1), N-term convolution with bounded noise
    pub fn keyswitch(&self, lb: usize) -> f64 {
        SAFETY * self.n * self.n * self.dnum * (self.b2k - 1.0).exp2() * NOISE_BOUND * (lb as f64 - self.key_k).exp2()
    }
    /// degree-2 tensor at tmp_k bits decrypted under (1, s, s^2)
    pub fn tensor(&self, lb: usize, tmp_k: usize) -> f64 {
        SAFETY * self.n * (self.n * self.n + self.n + 1.0) * 4.0 * (lb as f64 - tmp_k as f64).exp2()
    }
    /// a product consumes an operand only down to its effective precision (bits below 2^-(log_budget+log_delta) of
    /// the torus value are masked): (1 + ||s||_1) units of 2^-log_delta per coefficient
    pub fn operand_floor(&self, ld: usize) -> f64 {
        SAFETY * self.n * (self.n + 1.0) * (-(ld as f64)).exp2()
    }
    pub fn fresh(&self, ld: usize) -> f64 {
        SAFETY * self.n * (0.5 + NOISE_BOUND) * (-(ld as f64)).exp2()
    }
    pub fn quant_vec(&self, ld: usize) -> f64 {
        SAFETY * self.n * 0.5 * (-(ld as f64)).exp2()
    }
    pub fn quant_cst(&self, ld: usize) -> f64 {
        SAFETY * 2.0 * (-(ld as f64)).exp2()
    }
}

/// (shadow slots, error bound) of every changed register, given the *result's own* metadata and capacity.
/// `None` shadow: some operand had no defined value.
pub fn shadow<B: Cb, F: Real>(
    cx: &Ctx<B, F>,
    st: &State<F>,
    act: &Action,
    changed: &[(usize, CKKSCiphertext<Vec<u8>>)],
) -> Vec<(Option<Vec<Cplx<F>>>, f64)>
where
    Module<B>: HalAll<B> + CoreAll<B> + CkksAll<B>,
    Scratch<B>: ScratchTakeCore<B> + ScratchAvailable,
{
    use Action::*;
    let em = ErrModel::of(cx);
    let r = |i: u8| -> &Reg<F> { &st.regs[i as usize] };
    let res = &changed[0].1;
    let (lbr, mkr, ldr) = (res.log_budget(), res.max_k().as_usize(), res.log_delta());
    let t = em.trunc(lbr, mkr);
    let m = cx.p.m();
    // shadow of a plaintext operand, its magnitude and its quantisation error
    let pt_val = |pt: &PtSel| -> (Vec<Cplx<F>>, f64, f64) {
        let ldp = cx.p.pt_precs[pt.prec as usize].0;
        match pt.form {
            PtForm::VecZnx | PtForm::VecRnx => {
                let v = cx.vecs[pt.idx as usize].clone();
                let mg = mag(&v);
                (v, mg, em.quant_vec(ldp))
            }
            _ => {
                let c = cx.cst_val(pt.idx as usize);
                let v = vec![c; m];
                let mg = mag(&v);
                (v, mg, em.quant_cst(ldp))
            }
        }
    };
    let one = |sh: Option<Vec<Cplx<F>>>, e: f64| vec![(sh, e)];
    let map1 = |a: &Reg<F>, f: &dyn Fn(&[Cplx<F>]) -> Vec<Cplx<F>>| a.sh.as_ref().map(|v| f(v));
    let map2 = |a: &Reg<F>, b: &Reg<F>, f: &dyn Fn(Cplx<F>, Cplx<F>) -> Cplx<F>| match (&a.sh, &b.sh) {
        (Some(x), Some(y)) => Some(zip(x, y, f)),
        _ => None,
    };
    // product error: |a| E_b + |b| E_a + E_a E_b
    let cross = |ma: f64, ea: f64, mb: f64, eb: f64| ma * eb + mb * ea + ea * eb;
    // error of a ciphertext as a product operand: accumulated bound + masking below its effective precision
    let eop = |x: &Reg<F>| x.err + em.operand_floor(x.ct.log_delta());
    match *act {
        Encrypt { vec, start, .. } => {
            let ld = cx.p.starts[start as usize].log_delta;
            one(Some(cx.vecs[vec as usize].clone()), em.fresh(ld) + t)
        }
        CtInto { op, dst, a, b, .. } => {
            let (ra, rb) = (r(a), r(b));
            match op {
                Arith::Add => one(map2(ra, rb, &cadd), ra.err + rb.err + t),
                Arith::Sub => one(map2(ra, rb, &csub), ra.err + rb.err + t),
                Arith::Mul => {
                    let tmp_k = ra.ct.max_k().as_usize().max(rb.ct.max_k().as_usize());
                    let e = cross(ra.mag(), eop(ra), rb.mag(), eop(rb)) + em.keyswitch(lbr) + em.tensor(lbr, tmp_k) + t;
                    one(map2(ra, rb, &cmul), e)
                }
                Arith::MulAdd | Arith::MulSub => {
                    let rd = r(dst);
                    let tmp_k = ra.ct.max_k().as_usize().max(rb.ct.max_k().as_usize());
                    // the product lands in a temporary with the destination's layout: its budget is at most
                    // min(lb) - max(ld); its truncation is at most (N+1) units of its own log_delta
                    let lb0 = ra.ct.log_budget().min(rb.ct.log_budget()).saturating_sub(ra.ct.log_delta().max(rb.ct.log_delta()));
                    let ld0 = ra.ct.log_delta().min(rb.ct.log_delta());
                    let e_prod = cross(ra.mag(), eop(ra), rb.mag(), eop(rb))
                        + em.keyswitch(lb0)
                        + em.tensor(lb0, tmp_k)
                        + SAFETY * em.n * (em.n + 1.0) * (-(ld0 as f64)).exp2();
                    let prod = map2(ra, rb, &cmul);
                    let sh = match (&rd.sh, prod) {
                        (Some(d), Some(p)) => Some(zip(d, &p, if op == Arith::MulAdd { cadd } else { csub })),
                        _ => None,
                    };
                    one(sh, rd.err + e_prod + t)
                }
            }
        }
        CtAssign { op, dst, a } => {
            let (rd, ra) = (r(dst), r(a));
            match op {
                Arith::Add => one(map2(rd, ra, &cadd), rd.err + ra.err + t),
                Arith::Sub => one(map2(rd, ra, &csub), rd.err + ra.err + t),
                _ => {
                    let tmp_k = ra.ct.max_k().as_usize().max(rd.ct.max_k().as_usize());
                    let e = cross(rd.mag(), eop(rd), ra.mag(), eop(ra)) + em.keyswitch(lbr) + em.tensor(lbr, tmp_k) + t;
                    one(map2(rd, ra, &cmul), e)
                }
            }
        }
        SquareInto { a, .. } | SquareAssign { dst: a } => {
            let ra = r(a);
            let e = cross(ra.mag(), eop(ra), ra.mag(), eop(ra)) + em.keyswitch(lbr) + em.tensor(lbr, ra.ct.max_k().as_usize()) + t;
            one(map2(ra, ra, &cmul), e)
        }
        PtInto { op, pt, dst, a, .. } => {
            let ra = r(a);
            let (pv, pm, pq) = pt_val(&pt);
            let with = |f: &dyn Fn(Cplx<F>, Cplx<F>) -> Cplx<F>| ra.sh.as_ref().map(|x| zip(x, &pv, f));
            match op {
                Arith::Add => one(with(&cadd), ra.err + pq + 2.0 * t),
                Arith::Sub => one(with(&csub), ra.err + pq + 2.0 * t),
                Arith::Mul => one(with(&cmul), cross(ra.mag(), eop(ra), pm, pq) + 3.0 * t),
                Arith::MulAdd | Arith::MulSub => {
                    let rd = r(dst);
                    if is_none_const(cx, &pt) {
                        return one(rd.sh.clone(), rd.err);
                    }
                    let e_prod = cross(ra.mag(), eop(ra), pm, pq) + 3.0 * SAFETY * em.n * (em.n + 1.0) * (-(ra.ct.log_delta() as f64)).exp2();
                    let sh = match (&rd.sh, with(&cmul)) {
                        (Some(d), Some(p)) => Some(zip(d, &p, if op == Arith::MulAdd { cadd } else { csub })),
                        _ => None,
                    };
                    one(sh, rd.err + e_prod + t)
                }
            }
        }
        PtAssign { op, pt, dst } => {
            let rd = r(dst);
            let (pv, pm, pq) = pt_val(&pt);
            let with = |f: &dyn Fn(Cplx<F>, Cplx<F>) -> Cplx<F>| rd.sh.as_ref().map(|x| zip(x, &pv, f));
            match op {
                Arith::Add => one(with(&cadd), rd.err + pq + 2.0 * t),
                Arith::Sub => one(with(&csub), rd.err + pq + 2.0 * t),
                _ => one(with(&cmul), cross(rd.mag(), eop(rd), pm, pq) + 3.0 * t),
            }
        }
        NegInto { a, .. } | NegAssign { dst: a } => {
            let ra = r(a);
            one(map1(ra, &|v| v.iter().map(|c| (-c.0, -c.1)).collect()), ra.err + t)
        }
        MulPow2Into { a, bits, .. } | MulPow2Assign { dst: a, bits } => {
            let ra = r(a);
            let f = F::f((bits as f64).exp2());
            one(map1(ra, &|v| v.iter().map(|c| (c.0 * f, c.1 * f)).collect()), ra.err * (bits as f64).exp2() + t)
        }
        DivPow2Into { a, bits, .. } | DivPow2Assign { dst: a, bits } => {
            let ra = r(a);
            let f = F::f((-(bits as f64)).exp2());
            one(map1(ra, &|v| v.iter().map(|c| (c.0 * f, c.1 * f)).collect()), ra.err * (-(bits as f64)).exp2() + t)
        }
        RotateInto { a, k, .. } | RotateAssign { dst: a, k } => {
            let ra = r(a);
            let kk = (k as i64).rem_euclid(m as i64) as usize;
            one(map1(ra, &|v| (0..m).map(|j| v[(j + kk) % m]).collect()), ra.err + em.keyswitch(lbr) + t)
        }
        ConjInto { a, .. } | ConjAssign { dst: a } => {
            let ra = r(a);
            one(map1(ra, &|v| v.iter().map(|c| (c.0, -c.1)).collect()), ra.err + em.keyswitch(lbr) + t)
        }
        RescaleInto { a, .. } | RescaleAssign { dst: a, .. } | Compact { dst: a } | CompactCopy { a, .. } | Realloc { dst: a, .. } => {
            let ra = r(a);
            one(ra.sh.clone(), ra.err + t)
        }
        AddMany { regs, .. } => {
            let rs: Vec<&Reg<F>> = regs.regs().iter().map(|&i| r(i)).collect();
            let mut sh: Option<Vec<Cplx<F>>> = rs[0].sh.clone();
            let mut e = rs[0].err;
            for x in &rs[1..] {
                sh = match (sh, &x.sh) {
                    (Some(a), Some(b)) => Some(zip(&a, b, cadd)),
                    _ => None,
                };
                e += x.err;
            }
            // every partial sum is truncated to the destination at the budget it has at that point
            if rs.len() >= 2 {
                let eff = |x: &Reg<F>| x.ct.effective_k();
                let off = eff(rs[0]).min(eff(rs[1])).saturating_sub(mkr);
                let mut lb_cur = rs[0].ct.log_budget().min(rs[1].ct.log_budget()).saturating_sub(off);
                e += em.trunc(lb_cur, mkr);
                for x in &rs[2..] {
                    lb_cur = lb_cur.min(x.ct.log_budget());
                    e += em.trunc(lb_cur, mkr);
                }
            }
            one(sh, e + 2.0 * t)
        }
        MulMany { regs, .. } => {
            let rs: Vec<&Reg<F>> = regs.regs().iter().map(|&i| r(i)).collect();
            let mut sh: Option<Vec<Cplx<F>>> = rs[0].sh.clone();
            for x in &rs[1..] {
                sh = match (sh, &x.sh) {
                    (Some(a), Some(b)) => Some(zip(&a, b, cmul)),
                    _ => None,
                };
            }
            let sims: Vec<Sim> = rs.iter().map(|x| Sim::of(*x)).collect();
            let e = match sim_mul_many(&sims, mkr, &em) {
                Ok(sm) => sm.err + t,
                Err(_) => f64::INFINITY,
            };
            one(sh, e)
        }
        DotCt { a, b, .. } => {
            let n = a.regs().len() as f64;
            let mut sh: Option<Vec<Cplx<F>>> = None;
            let mut e = 0.0;
            let mut lb0 = usize::MAX;
            let (mut ldmax, mut ldmin, mut tmp_k) = (0usize, usize::MAX, 0usize);
            for (i, (&x, &y)) in a.regs().iter().zip(b.regs()).enumerate() {
                let (rx, ry) = (r(x), r(y));
                let p = map2(rx, ry, &cmul);
                sh = if i == 0 {
                    p
                } else {
                    match (sh, p) {
                        (Some(s0), Some(p)) => Some(zip(&s0, &p, cadd)),
                        _ => None,
                    }
                };
                e += cross(rx.mag(), eop(rx), ry.mag(), eop(ry));
                lb0 = lb0.min(rx.ct.log_budget()).min(ry.ct.log_budget());
                ldmax = ldmax.max(rx.ct.log_delta()).max(ry.ct.log_delta());
                ldmin = ldmin.min(rx.ct.log_delta()).min(ry.ct.log_delta());
                tmp_k = tmp_k.max(rx.ct.max_k().as_usize()).max(ry.ct.max_k().as_usize());
            }
            let lb0 = lb0.saturating_sub(ldmax).max(lbr);
            e += n * (em.keyswitch(lb0) + em.tensor(lb0, tmp_k) + em.operand_floor(ldmin)) + t;
            one(sh, e)
        }
        DotPt { a, pt, .. } => {
            let n = a.regs().len();
            let mut sh: Option<Vec<Cplx<F>>> = None;
            let mut e = 0.0;
            for (i, &x) in a.regs().iter().enumerate() {
                let rx = r(x);
                let sel = PtSel {
                    idx: if matches!(pt.form, PtForm::VecZnx | PtForm::VecRnx) { pt.idx } else { CST_ROT[i] },
                    ..pt
                };
                let (pv, pm, pq) = pt_val(&sel);
                let p = rx.sh.as_ref().map(|v| zip(v, &pv, cmul));
                sh = if i == 0 {
                    p
                } else {
                    match (sh, p) {
                        (Some(s0), Some(p)) => Some(zip(&s0, &p, cadd)),
                        _ => None,
                    }
                };
                e += cross(rx.mag(), eop(rx), pm, pq) + 3.0 * em.operand_floor(rx.ct.log_delta());
            }
            let _ = n;
            one(sh, e + 2.0 * t)
        }
        Align { a, b } => {
            let mut out = vec![];
            for (i, (_, ct)) in [a, b].iter().zip(changed.iter()) {
                let ri = r(*i);
                out.push((ri.sh.clone(), ri.err + em.trunc(ct.log_budget(), ct.max_k().as_usize())));
            }
            let _ = ldr;
            out
        }
    }
}

// ------------------------------------------------------------------------------------------------------------
// observation: decrypt + decode under the ciphertext's own metadata

pub enum Observed<F: Real> {
    Slots(Vec<Cplx<F>>, usize),
    Failed { stage: &'static str, text: String, panic: bool },
}

pub fn observe<B: Cb, F: Real>(
    cx: &Ctx<B, F>,
    ct: &CKKSCiphertext<Vec<u8>>,
    log2_mag: f64,
    scratch: &mut Scr,
) -> Observed<F>
where
    Module<B>: HalAll<B> + CoreAll<B> + CkksAll<B>,
    Scratch<B>: ScratchTakeCore<B> + ScratchAvailable,
{
    // the position of the value is fixed by log_budget alone; log_delta only states how many bits below it are
    // meaningful.  Decode as finely as the element type and the 127-bit integer path admit (a strictly stronger
    // check than decoding at the ciphertext's own log_delta: the tolerance is the accumulated bound either way).
    let need = (log2_mag.ceil().max(0.0) as usize) + 3;
    let lb_pt = ct.log_budget().min(need);
    let ld_pt = F::MAX_DECODE_LD.min(120usize.saturating_sub(lb_pt)).max(1);
    let meta = CKKSMeta {
        log_delta: ld_pt,
        log_budget: lb_pt,
    };
    let mut pt = CKKSPlaintextVecZnx::alloc(ct.n(), ct.base2k(), meta);
    pvc_engine::rng::garbage(&mut pt.data_mut().data, 0);
    scratch.fill();
    let r = guarded(|| cx.module.ckks_decrypt(&mut pt, ct, &cx.sk, scratch.get::<B>()));
    match r {
        Err(p) => {
            return Observed::Failed {
                stage: "ckks_decrypt",
                text: p,
                panic: true,
            };
        }
        Ok(Err(e)) => {
            return Observed::Failed {
                stage: "ckks_decrypt",
                text: e.to_string(),
                panic: false,
            };
        }
        Ok(Ok(())) => {}
    }
    let m = cx.p.m();
    let mut rnx = CKKSPlaintextVecRnx::<F>::alloc(cx.p.n).unwrap();
    let mut re = vec![F::zero(); m];
    let mut im = vec![F::zero(); m];
    let r = guarded(|| -> anyhow::Result<()> {
        rnx.decode_from_znx(&pt)?;
        cx.enc.decode_reim(&rnx, &mut re, &mut im)
    });
    match r {
        Err(p) => Observed::Failed {
            stage: "decode",
            text: p,
            panic: true,
        },
        Ok(Err(e)) => Observed::Failed {
            stage: "decode",
            text: e.to_string(),
            panic: false,
        },
        Ok(Ok(())) => Observed::Slots(re.into_iter().zip(im).collect(), ld_pt),
    }
}

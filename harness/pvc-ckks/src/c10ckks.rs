//! C10, CKKS part - the scheme layer is bit-identical across the backends of one family.
//!
//! The same program of the C16 transition system (plus the composite operations and decrypt of the C12 part) is
//! executed in lockstep on a backend pair (FFT64Ref ~ FFT64Avx, NTT120Ref ~ NTT120Avx) from equal inputs and equal
//! seeds.  After every step the two executions must agree on the returned Ok/Err value, the metadata, the limb count
//! and the raw bytes of every written ciphertext, and on the bytes of its decryption (ZNX plaintext) and decoding
//! (slots).  The evaluation keys generated on each backend from the same seeds must serialise to the same bytes.
//!
//! Programs: all actions from every kept state, layer by layer.  The successors of the first `keep_all_layers`
//! layers are all kept (every program of that depth is a prefix); later layers keep one representative per C16
//! abstract key (first in (parent, action) order), so every program up to depth `keep_all_layers + 1` is executed
//! and deeper ones modulo the C16 state abstraction.

use std::collections::HashSet;
use std::sync::Mutex;

use poulpy_ckks::CKKSInfos;
use poulpy_ckks::CKKSMeta;
use poulpy_ckks::layouts::{CKKSCiphertext, CKKSPlaintextConversion, CKKSPlaintextVecRnx, CKKSPlaintextVecZnx};
use poulpy_ckks::leveled::CKKSDecrypt;
use poulpy_core::ScratchTakeCore;
use poulpy_core::layouts::LWEInfos;
use poulpy_hal::api::ScratchAvailable;
use poulpy_hal::layouts::{Module, Scratch};
use pvc_common::{CoreAll, FFT64Avx, FFT64Ref, HalAll, NTT120Avx, NTT120Ref, host_has_avx};
use pvc_engine::{Rec, Run, Tier, guarded};
use serde::{Deserialize, Serialize};
use serde_json::{Value, json};

use crate::c12ckks::{Win, XAct, exec, xmenu};
use crate::c16::{FailCtl, Key, Local, MenuCfg, blank_state, inits, menu_cfg, params_fft64, params_ntt120, succ_key, succ_state};
use crate::ctx::{Cb, CkksAll, Ctx, Params, Real};
use crate::ops::*;

#[derive(Clone, Debug, Serialize, Deserialize)]
pub struct PairCfg {
    pub name: String,
    /// "fft64" or "ntt120"
    pub family: String,
    pub elem: String,
    pub params: Params,
    pub menu: MenuCfg,
    pub composite_sizes: Vec<Dst>,
    pub depth: usize,
    /// number of leading layers whose successors are all kept (no merging by abstract key)
    pub keep_all_layers: usize,
}

/// lockstep state: the same program executed on both backends
pub struct PState<F: Real> {
    pub l: State<F>,
    pub r: State<F>,
}

fn reg_of<F: Real>(ct: CKKSCiphertext<Vec<u8>>) -> Reg<F> {
    Reg {
        ct,
        sh: None,
        err: 0.0,
        blank: false,
        lineage_uld: false,
    }
}

/// first differing i64 of two limb buffers of a ciphertext (n coefficients, 2 columns, limb-major layout)
fn first_diff(a: &[u8], b: &[u8], n: usize, cols: usize) -> Value {
    if a.len() != b.len() {
        return json!({"lengths": [a.len(), b.len()]});
    }
    for (i, (x, y)) in a.chunks_exact(8).zip(b.chunks_exact(8)).enumerate() {
        if x != y {
            let (xv, yv) = (i64::from_le_bytes(x.try_into().unwrap()), i64::from_le_bytes(y.try_into().unwrap()));
            return json!({"word": i, "limb": i / (n * cols), "col": (i / n) % cols, "coeff": i % n, "left": xv, "right": yv});
        }
    }
    Value::Null
}

struct Dec {
    status: String,
    pt: Vec<u8>,
    rnx: Vec<u64>,
    slots: Vec<u64>,
}

/// decryption + decoding of a ciphertext under its own metadata (finest precision the element type admits)
fn decrypt_decode<B: Cb, F: Real>(cx: &Ctx<B, F>, ct: &CKKSCiphertext<Vec<u8>>, scr: &mut Scr) -> Dec
where
    Module<B>: HalAll<B> + CoreAll<B> + CkksAll<B>,
    Scratch<B>: ScratchTakeCore<B> + ScratchAvailable,
{
    let lb_pt = ct.log_budget().min(12);
    let ld_pt = F::MAX_DECODE_LD.min(120 - lb_pt).max(1);
    let mut pt = CKKSPlaintextVecZnx::alloc(
        ct.n(),
        ct.base2k(),
        CKKSMeta {
            log_delta: ld_pt,
            log_budget: lb_pt,
        },
    );
    pvc_engine::rng::garbage(&mut pt.data_mut().data, 0);
    scr.fill();
    let r = guarded(|| cx.module.ckks_decrypt(&mut pt, ct, &cx.sk, scr.get::<B>()));
    let mut out = Dec {
        status: "ok".into(),
        pt: vec![],
        rnx: vec![],
        slots: vec![],
    };
    match r {
        Err(_) => {
            out.status = "decrypt:panic".into();
            return out;
        }
        Ok(Err(e)) => {
            out.status = format!("decrypt:err:{e}");
            return out;
        }
        Ok(Ok(())) => {}
    }
    out.pt = pt.data().data.clone();
    let m = cx.p.m();
    let mut rnx = CKKSPlaintextVecRnx::<F>::alloc(cx.p.n).unwrap();
    let mut re = vec![F::zero(); m];
    let mut im = vec![F::zero(); m];
    let r = guarded(|| -> anyhow::Result<()> {
        rnx.decode_from_znx(&pt)?;
        cx.enc.decode_reim(&rnx, &mut re, &mut im)
    });
    match r {
        Err(_) => out.status = "decode:panic".into(),
        Ok(Err(e)) => out.status = format!("decode:err:{e}"),
        Ok(Ok(())) => {
            // compare through f64 bit patterns of (hi, lo) splits: exact for f64, 106 bits for f128
            let bits = |x: F| -> [u64; 2] {
                let hi = x.to64();
                let lo = (x - F::f(hi)).to64();
                [hi.to_bits(), lo.to_bits()]
            };
            out.rnx = rnx.data().iter().flat_map(|x| bits(*x)).collect();
            out.slots = re.iter().chain(im.iter()).flat_map(|x| bits(*x)).collect();
        }
    }
    out
}

/// status normalised for comparison: panic locations differ legitimately between backends
fn norm_status(s: &str) -> String {
    if s.starts_with("panic:") { "panic".into() } else { s.to_string() }
}

pub struct StepOut<F: Real> {
    pub next: Option<(Vec<(usize, Reg<F>)>, Vec<(usize, Reg<F>)>)>,
}

#[allow(clippy::too_many_arguments)]
fn step_pair<L: Cb, R: Cb, F: Real>(
    cl: &Ctx<L, F>,
    cr: &Ctx<R, F>,
    cfg: &PairCfg,
    init: usize,
    ps: &PState<F>,
    xtrace: &[XAct],
    xa: &XAct,
    seed: u64,
    scr: &mut Scr,
    rec: &mut Rec,
    fc: &FailCtl,
    local: &std::cell::RefCell<Local>,
) -> StepOut<F>
where
    Module<L>: HalAll<L> + CoreAll<L> + CkksAll<L>,
    Scratch<L>: ScratchTakeCore<L> + ScratchAvailable,
    Module<R>: HalAll<R> + CoreAll<R> + CkksAll<R>,
    Scratch<R>: ScratchTakeCore<R> + ScratchAvailable,
{
    let depth = ps.l.trace.len();
    let (ol, sl) = exec(cl, &ps.l, xa, &mut Win::Ample(scr), seed, depth);
    let (or, sr) = exec(cr, &ps.r, xa, &mut Win::Ample(scr), seed, depth);
    rec.evals(1);
    let opname = xa.name();
    let pair = format!("{}~{}", L::NAME, R::NAME);
    let none = StepOut { next: None };
    let mismatch = |rec: &mut Rec, what: &str, extra: Value| {
        let class = format!("{opname}|backend_mismatch|{what}");
        fc.report(rec, local, class, || {
            let mut d = json!({
                "op": opname, "backend": pair, "elem": F::NAME, "kind": "backend_mismatch", "what": what,
                "case": {"cfg": cfg.name, "init": init, "trace": xtrace},
                "inner": {"step": depth, "xact": xa},
                "status_left": ol.status, "status_right": or.status,
            });
            if let (Value::Object(m), Value::Object(e)) = (&mut d, extra) {
                for (k, v) in e {
                    m.insert(k, v);
                }
            }
            d
        });
    };
    if norm_status(&ol.status) != norm_status(&or.status) {
        mismatch(rec, "status", json!({}));
        return none;
    }
    if ol.panicked {
        rec.add("both_panicked(other_properties)", 1);
        return none;
    }
    // plaintexts written by decrypt / extract
    if sl.pt != sr.pt {
        let d = match (&sl.pt, &sr.pt) {
            (Some(a), Some(b)) => first_diff(a, b, cl.p.n, 1),
            _ => Value::Null,
        };
        mismatch(rec, "plaintext_bytes", json!({"first_difference": d}));
        return none;
    }
    if sl.produced.len() != sr.produced.len() {
        mismatch(rec, "written_registers", json!({"left": sl.produced.len(), "right": sr.produced.len()}));
        return none;
    }
    for ((il, a), (ir, b)) in sl.produced.iter().zip(sr.produced.iter()) {
        if il != ir {
            mismatch(rec, "written_registers", json!({"left": il, "right": ir}));
            return none;
        }
        if a.log_delta() != b.log_delta() || a.log_budget() != b.log_budget() {
            mismatch(
                rec,
                "metadata",
                json!({"reg": il, "left": [a.log_delta(), a.log_budget()], "right": [b.log_delta(), b.log_budget()]}),
            );
            return none;
        }
        if a.size() != b.size() || a.data().max_size() != b.data().max_size() {
            mismatch(rec, "limb_count", json!({"reg": il, "left": a.size(), "right": b.size()}));
            return none;
        }
        if a.data().data != b.data().data {
            mismatch(
                rec,
                "ciphertext_bytes",
                json!({"reg": il, "first_difference": first_diff(&a.data().data, &b.data().data, cl.p.n, 2), "size": a.size()}),
            );
            return none;
        }
        // decryption + decoding (only meaningful for consistent metadata)
        if a.log_delta() + a.log_budget() <= a.max_k().as_usize() && a.log_delta() > 0 {
            let dl = decrypt_decode(cl, a, scr);
            let dr = decrypt_decode(cr, b, scr);
            rec.add("decryptions_compared", 1);
            if dl.status != dr.status {
                mismatch(rec, "decrypt_status", json!({"reg": il, "left": dl.status, "right": dr.status}));
                return none;
            }
            if dl.pt != dr.pt {
                mismatch(rec, "decrypted_plaintext_bytes", json!({"reg": il, "first_difference": first_diff(&dl.pt, &dr.pt, cl.p.n, 1)}));
                return none;
            }
            if dl.rnx != dr.rnx || dl.slots != dr.slots {
                let at = dl.slots.iter().zip(dr.slots.iter()).position(|(x, y)| x != y);
                mismatch(rec, "decoded_slots", json!({"reg": il, "first_differing_word": at}));
                return none;
            }
        }
    }
    if ol.status == "ok" {
        rec.add("ok_steps", 1);
    } else {
        rec.add("err_steps", 1);
    }
    rec.outcome(pvc_engine::fnv(format!("{opname}/{}", ol.status.split(':').take(2).collect::<Vec<_>>().join(":")).as_bytes()));
    {
        // distinct non-trivial class: operation x outcome x result metadata
        let mut v: Vec<i64> = vec![pvc_engine::fnv(opname.as_bytes()) as i64, (ol.status == "ok") as i64];
        for (_, c) in &sl.produced {
            v.extend_from_slice(&[c.log_delta() as i64, c.log_budget() as i64, c.size() as i64]);
        }
        rec.distinct(pvc_engine::hash_i64s(&v));
    }
    if sl.produced.is_empty() {
        return none;
    }
    // successor only for results the C16 machinery can carry on (metadata within storage)
    if sl.produced.iter().any(|(_, c)| c.log_delta() + c.log_budget() > c.max_k().as_usize()) {
        return none;
    }
    let l: Vec<(usize, Reg<F>)> = sl.produced.into_iter().map(|(i, c)| (i, reg_of(c))).collect();
    let r: Vec<(usize, Reg<F>)> = sr.produced.into_iter().map(|(i, c)| (i, reg_of(c))).collect();
    StepOut { next: Some((l, r)) }
}

#[derive(Serialize)]
struct Case {
    cfg: String,
    init: usize,
    idx: usize,
    trace: Vec<XAct>,
}

struct Succ<F: Real> {
    key: Key,
    xa: XAct,
    l: Vec<(usize, Reg<F>)>,
    r: Vec<(usize, Reg<F>)>,
}

/// C16 `State::trace` holds base actions only; this part's traces may contain composite steps: kept separately.
struct Node<F: Real> {
    init: usize,
    ps: PState<F>,
    xtrace: Vec<XAct>,
}

fn apply_x<F: Real>(st: &State<F>, xa: &XAct, ch: Vec<(usize, Reg<F>)>) -> State<F> {
    // the base-action trace of the C16 state is only used for seeding by depth: push a placeholder of equal length
    let place = match xa {
        XAct::Base(a) => *a,
        _ => Action::NegAssign { dst: 0 },
    };
    succ_state(st, &place, ch)
}

fn pair<L: Cb, R: Cb, F: Real>(run: &mut Run, cfg: &PairCfg)
where
    Module<L>: HalAll<L> + CoreAll<L> + CkksAll<L>,
    Scratch<L>: ScratchTakeCore<L> + ScratchAvailable,
    Module<R>: HalAll<R> + CoreAll<R> + CkksAll<R>,
    Scratch<R>: ScratchTakeCore<R> + ScratchAvailable,
{
    let seed = run.seed;
    let pairname = format!("{}~{}", L::NAME, R::NAME);
    let keyfam = format!("ckks_keys/{}", cfg.name);
    let progfam = |d: usize| format!("ckks_programs/{}/depth{}", cfg.name, d);
    if !run.wants(&keyfam) && !(1..=cfg.depth).any(|d| run.wants(&progfam(d))) {
        return;
    }
    let cl = Ctx::<L, F>::new(&cfg.params, seed);
    let cr = Ctx::<R, F>::new(&cfg.params, seed);
    // ---- keys
    run.single(&keyfam, "serialised tensor key and automorphism keys generated on both backends from the same seeds", |rec| {
        for ((nl, bl), (nr, br)) in cl.key_bytes.iter().zip(cr.key_bytes.iter()) {
            rec.evals(1);
            assert_eq!(nl, nr);
            if bl != br {
                let at = bl.iter().zip(br.iter()).position(|(x, y)| x != y);
                rec.fail(json!({"op": "key_generation", "backend": pairname, "elem": F::NAME, "kind": "backend_mismatch", "what": "serialised_key_bytes",
                    "case": {"cfg": cfg.name, "key": nl}, "inner": {"first_differing_byte": at, "lengths": [bl.len(), br.len()]}}));
            } else {
                rec.distinct(pvc_engine::fnv(bl));
            }
        }
    });
    let fc = FailCtl::new(3);
    let dummy = Mutex::new(Default::default());
    // ---- starting points
    let mut frontier: Vec<Node<F>> = vec![];
    {
        let mut scr = Scr::new(cl.scratch_bytes.max(cr.scratch_bytes));
        let local = std::cell::RefCell::new(Local::default());
        let mut rec0 = Rec::new();
        for (i, tr) in inits().iter().enumerate() {
            let mut ps = PState {
                l: blank_state(&cl),
                r: blank_state(&cr),
            };
            let mut xtrace = vec![];
            let mut ok = true;
            for a in tr {
                let xa = XAct::Base(*a);
                let so = step_pair(&cl, &cr, cfg, i, &ps, &xtrace, &xa, seed, &mut scr, &mut rec0, &fc, &local);
                match so.next {
                    Some((l, r)) => {
                        ps = PState {
                            l: apply_x(&ps.l, &xa, l),
                            r: apply_x(&ps.r, &xa, r),
                        };
                        xtrace.push(xa);
                    }
                    None => {
                        ok = false;
                        break;
                    }
                }
            }
            if ok {
                frontier.push(Node { init: i, ps, xtrace });
            }
        }
        // failures of the encrypt prefixes are reported through a one-case family
        let fails: Vec<Value> = rec0.failures.iter().map(|f| f.desc.clone()).collect();
        let n0 = rec0.evaluations;
        run.single(&format!("ckks_programs/{}/init", cfg.name), "encrypt prefixes of the starting points, compared step by step", |rec| {
            rec.evals(n0);
            for f in fails {
                rec.fail(f);
            }
        });
    }
    let mut seen: HashSet<(usize, Key)> = HashSet::new();
    let mut programs: u64 = 0;
    for d in 0..cfg.depth {
        let last = d + 1 == cfg.depth;
        let keep_all = d < cfg.keep_all_layers;
        let fam = progfam(d + 1);
        let n = frontier.len();
        let slots: Vec<Mutex<Option<Vec<Succ<F>>>>> = (0..n).map(|_| Mutex::new(None)).collect();
        let cases: Vec<Case> = frontier
            .iter()
            .enumerate()
            .map(|(i, nd)| Case {
                cfg: cfg.name.clone(),
                init: nd.init,
                idx: i,
                trace: nd.xtrace.clone(),
            })
            .collect();
        let fr = &frontier;
        run.family(
            &fam,
            "outer case = one program prefix executed in lockstep on both backends; inner = every action of the menu (C16 menu + add_many / mul_many / dot_product_* / decrypt / extract); evaluations = lockstep steps, each compared on Ok/Err, metadata, limb count, ciphertext bytes, decrypted plaintext bytes and decoded slots",
            cases,
            |c, rec| {
                let nd = &fr[c.idx];
                let mut scr = Scr::new(cl.scratch_bytes.max(cr.scratch_bytes));
                let local = std::cell::RefCell::new(Local::default());
                let acts = xmenu(&cl, &nd.ps.l, &cfg.menu, &cfg.composite_sizes);
                let mut succ = vec![];
                let mut local_keys: HashSet<Key> = HashSet::new();
                for xa in &acts {
                    let so = step_pair(&cl, &cr, cfg, nd.init, &nd.ps, &nd.xtrace, xa, seed, &mut scr, rec, &fc, &local);
                    if last {
                        continue;
                    }
                    if let Some((l, r)) = so.next {
                        let key = succ_key(&nd.ps.l, &l);
                        if keep_all || local_keys.insert(key) {
                            succ.push(Succ { key, xa: xa.clone(), l, r });
                        }
                    }
                }
                rec.sample(|| json!({"trace": c.trace, "actions": acts.len()}));
                fc.merge_local(local.into_inner(), &dummy);
                *slots[c.idx].lock().unwrap() = Some(succ);
            },
        );
        if !run.wants(&fam) {
            return;
        }
        let frr = run.families.last().unwrap();
        programs += frr.rec.evaluations;
        let capped = frr.capped || frr.outer_done != frr.outer_cases;
        let mut next: Vec<Node<F>> = vec![];
        for (i, slot) in slots.into_iter().enumerate() {
            let Some(list) = slot.into_inner().unwrap() else {
                continue;
            };
            for s in list {
                if keep_all || seen.insert((d + 1, s.key)) {
                    let nd = &frontier[i];
                    let mut xtrace = nd.xtrace.clone();
                    xtrace.push(s.xa.clone());
                    next.push(Node {
                        init: nd.init,
                        ps: PState {
                            l: apply_x(&nd.ps.l, &s.xa, s.l),
                            r: apply_x(&nd.ps.r, &s.xa, s.r),
                        },
                        xtrace,
                    });
                }
            }
        }
        eprintln!("[C10]   {} depth {}: prefixes {} steps {} kept successors {}", cfg.name, d + 1, n, frr.rec.evaluations, next.len());
        if capped {
            break;
        }
        frontier = next;
    }
    run.note(&format!("ckks_lockstep_steps/{}", cfg.name), json!(programs));
    let classes = fc.classes();
    if !classes.is_empty() {
        run.note(&format!("ckks_failure_classes/{}", cfg.name), json!(classes));
    }
}

fn configs(tier: Tier) -> Vec<PairCfg> {
    let pf = params_fft64();
    let pn = params_ntt120(false);
    let big = |p: &Params| p.k_max.div_ceil(p.base2k) as u8;
    let mk = |name: &str, family: &str, p: &Params, depth: usize, keep_all_layers: usize| PairCfg {
        name: name.into(),
        family: family.into(),
        elem: "f64".into(),
        menu: menu_cfg(p, 0),
        composite_sizes: vec![Dst::Keep, Dst::Limbs((big(p) / 3).max(1)), Dst::Limbs(big(p) + 1)],
        params: p.clone(),
        depth,
        keep_all_layers,
    };
    match tier {
        Tier::Quick => vec![mk("fft64/quick", "fft64", &pf, 2, 0), mk("ntt120/quick", "ntt120", &pn, 2, 0)],
        Tier::Thorough => vec![mk("fft64/deep", "fft64", &pf, 3, 1), mk("ntt120/deep", "ntt120", &pn, 3, 1)],
    }
}

fn dispatch(run: &mut Run, cfg: &PairCfg) {
    match cfg.family.as_str() {
        "fft64" => pair::<FFT64Ref, FFT64Avx, f64>(run, cfg),
        "ntt120" => pair::<NTT120Ref, NTT120Avx, f64>(run, cfg),
        o => panic!("unknown backend family {o}"),
    }
}

pub fn run(run: &mut Run) {
    run.assume("ckks part: pairs (fft64-ref ~ fft64-avx) and (ntt120-ref ~ ntt120-avx) at n=16; the two families use different base2k in these configurations, so no cross-family comparison is made; the secret key has no serialisable form and is drawn without the backend (not compared); prepared keys are backend-specific (not compared)");
    run.assume("ckks part: a step on which both backends panic is counted, not compared further (no-panic is C16's business); panic messages are compared only as 'panicked', error values textually");
    run.assume("ckks part: quick merges depth-1 results by the C16 abstract key before expanding to depth 2 (every program of depth 1 and every action from one representative per key); thorough keeps every depth-1 result (every program of depth <= 2) and merges from depth 2 on");
    if !host_has_avx() {
        run.note("ckks_skipped", json!("host lacks AVX2/FMA: the AVX pairs are skipped"));
        return;
    }
    for cfg in configs(run.tier) {
        dispatch(run, &cfg);
    }
}

fn replay_pair<L: Cb, R: Cb, F: Real>(run: &mut Run, cfg: &PairCfg, init: usize, trace: &[XAct], last: Option<&XAct>)
where
    Module<L>: HalAll<L> + CoreAll<L> + CkksAll<L>,
    Scratch<L>: ScratchTakeCore<L> + ScratchAvailable,
    Module<R>: HalAll<R> + CoreAll<R> + CkksAll<R>,
    Scratch<R>: ScratchTakeCore<R> + ScratchAvailable,
{
    let seed = run.seed;
    let cl = Ctx::<L, F>::new(&cfg.params, seed);
    let cr = Ctx::<R, F>::new(&cfg.params, seed);
    let fc = FailCtl::new(1000);
    run.single("ckks_replay", "re-executes the recorded program in lockstep with every comparison", |rec| {
        let mut scr = Scr::new(cl.scratch_bytes.max(cr.scratch_bytes));
        let local = std::cell::RefCell::new(Local::default());
        let mut ps = PState {
            l: blank_state(&cl),
            r: blank_state(&cr),
        };
        let mut done: Vec<XAct> = vec![];
        for xa in trace.iter().chain(last) {
            let so = step_pair(&cl, &cr, cfg, init, &ps, &done, xa, seed, &mut scr, rec, &fc, &local);
            done.push(xa.clone());
            match so.next {
                Some((l, r)) => {
                    ps = PState {
                        l: apply_x(&ps.l, xa, l),
                        r: apply_x(&ps.r, xa, r),
                    }
                }
                None => break,
            }
        }
    });
}

/// false: the descriptor is not one of this part's families
pub fn replay(run: &mut Run, d: &Value) -> bool {
    let fam = d["family"].as_str().unwrap_or("");
    if !fam.starts_with("ckks_") {
        return false;
    }
    let name = d["case"]["cfg"].as_str().expect("replay: case.cfg").to_string();
    let cfg = configs(Tier::Quick)
        .into_iter()
        .chain(configs(Tier::Thorough))
        .find(|c| c.name == name)
        .unwrap_or_else(|| panic!("replay: unknown configuration {name}"));
    if fam.starts_with("ckks_keys") {
        // key generation is re-checked by running the key family of that configuration
        run.only = Some(format!("ckks_keys/{}", cfg.name));
        dispatch(run, &cfg);
        return true;
    }
    let init = d["case"]["init"].as_u64().unwrap_or(0) as usize;
    let trace: Vec<XAct> = serde_json::from_value(d["case"]["trace"].clone()).expect("replay: case.trace");
    let last: Option<XAct> = serde_json::from_value(d["inner"]["xact"].clone()).ok();
    match cfg.family.as_str() {
        "fft64" => replay_pair::<FFT64Ref, FFT64Avx, f64>(run, &cfg, init, &trace, last.as_ref()),
        "ntt120" => replay_pair::<NTT120Ref, NTT120Avx, f64>(run, &cfg, init, &trace, last.as_ref()),
        o => panic!("unknown backend family {o}"),
    }
    true
}

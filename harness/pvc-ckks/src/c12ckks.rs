//! C12, CKKS part - a scratch window of exactly the bytes the operation's own companion `*_tmp_bytes` query returns
//! suffices, nothing outside the window is touched, and the result does not depend on what the window held.
//!
//! Operand states: the metadata states reachable in <= 2 steps of the C16 transition system from its starting points
//! (the C16 breadth-first search is reused without its value checks).  For every (state, action) the real call is
//! made three times on a window [canary pad | exactly tmp_bytes | canary pad] pre-filled with zeros, the NaN pattern
//! and the large-value pattern.  Actions: the C16 menu (every scratch-taking public operation) plus the composite
//! operations C16 leaves out: ckks_add_many, ckks_mul_many, ckks_dot_product_ct / _pt_vec_znx / _pt_vec_rnx /
//! _pt_const_znx / _pt_const_rnx with operand lists of 1..4 registers, ckks_decrypt and ckks_extract_pt_znx.
//!
//! Verdicts: panic mentioning the scratch -> `scratch_too_small`; damaged canary -> `scratch_overrun`; differing
//! Ok/Err, metadata or result bytes between fills -> `scratch_dependent_result`.  Any other panic belongs to other
//! properties (C16) and is only counted.

use std::collections::HashSet;
use std::sync::Mutex;

use poulpy_ckks::layouts::{CKKSCiphertext, CKKSPlaintextCstRnx, CKKSPlaintextCstZnx, CKKSPlaintextVecRnx, CKKSPlaintextVecZnx};
use poulpy_ckks::leveled::{
    CKKSAddManyOps, CKKSAddOps, CKKSConjugateOps, CKKSDecrypt, CKKSDotProductOps, CKKSEncrypt, CKKSMulAddOps, CKKSMulManyOps,
    CKKSMulOps, CKKSMulSubOps, CKKSNegOps, CKKSPlaintextZnxOps, CKKSPow2Ops, CKKSRescaleOps, CKKSRotateOps, CKKSSubOps,
};
use poulpy_ckks::{CKKSCompositionError, CKKSInfos, CKKSMeta};
use poulpy_core::layouts::{GLWELayout, GLWEPlaintext, LWEInfos};
use poulpy_core::{GLWEDecrypt, ScratchTakeCore};
use poulpy_hal::api::ScratchAvailable;
use poulpy_hal::layouts::{Module, Scratch};
use pvc_common::{CoreAll, FFT64Avx, FFT64Ref, HalAll, NTT120Ref, host_has_avx};
use pvc_engine::rng::garbage;
use pvc_engine::{Rec, Run, Tier, fnv, guarded};
use serde::{Deserialize, Serialize};
use serde_json::{Value, json};

use crate::c16::{FailCtl, Local, MenuCfg, blank_state, inits, menu, menu_cfg, params_fft64, params_ntt120, squash_digits, succ_key, succ_state};
use crate::ctx::{Cb, CkksAll, Ctx, Params, Real};
use crate::ops::*;

const CANARY: u8 = 0xC5;
const PAD: usize = 128;
const FILLS: [(usize, &str); 3] = [(2, "zeros"), (0, "nan"), (1, "large")];

/// Actions of this part: a C16 action, or one of the operations outside the C16 menu.
#[derive(Clone, Debug, PartialEq, Eq, Hash, Serialize, Deserialize)]
pub enum XAct {
    Base(Action),
    AddMany { dst: u8, size: Dst, regs: Vec<u8> },
    MulMany { dst: u8, size: Dst, regs: Vec<u8> },
    DotCt { dst: u8, size: Dst, a: Vec<u8>, b: Vec<u8> },
    /// weights: plaintext operand of the given form/precision (vector or constant index per term)
    DotPt { dst: u8, size: Dst, a: Vec<u8>, form: PtForm, prec: u8, idx: Vec<u8> },
    Decrypt { a: u8, log_delta: u8, log_budget: u8 },
    Extract { a: u8, log_delta: u8, log_budget: u8 },
}

impl XAct {
    pub fn name(&self) -> String {
        match self {
            XAct::Base(a) => a.name(),
            XAct::AddMany { .. } => "add_many".into(),
            XAct::MulMany { .. } => "mul_many".into(),
            XAct::DotCt { .. } => "dot_product_ct".into(),
            XAct::DotPt { form, .. } => format!("dot_product_pt_{}", format!("{form:?}").to_lowercase()),
            XAct::Decrypt { .. } => "decrypt".into(),
            XAct::Extract { .. } => "extract_pt_znx".into(),
        }
    }
}

fn layout_of(p: &Params, limbs: usize) -> GLWELayout {
    p.glwe_layout(limbs * p.base2k)
}

/// The companion query of the operation, called with the layouts of the actual destination / operands.
/// `None`: the operation takes no scratch.
pub fn companion_bytes<B: Cb, F: Real>(cx: &Ctx<B, F>, st: &State<F>, act: &Action) -> Option<usize>
where
    Module<B>: HalAll<B> + CoreAll<B> + CkksAll<B>,
    Scratch<B>: ScratchTakeCore<B> + ScratchAvailable,
{
    use Action::*;
    let m = &cx.module;
    let reg = |i: u8| -> &CKKSCiphertext<Vec<u8>> { &st.regs[i as usize].ct };
    let res = |dst: u8, size: Dst| layout_of(&cx.p, dst_limbs(st, dst, size));
    let prec = |pt: &PtSel| cx.pt_meta(pt.prec as usize);
    // queries without an operand slot (ct-ct products): the layout of the largest ciphertext taking part
    let largest = |dst_limbs: usize, ops: &[u8]| layout_of(&cx.p, ops.iter().map(|&r| reg(r).size()).fold(dst_limbs, usize::max));
    Some(match *act {
        Encrypt { start, .. } => m.ckks_encrypt_sk_tmp_bytes(&cx.p.glwe_layout(cx.p.starts[start as usize].k)),
        CtInto { op, dst, size, a, b } => match op {
            Arith::Add => m.ckks_add_tmp_bytes(),
            Arith::Sub => m.ckks_sub_tmp_bytes(),
            Arith::Mul => m.ckks_mul_tmp_bytes(&largest(dst_limbs(st, dst, size), &[a, b]), &cx.tsk_layout),
            Arith::MulAdd => m.ckks_mul_add_ct_tmp_bytes(&largest(reg(dst).size(), &[a, b]), &cx.tsk_layout),
            Arith::MulSub => m.ckks_mul_sub_ct_tmp_bytes(&largest(reg(dst).size(), &[a, b]), &cx.tsk_layout),
        },
        CtAssign { op, dst, a } => match op {
            Arith::Add => m.ckks_add_tmp_bytes(),
            Arith::Sub => m.ckks_sub_tmp_bytes(),
            _ => m.ckks_mul_tmp_bytes(&largest(reg(dst).size(), &[a]), &cx.tsk_layout),
        },
        SquareInto { dst, size, a } => m.ckks_square_tmp_bytes(&largest(dst_limbs(st, dst, size), &[a]), &cx.tsk_layout),
        SquareAssign { dst } => m.ckks_square_tmp_bytes(reg(dst), &cx.tsk_layout),
        PtInto { op, pt, dst, size, a } => {
            let acc = matches!(op, Arith::MulAdd | Arith::MulSub);
            let r = if acc { layout_of(&cx.p, reg(dst).size()) } else { res(dst, size) };
            let vec = matches!(pt.form, PtForm::VecZnx | PtForm::VecRnx);
            match (op, pt.form) {
                (Arith::Add, PtForm::VecZnx) => m.ckks_add_pt_vec_znx_tmp_bytes(),
                (Arith::Add, PtForm::VecRnx) => m.ckks_add_pt_vec_rnx_tmp_bytes(&r, reg(a), &prec(&pt)),
                (Arith::Add, _) => m.ckks_add_pt_const_tmp_bytes(),
                (Arith::Sub, PtForm::VecZnx) => m.ckks_sub_pt_vec_znx_tmp_bytes(),
                (Arith::Sub, PtForm::VecRnx) => m.ckks_sub_pt_vec_rnx_tmp_bytes(&r, reg(a), &prec(&pt)),
                (Arith::Sub, _) => m.ckks_sub_pt_const_tmp_bytes(),
                (Arith::Mul, PtForm::VecZnx) => m.ckks_mul_pt_vec_znx_tmp_bytes(&r, reg(a), &prec(&pt)),
                (Arith::Mul, PtForm::VecRnx) => m.ckks_mul_pt_vec_rnx_tmp_bytes(&r, reg(a), &prec(&pt)),
                (Arith::Mul, _) => m.ckks_mul_pt_const_tmp_bytes(&r, reg(a), &prec(&pt)),
                (Arith::MulAdd, PtForm::VecZnx) => m.ckks_mul_add_pt_vec_znx_tmp_bytes(&r, reg(a), &prec(&pt)),
                (Arith::MulAdd, PtForm::VecRnx) => m.ckks_mul_add_pt_vec_rnx_tmp_bytes(&r, reg(a), &prec(&pt)),
                (Arith::MulAdd, _) => m.ckks_mul_add_pt_const_tmp_bytes(&r, reg(a), &prec(&pt)),
                (Arith::MulSub, PtForm::VecZnx) => m.ckks_mul_sub_pt_vec_znx_tmp_bytes(&r, reg(a), &prec(&pt)),
                (Arith::MulSub, PtForm::VecRnx) => m.ckks_mul_sub_pt_vec_rnx_tmp_bytes(&r, reg(a), &prec(&pt)),
                (Arith::MulSub, _) => {
                    let _ = vec;
                    m.ckks_mul_sub_pt_const_tmp_bytes(&r, reg(a), &prec(&pt))
                }
            }
        }
        PtAssign { op, pt, dst } => match (op, pt.form) {
            (Arith::Add, PtForm::VecZnx) => m.ckks_add_pt_vec_znx_tmp_bytes(),
            (Arith::Add, PtForm::VecRnx) => m.ckks_add_pt_vec_rnx_tmp_bytes(reg(dst), reg(dst), &prec(&pt)),
            (Arith::Add, _) => m.ckks_add_pt_const_tmp_bytes(),
            (Arith::Sub, PtForm::VecZnx) => m.ckks_sub_pt_vec_znx_tmp_bytes(),
            (Arith::Sub, PtForm::VecRnx) => m.ckks_sub_pt_vec_rnx_tmp_bytes(reg(dst), reg(dst), &prec(&pt)),
            (Arith::Sub, _) => m.ckks_sub_pt_const_tmp_bytes(),
            (_, PtForm::VecZnx) => m.ckks_mul_pt_vec_znx_tmp_bytes(reg(dst), reg(dst), &prec(&pt)),
            (_, PtForm::VecRnx) => m.ckks_mul_pt_vec_rnx_tmp_bytes(reg(dst), reg(dst), &prec(&pt)),
            (_, _) => m.ckks_mul_pt_const_tmp_bytes(reg(dst), reg(dst), &prec(&pt)),
        },
        NegInto { .. } => m.ckks_neg_tmp_bytes(),
        MulPow2Into { .. } | MulPow2Assign { .. } => m.ckks_mul_pow2_tmp_bytes(),
        DivPow2Into { .. } => m.ckks_div_pow2_tmp_bytes(),
        // the query has a single ciphertext parameter: the ciphertext being rotated / conjugated
        RotateInto { a, .. } => m.ckks_rotate_tmp_bytes(reg(a), &cx.atk_layout),
        RotateAssign { dst, .. } => m.ckks_rotate_tmp_bytes(reg(dst), &cx.atk_layout),
        ConjInto { a, .. } => m.ckks_conjugate_tmp_bytes(reg(a), &cx.atk_layout),
        ConjAssign { dst } => m.ckks_conjugate_tmp_bytes(reg(dst), &cx.atk_layout),
        RescaleInto { .. } | RescaleAssign { .. } => m.ckks_rescale_tmp_bytes(),
        Align { .. } => m.ckks_align_tmp_bytes(),
        NegAssign { .. } | DivPow2Assign { .. } | Compact { .. } | CompactCopy { .. } | Realloc { .. } => return None,
        // the composites are driven through `XAct` in this part (the base menu is generated without them)
        AddMany { .. } | MulMany { .. } | DotCt { .. } | DotPt { .. } => return None,
    })
}

/// what one execution produced, in a form comparable across scratch fills
#[derive(Clone, Debug, PartialEq)]
pub struct Obs {
    /// "ok", "err:<text>" or "panic:<text>"
    pub status: String,
    pub panicked: bool,
    /// metadata + bytes of every produced object (only when the call returned Ok)
    pub digest: Vec<u64>,
    pub canaries_ok: bool,
}

fn digest_ct(ct: &CKKSCiphertext<Vec<u8>>, out: &mut Vec<u64>) {
    out.extend_from_slice(&[ct.log_delta() as u64, ct.log_budget() as u64, ct.size() as u64, fnv(&ct.data().data)]);
}

/// where the call gets its scratch from: an exact window pre-filled with pattern `fill` (C12), or the harness's
/// ample arena (other parts that reuse the action executor)
pub enum Win<'a> {
    Exact(usize),
    Ample(&'a mut Scr),
}

fn window<B: Cb, T>(win: &mut Win, bytes: usize, f: impl FnOnce(&mut Scratch<B>) -> T) -> (Result<T, String>, bool) {
    match win {
        Win::Exact(fill) => {
            let mut buf = poulpy_hal::alloc_aligned::<u8>(PAD + bytes + PAD + 64);
            buf.fill(CANARY);
            garbage(&mut buf[PAD..PAD + bytes], *fill);
            let r = guarded(|| f(B::scratch_from_bytes(&mut buf[PAD..PAD + bytes])));
            let ok = buf[..PAD].iter().all(|x| *x == CANARY) && buf[PAD + bytes..].iter().all(|x| *x == CANARY);
            (r, ok)
        }
        Win::Ample(scr) => {
            scr.fill();
            (guarded(|| f(scr.get::<B>())), true)
        }
    }
}

fn status_of(r: &Result<anyhow::Result<()>, String>) -> (String, bool) {
    match r {
        Ok(Ok(())) => ("ok".into(), false),
        Ok(Err(e)) => (
            format!(
                "err:{}:{}",
                e.downcast_ref::<CKKSCompositionError>().map(|v| format!("{:?}", variant_kind(v))).unwrap_or("Other".into()),
                e
            ),
            false,
        ),
        Err(p) => (format!("panic:{p}"), true),
    }
}

pub struct Shape {
    pub bytes: Option<usize>,
    pub extra: Value,
    /// (register, object) written by a successful call
    pub produced: Vec<(usize, CKKSCiphertext<Vec<u8>>)>,
    /// bytes of the plaintext written by decrypt / extract
    pub pt: Option<Vec<u8>>,
}

/// Executes `xa` once on an exact window filled with pattern `fill`.
pub fn exec<B: Cb, F: Real>(cx: &Ctx<B, F>, st: &State<F>, xa: &XAct, win: &mut Win, seed: u64, depth: usize) -> (Obs, Shape)
where
    Module<B>: HalAll<B> + CoreAll<B> + CkksAll<B>,
    Scratch<B>: ScratchTakeCore<B> + ScratchAvailable,
{
    let m = &cx.module;
    let reg = |i: u8| -> &CKKSCiphertext<Vec<u8>> { &st.regs[i as usize].ct };
    let fresh = |dst: u8, size: Dst| cx.blank(dst_limbs(st, dst, size), 0);
    let lb_set = |rs: &[u8]| -> bool {
        let l0 = reg(rs[0]).log_budget();
        let d0 = reg(rs[0]).log_delta();
        rs.iter().all(|&r| reg(r).log_budget() == l0 && reg(r).log_delta() == d0)
    };
    match xa {
        XAct::Base(act) => {
            let pred = predict(cx, st, act);
            let Some(bytes) = companion_bytes(cx, st, act) else {
                return (
                    Obs {
                        status: "noscratch".into(),
                        panicked: false,
                        digest: vec![],
                        canaries_ok: true,
                    },
                    Shape {
                        bytes: None,
                        extra: json!({}),
                        produced: vec![],
                        pt: None,
                    },
                );
            };
            let (r, can) = window::<B, _>(win, bytes, |s| apply(cx, st, act, &pred, depth, seed, s));
            let (status, panicked, digest, produced) = match r {
                Err(p) => (format!("panic:{p}"), true, vec![], vec![]),
                Ok(ap) => match &ap.res {
                    CallRes::Ok => {
                        let mut d = vec![];
                        for (_, ct) in &ap.changed {
                            digest_ct(ct, &mut d);
                        }
                        ("ok".to_string(), false, d, ap.changed)
                    }
                    CallRes::Err { kind, text } => (format!("err:{kind:?}:{text}"), false, vec![], vec![]),
                    CallRes::Panic(p) => (format!("panic:{p}"), true, vec![], vec![]),
                },
            };
            (
                Obs {
                    status,
                    panicked,
                    digest,
                    canaries_ok: can,
                },
                Shape {
                    bytes: Some(bytes),
                    extra: json!({"action": act}),
                    produced,
                    pt: None,
                },
            )
        }
        XAct::AddMany { dst, size, regs } => {
            let bytes = m.ckks_add_many_tmp_bytes();
            let refs: Vec<&CKKSCiphertext<Vec<u8>>> = regs.iter().map(|&r| reg(r)).collect();
            let mut d = fresh(*dst, *size);
            let (r, can) = window::<B, _>(win, bytes, |s| m.ckks_add_many(&mut d, &refs, s));
            let ex = json!({"n_terms": regs.len(), "inputs_uniform": lb_set(regs), "dst_size": d.size()});
            finish(r, can, vec![(*dst as usize, d)], bytes, ex)
        }
        XAct::MulMany { dst, size, regs } => {
            let mut d = fresh(*dst, *size);
            let big = regs.iter().map(|&r| reg(r).size()).fold(d.size(), usize::max);
            let bytes = m.ckks_mul_many_tmp_bytes(regs.len(), &layout_of(&cx.p, big), &cx.tsk_layout);
            let refs: Vec<&CKKSCiphertext<Vec<u8>>> = regs.iter().map(|&r| reg(r)).collect();
            let (r, can) = window::<B, _>(win, bytes, |s| m.ckks_mul_many(&mut d, &refs, &cx.tsk, s));
            let ex = json!({"n_terms": regs.len(), "inputs_uniform": lb_set(regs), "dst_size": d.size()});
            finish(r, can, vec![(*dst as usize, d)], bytes, ex)
        }
        XAct::DotCt { dst, size, a, b } => {
            let mut d = fresh(*dst, *size);
            let big = a.iter().chain(b.iter()).map(|&r| reg(r).size()).fold(d.size(), usize::max);
            let bytes = m.ckks_dot_product_ct_tmp_bytes(a.len(), &layout_of(&cx.p, big), &cx.tsk_layout);
            let ra: Vec<&CKKSCiphertext<Vec<u8>>> = a.iter().map(|&r| reg(r)).collect();
            let rb: Vec<&CKKSCiphertext<Vec<u8>>> = b.iter().map(|&r| reg(r)).collect();
            let (r, can) = window::<B, _>(win, bytes, |s| m.ckks_dot_product_ct(&mut d, &ra, &rb, &cx.tsk, s));
            let (au, bu) = (lb_set(a), lb_set(b));
            let sides = match (au, bu) {
                (true, true) => "equal",
                (false, false) => "unequal_both_sides",
                _ => "unequal_one_side",
            };
            let ex = json!({"n_terms": a.len(), "a_side_uniform": au, "b_side_uniform": bu, "sides": sides, "dst_size": d.size()});
            finish(r, can, vec![(*dst as usize, d)], bytes, ex)
        }
        XAct::DotPt { dst, size, a, form, prec, idx } => {
            let mut d = fresh(*dst, *size);
            let ra: Vec<&CKKSCiphertext<Vec<u8>>> = a.iter().map(|&r| reg(r)).collect();
            // the query takes one operand layout: the largest ciphertext of the list
            let big = ra.iter().max_by_key(|c| c.size()).unwrap();
            let pm = cx.pt_meta(*prec as usize);
            let rl = layout_of(&cx.p, d.size());
            let extra = json!({"n_terms": a.len(), "inputs_uniform": lb_set(a), "dst_size": d.size()});
            match form {
                PtForm::VecZnx => {
                    let bytes = m.ckks_dot_product_pt_vec_znx_tmp_bytes(&rl, *big, &pm);
                    let w: Vec<&CKKSPlaintextVecZnx<Vec<u8>>> = idx.iter().map(|&i| &cx.vec_znx[*prec as usize][i as usize]).collect();
                    let (r, can) = window::<B, _>(win, bytes, |s| m.ckks_dot_product_pt_vec_znx(&mut d, &ra, &w, s));
                    finish(r, can, vec![(*dst as usize, d)], bytes, extra)
                }
                PtForm::VecRnx => {
                    let bytes = m.ckks_dot_product_pt_vec_rnx_tmp_bytes(&rl, *big, &pm);
                    let w: Vec<&CKKSPlaintextVecRnx<F>> = idx.iter().map(|&i| &cx.vec_rnx[i as usize]).collect();
                    let (r, can) = window::<B, _>(win, bytes, |s| m.ckks_dot_product_pt_vec_rnx(&mut d, &ra, &w, pm, s));
                    finish(r, can, vec![(*dst as usize, d)], bytes, extra)
                }
                PtForm::CstZnx => {
                    let bytes = m.ckks_dot_product_pt_const_tmp_bytes(&rl, *big, &pm);
                    let cs: Vec<CKKSPlaintextCstZnx> = idx.iter().map(|&i| cx.cst_znx_natural(i as usize, *prec as usize)).collect();
                    let w: Vec<&CKKSPlaintextCstZnx> = cs.iter().collect();
                    let (r, can) = window::<B, _>(win, bytes, |s| m.ckks_dot_product_pt_const_znx(&mut d, &ra, &w, s));
                    finish(r, can, vec![(*dst as usize, d)], bytes, extra)
                }
                PtForm::CstRnx => {
                    let bytes = m.ckks_dot_product_pt_const_tmp_bytes(&rl, *big, &pm);
                    let cs: Vec<CKKSPlaintextCstRnx<F>> = idx.iter().map(|&i| cx.cst_rnx(i as usize)).collect();
                    let w: Vec<&CKKSPlaintextCstRnx<F>> = cs.iter().collect();
                    let (r, can) = window::<B, _>(win, bytes, |s| m.ckks_dot_product_pt_const_rnx(&mut d, &ra, &w, pm, s));
                    finish(r, can, vec![(*dst as usize, d)], bytes, extra)
                }
            }
        }
        XAct::Decrypt { a, log_delta, log_budget } => {
            let ct = reg(*a);
            let bytes = m.ckks_decrypt_tmp_bytes(ct);
            let meta = CKKSMeta {
                log_delta: *log_delta as usize,
                log_budget: *log_budget as usize,
            };
            let mut pt = CKKSPlaintextVecZnx::alloc(ct.n(), ct.base2k(), meta);
            garbage(&mut pt.data_mut().data, 0);
            let (r, can) = window::<B, _>(win, bytes, |s| m.ckks_decrypt(&mut pt, ct, &cx.sk, s));
            let (status, panicked) = status_of(&r);
            let status_ok = status == "ok";
            let digest = if status_ok { vec![fnv(&pt.data().data)] } else { vec![] };
            (
                Obs {
                    status,
                    panicked,
                    digest,
                    canaries_ok: can,
                },
                Shape {
                    bytes: Some(bytes),
                    extra: json!({"pt_size": pt.size()}),
                    produced: vec![],
                    pt: if status_ok { Some(pt.data().data.clone()) } else { None },
                },
            )
        }
        XAct::Extract { a, log_delta, log_budget } => {
            let ct = reg(*a);
            // raw decryption with ample scratch, then the extraction on the exact window
            let mut full = GLWEPlaintext::alloc_from_infos(ct);
            let mut big = Scr::new(cx.scratch_bytes);
            big.fill();
            if let Err(p) = guarded(|| m.glwe_decrypt(ct, &mut full, &cx.sk, big.get::<B>())) {
                return (
                    Obs {
                        status: format!("panic:{p}"),
                        panicked: true,
                        digest: vec![],
                        canaries_ok: true,
                    },
                    Shape {
                        bytes: None,
                        extra: json!({"stage": "glwe_decrypt (ample scratch)"}),
                        produced: vec![],
                        pt: None,
                    },
                );
            }
            let bytes = m.ckks_extract_pt_znx_tmp_bytes();
            let meta = CKKSMeta {
                log_delta: *log_delta as usize,
                log_budget: *log_budget as usize,
            };
            let mut pt = CKKSPlaintextVecZnx::alloc(ct.n(), ct.base2k(), meta);
            garbage(&mut pt.data_mut().data, 0);
            let (r, can) = window::<B, _>(win, bytes, |s| m.ckks_extract_pt_znx(&mut pt, &full, ct, s));
            let (status, panicked) = status_of(&r);
            let status_ok = status == "ok";
            let digest = if status_ok { vec![fnv(&pt.data().data)] } else { vec![] };
            (
                Obs {
                    status,
                    panicked,
                    digest,
                    canaries_ok: can,
                },
                Shape {
                    bytes: Some(bytes),
                    extra: json!({"pt_size": pt.size()}),
                    produced: vec![],
                    pt: if status_ok { Some(pt.data().data.clone()) } else { None },
                },
            )
        }
    }
}

fn finish(
    r: Result<anyhow::Result<()>, String>,
    can: bool,
    outs: Vec<(usize, CKKSCiphertext<Vec<u8>>)>,
    bytes: usize,
    extra: Value,
) -> (Obs, Shape) {
    let (status, panicked) = status_of(&r);
    let mut digest = vec![];
    let mut produced = vec![];
    if status == "ok" {
        for (_, ct) in &outs {
            digest_ct(ct, &mut digest);
        }
        produced = outs;
    }
    (
        Obs {
            status,
            panicked,
            digest,
            canaries_ok: can,
        },
        Shape {
            bytes: Some(bytes),
            extra,
            produced,
            pt: None,
        },
    )
}

fn is_scratch_panic(msg: &str) -> bool {
    let l = msg.to_lowercase();
    l.contains("scratch") || l.contains("attempted to take") || l.contains("tmp_bytes")
}

// ------------------------------------------------------------------------------------------------------------
// operand states: breadth-first closure of the C16 transition system (no value checks)

pub fn collect_states<B: Cb, F: Real>(cx: &Ctx<B, F>, mc: &MenuCfg, depth: usize, seed: u64) -> Vec<(usize, usize, State<F>)>
where
    Module<B>: HalAll<B> + CoreAll<B> + CkksAll<B>,
    Scratch<B>: ScratchTakeCore<B> + ScratchAvailable,
{
    let mut scr = Scr::new(cx.scratch_bytes);
    let step = |st: &State<F>, a: &Action, d: usize, scr: &mut Scr| -> Option<State<F>> {
        let pred = predict(cx, st, a);
        scr.fill();
        let ap = apply(cx, st, a, &pred, d, seed, scr.get::<B>());
        if !matches!(ap.res, CallRes::Ok) {
            return None;
        }
        let mut ch = vec![];
        for (i, ct) in ap.changed {
            if ct.log_delta() + ct.log_budget() > ct.max_k().as_usize() {
                return None;
            }
            ch.push((
                i,
                Reg {
                    ct,
                    sh: None,
                    err: 0.0,
                    blank: false,
                    lineage_uld: false,
                },
            ));
        }
        Some(succ_state(st, a, ch))
    };
    let mut all: Vec<(usize, usize, State<F>)> = vec![];
    let mut seen = HashSet::new();
    let mut frontier: Vec<(usize, State<F>)> = vec![];
    for (i, tr) in inits().iter().enumerate() {
        let mut st = blank_state(cx);
        let mut ok = true;
        for (d, a) in tr.iter().enumerate() {
            match step(&st, a, d, &mut scr) {
                Some(s) => st = s,
                None => {
                    ok = false;
                    break;
                }
            }
        }
        if ok && seen.insert(succ_key(&st, &[])) {
            frontier.push((i, st));
        }
    }
    for d in 0..=depth {
        let mut next = vec![];
        for (init, st) in frontier {
            if d < depth {
                let base = st.trace.len();
                for a in menu(cx, &st, mc) {
                    if let Some(s) = step(&st, &a, base, &mut scr) {
                        if seen.insert(succ_key(&s, &[])) {
                            next.push((init, s));
                        }
                    }
                }
            }
            all.push((init, d, st));
        }
        frontier = next;
    }
    all
}

// ------------------------------------------------------------------------------------------------------------
// action menu of this part

fn list_patterns() -> Vec<Vec<u8>> {
    vec![
        vec![0],
        vec![1],
        vec![2],
        vec![0, 0],
        vec![0, 1],
        vec![1, 0],
        vec![1, 2],
        vec![0, 2],
        vec![0, 0, 0],
        vec![0, 1, 2],
        vec![0, 0, 1],
        vec![2, 1, 0],
        vec![0, 0, 0, 0],
        vec![0, 1, 2, 0],
        vec![0, 0, 1, 1],
        vec![0, 1, 0, 1],
    ]
}

pub fn xmenu<B: Cb, F: Real>(cx: &Ctx<B, F>, st: &State<F>, mc: &MenuCfg, composite_sizes: &[Dst]) -> Vec<XAct>
where
    Module<B>: HalAll<B> + CoreAll<B> + CkksAll<B>,
    Scratch<B>: ScratchTakeCore<B> + ScratchAvailable,
{
    let mut base_cfg = mc.clone();
    base_cfg.list_patterns = vec![];
    let mut v: Vec<XAct> = menu(cx, st, &base_cfg).into_iter().map(XAct::Base).collect();
    let live = |l: &Vec<u8>| l.iter().all(|&r| !st.regs[r as usize].blank);
    let pats: Vec<Vec<u8>> = list_patterns().into_iter().filter(live).collect();
    let dnum = cx.p.dnum();
    let sizes: Vec<Dst> = composite_sizes
        .iter()
        .copied()
        .filter(|s| match s {
            Dst::Keep => true,
            Dst::Limbs(n) => (*n as usize) <= dnum,
        })
        .collect();
    for &size in &sizes {
        for p in &pats {
            v.push(XAct::AddMany { dst: 2, size, regs: p.clone() });
            v.push(XAct::MulMany { dst: 2, size, regs: p.clone() });
            for q in pats.iter().filter(|q| q.len() == p.len()) {
                v.push(XAct::DotCt {
                    dst: 2,
                    size,
                    a: p.clone(),
                    b: q.clone(),
                });
            }
            for form in [PtForm::VecZnx, PtForm::VecRnx, PtForm::CstZnx, PtForm::CstRnx] {
                let vec = matches!(form, PtForm::VecZnx | PtForm::VecRnx);
                let idx: Vec<u8> = (0..p.len()).map(|i| if vec { 2 } else { [2u8, 0, 1, 2][i] }).collect();
                for &prec in &mc.precs {
                    v.push(XAct::DotPt {
                        dst: 2,
                        size,
                        a: p.clone(),
                        form,
                        prec,
                        idx: idx.clone(),
                    });
                }
            }
        }
    }
    for r in 0..NREG as u8 {
        let reg = &st.regs[r as usize];
        if reg.blank {
            continue;
        }
        let ld = reg.ct.log_delta().min(100) as u8;
        let lb = reg.ct.log_budget().min(8) as u8;
        for (d, b) in [(ld, lb), (ld.saturating_sub(7).max(1), lb), (ld + 9, lb.min(2))] {
            v.push(XAct::Decrypt {
                a: r,
                log_delta: d,
                log_budget: b,
            });
            v.push(XAct::Extract {
                a: r,
                log_delta: d,
                log_budget: b,
            });
        }
    }
    v
}

// ------------------------------------------------------------------------------------------------------------
// families

#[derive(Clone, Debug, Serialize, Deserialize)]
pub struct PartCfg {
    pub name: String,
    pub backend: String,
    pub elem: String,
    pub params: Params,
    /// menu generating the operand states
    pub state_menu: MenuCfg,
    /// menu of actions replayed on every state
    pub act_menu: MenuCfg,
    pub depth: usize,
    /// keep every k-th state of the deepest layer (1 = all)
    pub stride: usize,
    pub composite_sizes: Vec<Dst>,
}

#[derive(Serialize)]
struct Case {
    cfg: String,
    init: usize,
    idx: usize,
    trace: Vec<Action>,
}

fn check_one<B: Cb, F: Real>(
    cx: &Ctx<B, F>,
    cfg: &PartCfg,
    init: usize,
    st: &State<F>,
    xa: &XAct,
    seed: u64,
    rec: &mut Rec,
    fc: &FailCtl,
    local: &std::cell::RefCell<Local>,
) where
    Module<B>: HalAll<B> + CoreAll<B> + CkksAll<B>,
    Scratch<B>: ScratchTakeCore<B> + ScratchAvailable,
{
    let depth = st.trace.len();
    let opname = xa.name();
    let mut obs: Vec<(Obs, Shape)> = vec![];
    for (fill, _) in FILLS {
        let o = exec(cx, st, xa, &mut Win::Exact(fill), seed, depth);
        if o.1.bytes.is_none() {
            rec.add("calls_without_scratch", 1);
            return;
        }
        rec.evals(1);
        obs.push(o);
    }
    let bytes = obs[0].1.bytes.unwrap();
    let desc = |kind: &str, fillname: &str, extra: Value| -> Value {
        let regs: Vec<Value> = st.regs.iter().map(|r| r.describe()).collect();
        let mut d = json!({
            "op": opname, "backend": B::NAME, "elem": F::NAME, "kind": kind,
            "case": {"cfg": cfg.name, "init": init, "trace": st.trace},
            "inner": {"xact": xa, "fill": fillname},
            "tmp_bytes": bytes, "tmp_bytes_multiple_of_64": bytes % 64 == 0,
            "r0": regs[0], "r1": regs[1], "r2": regs[2],
            "shape": obs[0].1.extra,
        });
        if let (Value::Object(m), Value::Object(e)) = (&mut d, extra) {
            for (k, v) in e {
                m.insert(k, v);
            }
        }
        d
    };
    let shape_tag = obs[0].1.extra.get("sides").and_then(|x| x.as_str()).unwrap_or("").to_string();
    for (i, (o, _)) in obs.iter().enumerate() {
        let fname = FILLS[i].1;
        if o.panicked {
            let msg = o.status.trim_start_matches("panic:");
            if is_scratch_panic(msg) {
                fc.report(rec, local, format!("{opname}|scratch_too_small|{}|{shape_tag}", squash_digits(msg)), || {
                    desc("scratch_too_small", fname, json!({"panic": msg}))
                });
                return;
            } else {
                rec.add("other_property_panics", 1);
                // other fills will panic alike (or differ: reported below as dependence only if non-panicking)
            }
        }
        if !o.canaries_ok {
            fc.report(rec, local, format!("{opname}|scratch_overrun|{shape_tag}"), || desc("scratch_overrun", fname, json!({})));
            return;
        }
    }
    // independence of the previous contents: status, metadata and bytes identical across fills
    for i in 1..obs.len() {
        let (a, b) = (&obs[0].0, &obs[i].0);
        let same = if a.panicked || b.panicked {
            // panics of other properties: only "both panicked or both did not" is compared
            a.panicked == b.panicked
        } else {
            a.status == b.status && a.digest == b.digest
        };
        if !same {
            fc.report(rec, local, format!("{opname}|scratch_dependent_result|{shape_tag}"), || {
                desc(
                    "scratch_dependent_result",
                    FILLS[i].1,
                    json!({"status_zeros": a.status, "status_other": b.status, "digest_zeros": a.digest, "digest_other": b.digest}),
                )
            });
            return;
        }
    }
    rec.distinct(fnv(format!("{opname}/{bytes}/{}", obs[0].1.extra).as_bytes()));
    rec.outcome(fnv(format!("{}/{:?}", obs[0].0.status.split(':').next().unwrap_or(""), obs[0].0.digest.first()).as_bytes()));
    if let XAct::DotCt { a, .. } = xa {
        let st0 = obs[0].0.status.split(':').next().unwrap_or("");
        rec.add(&format!("dot_product_ct/n{}/{}/{}", a.len(), shape_tag, st0), 1);
    }
    if obs[0].0.status == "ok" {
        rec.add("ok_calls_x3", 1);
    } else if !obs[0].0.panicked {
        rec.add("err_calls_x3", 1);
    }
}

fn part<B: Cb, F: Real>(run: &mut Run, cfg: &PartCfg)
where
    Module<B>: HalAll<B> + CoreAll<B> + CkksAll<B>,
    Scratch<B>: ScratchTakeCore<B> + ScratchAvailable,
{
    let fam = format!("ckks_exact_scratch/{}", cfg.name);
    if !run.wants(&fam) {
        return;
    }
    let seed = run.seed;
    let cx = Ctx::<B, F>::new(&cfg.params, seed);
    let mut states = collect_states(&cx, &cfg.state_menu, cfg.depth, seed);
    if cfg.stride > 1 {
        let mut k = 0usize;
        states.retain(|(_, d, _)| {
            if *d < cfg.depth {
                true
            } else {
                k += 1;
                k % cfg.stride == 1
            }
        });
    }
    let cases: Vec<Case> = states
        .iter()
        .enumerate()
        .map(|(i, (init, _, st))| Case {
            cfg: cfg.name.clone(),
            init: *init,
            idx: i,
            trace: st.trace.clone(),
        })
        .collect();
    let fc = FailCtl::new(3);
    let dummy = Mutex::new(Default::default());
    let states_ref = &states;
    run.family(
        &fam,
        "outer case = one operand state (C16 transition system, <= depth steps from the encrypt starting points); inner = every scratch-taking action of the menu incl. add_many / mul_many / dot_product_* / decrypt / extract; each executed 3x on a window of exactly its own companion query (zeros, NaN pattern, large values) between canary pads",
        cases,
        |c, rec| {
            let (init, _, st) = &states_ref[c.idx];
            let local = std::cell::RefCell::new(Local::default());
            let acts = xmenu(&cx, st, &cfg.act_menu, &cfg.composite_sizes);
            for xa in &acts {
                check_one(&cx, cfg, *init, st, xa, seed, rec, &fc, &local);
            }
            rec.sample(|| json!({"trace": c.trace, "actions": acts.len()}));
            fc.merge_local(local.into_inner(), &dummy);
        },
    );
    let classes = fc.classes();
    if !classes.is_empty() {
        run.note(&format!("ckks_failure_classes/{}", cfg.name), json!(classes));
    }
    run.note(&format!("ckks_states/{}", cfg.name), json!(states.len()));
}

fn configs(tier: Tier) -> Vec<PartCfg> {
    let pf = params_fft64();
    let pn = params_ntt120(false);
    let pq = params_ntt120(true);
    let big = |p: &Params| p.k_max.div_ceil(p.base2k) as u8;
    let mk = |name: &str, backend: &str, elem: &str, p: &Params, act_level: u8, depth: usize, stride: usize| PartCfg {
        name: name.into(),
        backend: backend.into(),
        elem: elem.into(),
        state_menu: menu_cfg(p, 0),
        act_menu: menu_cfg(p, act_level),
        params: p.clone(),
        depth,
        stride,
        composite_sizes: vec![Dst::Keep, Dst::Limbs((big(p) / 3).max(1)), Dst::Limbs(big(p) + 1)],
    };
    match tier {
        Tier::Quick => vec![
            mk("fft64/f64/quick", "fft64-ref", "f64", &pf, 0, 2, 24),
            mk("ntt120/f64/quick", "ntt120-ref", "f64", &pn, 0, 2, 24),
        ],
        Tier::Thorough => {
            let mut v = vec![
                mk("fft64/f64/full", "fft64-ref", "f64", &pf, 1, 2, 1),
                mk("ntt120/f64/full", "ntt120-ref", "f64", &pn, 1, 2, 1),
                mk("ntt120/f128/menu0", "ntt120-ref", "f128", &pq, 0, 2, 1),
            ];
            if host_has_avx() {
                v.push(mk("fft64avx/f64/menu0", "fft64-avx", "f64", &pf, 0, 2, 4));
            }
            v
        }
    }
}

fn dispatch(run: &mut Run, cfg: &PartCfg) {
    match (cfg.backend.as_str(), cfg.elem.as_str()) {
        ("fft64-ref", "f64") => part::<FFT64Ref, f64>(run, cfg),
        ("ntt120-ref", "f64") => part::<NTT120Ref, f64>(run, cfg),
        ("ntt120-ref", "f128") => part::<NTT120Ref, f128::f128>(run, cfg),
        ("fft64-avx", "f64") => part::<FFT64Avx, f64>(run, cfg),
        (b, e) => panic!("unsupported backend/element combination {b}/{e}"),
    }
}

pub fn run(run: &mut Run) {
    run.assume("ckks part: the companion query is called with the layouts of the actual destination and operands (res = destination, a = the ciphertext operand; the single-ciphertext queries of rotate/conjugate get the source; list operations get n = list length and, where the query has one operand slot, the largest ciphertext of the list); queries of ct-ct products (mul, square, mul_add/sub_ct, mul_many, dot_product_ct) have no operand slot: `res` is the layout of the largest ciphertext taking part (destination or operand), the convention of ckks_all_ops_tmp_bytes");
    run.assume("ckks part: operands are the ciphertexts of the C16 transition system reachable in <= 2 steps (n=16, rank 1, one base2k per parameter set); a panic that does not mention the scratch belongs to C16 and is only counted (other_property_panics)");
    run.assume("ckks part: after an Err return only the error value is compared across fills (C16 demands nothing of the destination then)");
    for cfg in configs(run.tier) {
        dispatch(run, &cfg);
    }
}

fn replay_on<B: Cb, F: Real>(run: &mut Run, cfg: &PartCfg, init: usize, trace: &[Action], xa: &XAct)
where
    Module<B>: HalAll<B> + CoreAll<B> + CkksAll<B>,
    Scratch<B>: ScratchTakeCore<B> + ScratchAvailable,
{
    let seed = run.seed;
    let cx = Ctx::<B, F>::new(&cfg.params, seed);
    let fc = FailCtl::new(1000);
    run.single("ckks_replay", "re-executes the recorded state trace (ample scratch) and the recorded action on exact windows", |rec| {
        let mut st = blank_state(&cx);
        let mut scr = Scr::new(cx.scratch_bytes);
        for (d, a) in trace.iter().enumerate() {
            let pred = predict(&cx, &st, a);
            scr.fill();
            let ap = apply(&cx, &st, a, &pred, d, seed, scr.get::<B>());
            assert!(matches!(ap.res, CallRes::Ok), "replay: trace step {d} {a:?} did not succeed: {:?}", ap.res);
            let ch = ap
                .changed
                .into_iter()
                .map(|(i, ct)| {
                    (
                        i,
                        Reg {
                            ct,
                            sh: None,
                            err: 0.0,
                            blank: false,
                            lineage_uld: false,
                        },
                    )
                })
                .collect();
            st = succ_state(&st, a, ch);
        }
        let local = std::cell::RefCell::new(Local::default());
        check_one(&cx, cfg, init, &st, xa, seed, rec, &fc, &local);
    });
}

/// false: the descriptor is not one of this part's families
pub fn replay(run: &mut Run, d: &Value) -> bool {
    let fam = d["family"].as_str().unwrap_or("");
    if !fam.starts_with("ckks_") {
        return false;
    }
    let name = d["case"]["cfg"].as_str().expect("replay: case.cfg").to_string();
    let init = d["case"]["init"].as_u64().unwrap_or(0) as usize;
    let trace: Vec<Action> = serde_json::from_value(d["case"]["trace"].clone()).expect("replay: case.trace");
    let xa: XAct = serde_json::from_value(d["inner"]["xact"].clone()).expect("replay: inner.xact");
    let cfg = configs(Tier::Quick)
        .into_iter()
        .chain(configs(Tier::Thorough))
        .find(|c| c.name == name)
        .unwrap_or_else(|| panic!("replay: unknown configuration {name}"));
    match (cfg.backend.as_str(), cfg.elem.as_str()) {
        ("fft64-ref", "f64") => replay_on::<FFT64Ref, f64>(run, &cfg, init, &trace, &xa),
        ("ntt120-ref", "f64") => replay_on::<NTT120Ref, f64>(run, &cfg, init, &trace, &xa),
        ("ntt120-ref", "f128") => replay_on::<NTT120Ref, f128::f128>(run, &cfg, init, &trace, &xa),
        ("fft64-avx", "f64") => replay_on::<FFT64Avx, f64>(run, &cfg, init, &trace, &xa),
        (b, e) => panic!("unsupported backend/element combination {b}/{e}"),
    }
    true
}

#[allow(unused_imports)]
use poulpy_ckks::leveled::CKKSAllOpsTmpBytes as _;
#[allow(dead_code)]
fn _bounds<B: Cb>()
where
    Module<B>: CKKSAddOps<B> + CKKSSubOps<B> + CKKSMulOps<B> + CKKSMulAddOps<B> + CKKSMulSubOps<B> + CKKSNegOps<B> + CKKSPow2Ops<B>
        + CKKSRotateOps<B> + CKKSConjugateOps<B> + CKKSRescaleOps<B> + CKKSEncrypt<B> + CKKSDecrypt<B> + CKKSPlaintextZnxOps<B>
        + CKKSAddManyOps<B> + CKKSMulManyOps<B> + CKKSDotProductOps<B>,
{
}

//! C11 - outputs are a function of inputs only: no stale data, no stray writes (metamorphic, oracle-free).
//! Also hosts the shared "vector op" runner used by C10 and C12 for coefficient-domain operations.

use crate::be::{Bk, HalAll};
use crate::big::{aligned_copy, vclone};
use crate::c09::{self, Op};
use crate::c08::fam_big_scratch;
use crate::for_backends;
use crate::ops::{self, Lay, OpCase, Opts, ScratchMode, stray_writes};
use crate::util::Val;
use poulpy_hal::api::*;
use poulpy_hal::layouts::{Module, ScalarZnx, VecZnx, ZnxViewMut};
use pvc_engine::rng::{Rng, garbage};
use pvc_engine::{Rec, Run, Tier, fnv, guarded};
use serde::{Deserialize, Serialize};
use serde_json::{Value, json};

/// coefficient-domain case: the C09 operations plus normalisation / shifts, on multi-column buffers with spare capacity
#[derive(Clone, Debug, Serialize, Deserialize)]
pub struct VCase {
    pub op: String,
    pub n: usize,
    pub b: usize,
    pub cols: usize,
    pub rs: usize,
    pub a_s: usize,
    pub bs: usize,
    pub rc: usize,
    pub ac: usize,
    pub bc: usize,
    pub p: i64,
    pub b_out: usize,
    /// value class of the operands: 0 = normalised random digits, 1 = 64-bit boundary values (C10 kernels sweep)
    ///   2 = full i64 range around the points where `x - digit` / `x + carry` wrap (normalisation kernels only):
    ///       coefficient i of limb j holds T[(i + stride * j + rot) % 16], so that (rot, stride) in 0..16 x 0..16 puts
    ///       every value in every SIMD lane and every ordered pair of values into adjacent limbs
    #[serde(default)]
    pub val: u8,
    #[serde(default)]
    pub rot: u8,
    #[serde(default)]
    pub stride: u8,
}

/// the 16 full-range values of value class 2 for radix 2^b
pub fn full_range_values(b: usize) -> [i64; 16] {
    let half: i64 = 1i64 << (b.clamp(1, 62) - 1);
    let h: i64 = i64::MAX - half + 1; // 2^63 - 2^(b-1): smallest x whose balanced digit makes x - digit wrap
    [
        i64::MAX,
        i64::MIN,
        i64::MAX - 1,
        i64::MIN + 1,
        h,
        h - 1,
        h.saturating_add(1),
        -h,
        -h - 1,
        1i64 << 62,
        -(1i64 << 62),
        (1i64 << 62) - 1,
        0,
        -1,
        half - 1,
        -half,
    ]
}

pub const NORM_OPS: [&str; 10] = [
    "normalize",
    "normalize_assign",
    "lsh",
    "lsh_assign",
    "lsh_add_into",
    "lsh_sub",
    "rsh",
    "rsh_assign",
    "rsh_add_into",
    "rsh_sub",
];

fn c09_op(name: &str) -> Option<Op> {
    c09::ALL_OPS.iter().copied().find(|o| format!("{o:?}") == name)
}

pub struct VOut {
    pub panic: Option<String>,
    pub raw: Vec<u8>,
    pub issues: Vec<String>,
    pub tmp_bytes: usize,
}

/// in-place operations: the prior content of the selected column is an input
pub fn v_in_place(op: &str) -> bool {
    matches!(
        op,
        "AddAssign"
            | "SubAssign"
            | "SubNegateAssign"
            | "NegateAssign"
            | "AddScalarAssign"
            | "SubScalarAssign"
            | "RotateAssign"
            | "MulXpMinusOneAssign"
            | "AutomorphismAssign"
            | "normalize_assign"
            | "lsh_assign"
            | "rsh_assign"
            | "lsh_add_into"
            | "lsh_sub"
            | "rsh_add_into"
            | "rsh_sub"
    )
}

pub fn run_v<B: Bk>(c: &VCase, o: &Opts) -> VOut
where
    Module<B>: HalAll<B>,
{
    let n = c.n;
    let m = B::module(if n.is_power_of_two() { n } else { n.next_power_of_two() });
    let mut rng = Rng::new(o.seed, fnv(format!("{:?}", c).as_bytes()));
    let extra = 1usize;
    let mut a = VecZnx::alloc(n, c.cols, c.a_s);
    let mut b = VecZnx::alloc(n, c.cols, c.bs);
    let mut sc = ScalarZnx::alloc(n, c.cols);
    let boundary = |i: usize, rng: &mut Rng| -> i64 {
        let b = c.b as u32;
        let t: [i64; 12] = [
            0,
            1,
            -1,
            1i64 << (b - 1),
            -(1i64 << (b - 1)),
            (1i64 << b.min(61)),
            -(1i64 << b.min(61)),
            (1i64 << 61) - 1,
            -(1i64 << 61),
            0x5555_5555_5555_5555 >> 2,
            -(0x2AAA_AAAA_AAAA_AAAA >> 1),
            rng.digit(c.b),
        ];
        t[(i * 7 + (rng.next() % 3) as usize) % 12]
    };
    for (i, x) in a.raw_mut().iter_mut().enumerate() {
        *x = if c.val == 1 { boundary(i, &mut rng) } else { rng.digit(c.b) };
    }
    if c.val == 2 {
        let t = full_range_values(c.b);
        for col in 0..c.cols {
            for j in 0..c.a_s {
                for (i, x) in a.at_mut(col, j).iter_mut().enumerate() {
                    *x = t[(i + c.stride as usize * j + c.rot as usize + 3 * col) % 16];
                }
            }
        }
    }
    for (i, x) in b.raw_mut().iter_mut().enumerate() {
        *x = if c.val == 1 { boundary(i + 3, &mut rng) } else { rng.digit(c.b) };
    }
    for x in sc.raw_mut() {
        *x = rng.digit(c.b);
    }
    let mut r = VecZnx::alloc(n, c.cols, c.rs + extra);
    garbage(&mut r.data, o.garbage);
    r.size = c.rs;
    if v_in_place(&c.op) {
        let t = full_range_values(c.b);
        for j in 0..c.rs {
            for (i, x) in r.at_mut(c.rc, j).iter_mut().enumerate() {
                *x = match c.val {
                    2 => t[(i + c.stride as usize * j + c.rot as usize) % 16],
                    1 => boundary(i + 5 * j, &mut rng),
                    _ => rng.digit(c.b),
                };
            }
        }
    }
    let before = aligned_copy(&r.data);
    let (ad, bd, sd) = (fnv(&a.data), fnv(&b.data), fnv(&sc.data));
    let mut issues = vec![];
    let mut tmp_bytes = 0usize;
    let res = guarded(|| {
        if let Some(op) = c09_op(&c.op) {
            // scratch-taking C09 operations are the three *_assign forms; c09::call allocates an owned scratch,
            // the exact-window variant is driven here
            match op {
                Op::RotateAssign => {
                    tmp_bytes = m.vec_znx_rotate_assign_tmp_bytes();
                    ops::with_scratch::<B, _>(tmp_bytes, o, &mut issues, |s| m.vec_znx_rotate_assign(c.p, &mut r, c.rc, s))
                }
                Op::MulXpMinusOneAssign => {
                    tmp_bytes = m.vec_znx_mul_xp_minus_one_assign_tmp_bytes();
                    ops::with_scratch::<B, _>(tmp_bytes, o, &mut issues, |s| m.vec_znx_mul_xp_minus_one_assign(c.p, &mut r, c.rc, s))
                }
                Op::AutomorphismAssign => {
                    tmp_bytes = m.vec_znx_automorphism_assign_tmp_bytes();
                    ops::with_scratch::<B, _>(tmp_bytes, o, &mut issues, |s| m.vec_znx_automorphism_assign(c.p, &mut r, c.rc, s))
                }
                _ => c09::call::<B>(&m, op, c.p, &mut r, c.rc, &a, c.ac, &b, c.bc, &sc, c.ac),
            }
        } else {
            let k = c.p.unsigned_abs() as usize;
            match c.op.as_str() {
                "normalize" => {
                    tmp_bytes = m.vec_znx_normalize_tmp_bytes();
                    ops::with_scratch::<B, _>(tmp_bytes, o, &mut issues, |s| m.vec_znx_normalize(&mut r, c.b_out, c.p, c.rc, &a, c.b, c.ac, s))
                }
                "normalize_assign" => {
                    tmp_bytes = m.vec_znx_normalize_tmp_bytes();
                    ops::with_scratch::<B, _>(tmp_bytes, o, &mut issues, |s| m.vec_znx_normalize_assign(c.b, &mut r, c.rc, s))
                }
                "lsh" => {
                    tmp_bytes = m.vec_znx_lsh_tmp_bytes();
                    ops::with_scratch::<B, _>(tmp_bytes, o, &mut issues, |s| m.vec_znx_lsh(c.b, k, &mut r, c.rc, &a, c.ac, s))
                }
                "lsh_assign" => {
                    tmp_bytes = m.vec_znx_lsh_tmp_bytes();
                    ops::with_scratch::<B, _>(tmp_bytes, o, &mut issues, |s| m.vec_znx_lsh_assign(c.b, k, &mut r, c.rc, s))
                }
                "lsh_add_into" => {
                    tmp_bytes = m.vec_znx_lsh_tmp_bytes();
                    ops::with_scratch::<B, _>(tmp_bytes, o, &mut issues, |s| m.vec_znx_lsh_add_into(c.b, k, &mut r, c.rc, &a, c.ac, s))
                }
                "lsh_sub" => {
                    tmp_bytes = m.vec_znx_lsh_tmp_bytes();
                    ops::with_scratch::<B, _>(tmp_bytes, o, &mut issues, |s| m.vec_znx_lsh_sub(c.b, k, &mut r, c.rc, &a, c.ac, s))
                }
                "rsh" => {
                    tmp_bytes = m.vec_znx_rsh_tmp_bytes();
                    ops::with_scratch::<B, _>(tmp_bytes, o, &mut issues, |s| m.vec_znx_rsh(c.b, k, &mut r, c.rc, &a, c.ac, s))
                }
                "rsh_assign" => {
                    tmp_bytes = m.vec_znx_rsh_tmp_bytes();
                    ops::with_scratch::<B, _>(tmp_bytes, o, &mut issues, |s| m.vec_znx_rsh_assign(c.b, k, &mut r, c.rc, s))
                }
                "rsh_add_into" => {
                    tmp_bytes = m.vec_znx_rsh_tmp_bytes();
                    ops::with_scratch::<B, _>(tmp_bytes, o, &mut issues, |s| m.vec_znx_rsh_add_into(c.b, k, &mut r, c.rc, &a, c.ac, s))
                }
                "rsh_sub" => {
                    tmp_bytes = m.vec_znx_rsh_tmp_bytes();
                    ops::with_scratch::<B, _>(tmp_bytes, o, &mut issues, |s| m.vec_znx_rsh_sub(c.b, k, &mut r, c.rc, &a, c.ac, s))
                }
                o => panic!("run_v: unknown op {o}"),
            }
        }
    });
    let lay = Lay { n, cols: c.cols, w: 8 };
    let mut out = VOut {
        panic: res.err(),
        raw: vec![],
        issues: vec![],
        tmp_bytes,
    };
    if out.panic.is_none() {
        if let Some(s) = stray_writes(&before, &r.data, lay, c.rc, c.rs, "result") {
            issues.push(s);
        }
        for j in 0..c.rs {
            out.raw.extend_from_slice(&r.data[lay.range(c.rc, j)]);
        }
    }
    if fnv(&a.data) != ad || fnv(&b.data) != bd || fnv(&sc.data) != sd {
        issues.push("read-only operand modified".into());
    }
    out.issues = issues;
    let _ = vclone;
    out
}

pub fn v_cases(tier: Tier) -> Vec<VCase> {
    let mut out = vec![];
    let smax = tier.pick(3usize, 4usize);
    let colsets: Vec<(usize, usize, usize, usize)> = vec![(1, 0, 0, 0), (2, 0, 1, 0), (2, 1, 0, 1), (3, 2, 1, 0), (3, 1, 1, 2), (3, 0, 2, 1)];
    for &op in c09::ALL_OPS.iter() {
        let name = format!("{op:?}");
        for &n in tier.pick(&[8usize, 16][..], &[4usize, 8, 16, 32][..]) {
            for rs in 1..=smax {
                for a_s in 1..=(if op.uses_a() { smax } else { 1 }) {
                    for bs in 1..=(if op.uses_b() { smax } else { 1 }) {
                        for &(cols, rc, ac, bc) in &colsets {
                            let ps: Vec<i64> = match op {
                                Op::Rotate | Op::RotateAssign | Op::MulXpMinusOne | Op::MulXpMinusOneAssign => vec![1, -3, n as i64, 2 * n as i64 + 1],
                                Op::Automorphism | Op::AutomorphismAssign => vec![3, 5, 2 * n as i64 - 1],
                                Op::AddScalarInto | Op::SubScalar => (0..rs.min(bs) as i64).collect(),
                                Op::AddScalarAssign | Op::SubScalarAssign => (0..rs as i64).collect(),
                                _ => vec![0],
                            };
                            for p in ps {
                                out.push(VCase {
                                    op: name.clone(),
                                    n,
                                    b: 12,
                                    cols,
                                    rs,
                                    a_s,
                                    bs,
                                    rc,
                                    ac,
                                    bc,
                                    p,
                                    b_out: 12,
                                    val: 0,
                                    rot: 0,
                                    stride: 0,
                                });
                            }
                        }
                    }
                }
            }
        }
    }
    for op in NORM_OPS {
        for &n in tier.pick(&[8usize][..], &[8usize, 16][..]) {
            for &(b, b_out) in &[(12usize, 12usize), (17, 12), (12, 17), (3, 3)] {
                if op != "normalize" && b != b_out {
                    continue;
                }
                for rs in 1..=smax {
                    for a_s in 1..=smax {
                        if matches!(op, "normalize_assign" | "lsh_assign" | "rsh_assign") && a_s != 1 {
                            continue;
                        }
                        for &(cols, rc, ac, bc) in &colsets {
                            let bi = b as i64;
                            let ps: Vec<i64> = match op {
                                "normalize" => vec![0, 1, -1, bi, -bi, bi + 1, -(bi + 1), (a_s as i64) * bi, -((rs as i64) * bi)],
                                "normalize_assign" => vec![0],
                                _ => vec![0, 1, bi - 1, bi, bi + 1, 2 * bi, (rs as i64) * bi],
                            };
                            for p in ps {
                                out.push(VCase {
                                    op: op.into(),
                                    n,
                                    b,
                                    cols,
                                    rs,
                                    a_s,
                                    bs: 1,
                                    rc,
                                    ac,
                                    bc,
                                    p,
                                    b_out,
                                    val: 0,
                                    rot: 0,
                                    stride: 0,
                                });
                            }
                        }
                    }
                }
            }
        }
    }
    out
}

fn exec_v<B: Bk>(c: &VCase, seed: u64, rec: &mut Rec)
where
    Module<B>: HalAll<B>,
{
    let mut raws = vec![];
    for g in 0..2usize {
        let o = Opts {
            garbage: g,
            scratch: ScratchMode::Owned,
            seed,
        };
        let out = run_v::<B>(c, &o);
        rec.evals(1);
        let base = |kind: &str| json!({"op": c.op, "backend": B::NAME, "kind": kind, "case": c, "inner": {"garbage": g}});
        if let Some(p) = out.panic {
            let mut d = base("panic");
            d["panic"] = json!(p);
            rec.fail(d);
            return;
        }
        for i in &out.issues {
            let mut d = base(if i.starts_with("scratch") { "scratch_overrun" } else { "stray_write" });
            d["why"] = json!(i);
            rec.fail(d);
        }
        raws.push(out.raw);
    }
    if raws[0] != raws[1] {
        let pos = raws[0].iter().zip(raws[1].iter()).position(|(x, y)| x != y).unwrap_or(0);
        let poly = pos / (c.n * 8);
        rec.fail(json!({"op": c.op, "backend": B::NAME, "kind": "stale_output", "case": c,
            "why": format!("selected output column differs between two garbage fills at limb {poly}, coefficient {}", (pos % (c.n * 8)) / 8)}));
    }
    rec.outcome(fnv(&raws[0]));
    rec.distinct(fnv(format!("{:?}{}", c, B::NAME).as_bytes()));
    rec.sample(|| serde_json::to_value(c).unwrap());
}

fn exec_d<B: Bk>(c: &OpCase, seed: u64, rec: &mut Rec)
where
    Module<B>: HalAll<B>,
{
    if !crate::c07::admissible::<B>(c) {
        rec.add("outside_magnitude_domain", 1);
        return;
    }
    let mut raws = vec![];
    for g in 0..2usize {
        let o = Opts {
            garbage: g,
            scratch: ScratchMode::Owned,
            seed,
        };
        let out = ops::run_op::<B>(c, &o);
        rec.evals(1);
        let base = |kind: &str| {
            json!({"op": c.op, "backend": B::NAME, "kind": kind, "case": c, "inner": {"garbage": g},
            "selects_past_input": crate::c07::selects_past_input(c)})
        };
        if let Some(p) = out.panic {
            let mut d = base("panic");
            d["panic"] = json!(p);
            rec.fail(d);
            return;
        }
        for i in &out.issues {
            let mut d = base(if i.starts_with("scratch") { "scratch_overrun" } else { "stray_write" });
            d["why"] = json!(i);
            rec.fail(d);
        }
        raws.push(out.raw);
    }
    if raws[0] != raws[1] {
        rec.fail(json!({"op": c.op, "backend": B::NAME, "kind": "stale_output", "case": c,
            "selects_past_input": crate::c07::selects_past_input(c),
            "why": "selected output differs between two garbage fills of result / prepared operands / scratch"}));
    }
    rec.outcome(fnv(&raws[0]));
    rec.distinct(fnv(format!("{:?}{}", c, B::NAME).as_bytes()));
    rec.sample(|| serde_json::to_value(c).unwrap());
}

pub fn fam_v<B: Bk>(run: &mut Run)
where
    Module<B>: HalAll<B>,
{
    let seed = run.seed;
    let cs = v_cases(run.tier);
    run.family(
        &format!("coefficient_ops/{}", B::NAME),
        "outer = (op among 19 ring ops + 10 normalise/shift forms, n, sizes, 1..3 columns with every target/source column pattern, parameter); each case run from two independent garbage fills of result buffer (other columns, spare capacity) and scratch; oracle-free: selected column identical, everything else untouched, operands unmodified",
        cs,
        |c, rec| exec_v::<B>(c, seed, rec),
    );
}

pub fn fam_d<B: Bk>(run: &mut Run)
where
    Module<B>: HalAll<B>,
{
    let seed = run.seed;
    let tier = run.tier;
    let mut cs = vec![];
    let b = crate::c07::radices(B::FAMILY, tier)[1];
    for op in crate::c07::all_ops() {
        cs.extend(crate::c07::cases_for(op, 8, b, tier).into_iter().filter(|c| c.val == 0));
    }
    run.family(
        &format!("dft_domain_ops/{}", B::NAME),
        "outer = every DFT-domain case of C07 at N=8 (transforms with (step, offset) past the end, transform-domain arithmetic, svp, vmp with every limb_offset, convolutions with every cnv_offset and mask, all column patterns); two garbage fills of result, prepared operands and exact-size scratch windows; oracle-free",
        cs,
        |c, rec| exec_d::<B>(c, seed, rec),
    );
}

// ---------------------------------------------------------------------------------------------
// histories (E2-style): one output buffer reused with set_size changes in between
// ---------------------------------------------------------------------------------------------

#[derive(Clone, Debug, Serialize, Deserialize)]
pub struct HistCase {
    pub ops: Vec<(String, usize)>, // (op, active size set before the op)
    pub n: usize,
    pub max_size: usize,
}

fn exec_hist<B: Bk>(c: &HistCase, seed: u64, rec: &mut Rec)
where
    Module<B>: HalAll<B>,
{
    // Two runs of the same history from different initial garbage must agree on every limb the documented size rule
    // defines (all limbs < active size after each step), and never touch limbs >= active size.
    let n = c.n;
    let m = B::module(n);
    let mut rng = Rng::new(seed, fnv(format!("{:?}", c).as_bytes()));
    let mut a = VecZnx::alloc(n, 1, c.max_size);
    for x in a.raw_mut() {
        *x = rng.digit(12);
    }
    let mut bufs: Vec<VecZnx<Vec<u8>>> = (0..2)
        .map(|g| {
            let mut r = VecZnx::alloc(n, 1, c.max_size);
            garbage(&mut r.data, g);
            r
        })
        .collect();
    let mut defined = 0usize; // number of leading limbs whose content is defined by the history so far
    for (step, (op, size)) in c.ops.iter().enumerate() {
        let mut outs = vec![];
        for r in bufs.iter_mut() {
            r.set_size(*size);
            let before = aligned_copy(&r.data);
            let res = guarded(|| {
                let mut s = B::scratch(m.vec_znx_normalize_tmp_bytes().max(m.vec_znx_rsh_tmp_bytes()) + 64);
                match op.as_str() {
                    "copy" => m.vec_znx_copy(r, 0, &a, 0),
                    "add_into" => m.vec_znx_add_into(r, 0, &a, 0, &a, 0),
                    "negate" => m.vec_znx_negate(r, 0, &a, 0),
                    "rotate" => m.vec_znx_rotate(3, r, 0, &a, 0),
                    "normalize" => m.vec_znx_normalize(r, 12, 0, 0, &a, 12, 0, B::borrow(&mut s)),
                    "lsh" => m.vec_znx_lsh(12, 5, r, 0, &a, 0, B::borrow(&mut s)),
                    "rsh" => m.vec_znx_rsh(12, 5, r, 0, &a, 0, B::borrow(&mut s)),
                    // in-place operations only read/write limbs < size
                    "negate_assign" => m.vec_znx_negate_assign(r, 0),
                    "add_assign" => m.vec_znx_add_assign(r, 0, &a, 0),
                    "normalize_assign" => m.vec_znx_normalize_assign(12, r, 0, B::borrow(&mut s)),
                    o => panic!("unknown history op {o}"),
                }
            });
            rec.evals(1);
            if let Err(p) = res {
                rec.fail(json!({"op": format!("history:{op}"), "backend": B::NAME, "kind": "panic", "case": c, "inner": {"step": step}, "panic": p}));
                return;
            }
            let lay = Lay { n, cols: 1, w: 8 };
            if let Some(s) = stray_writes(&before, &r.data, lay, 0, *size, "result") {
                rec.fail(json!({"op": format!("history:{op}"), "backend": B::NAME, "kind": "stray_write", "case": c, "inner": {"step": step}, "why": s}));
                return;
            }
            outs.push(r.data[..n * 8 * c.max_size].to_vec());
        }
        let in_place = matches!(op.as_str(), "negate_assign" | "add_assign" | "normalize_assign");
        defined = if op == "normalize_assign" {
            // carries run from the least significant limb upwards: an undefined low limb makes every limb undefined
            if *size <= defined { *size } else { 0 }
        } else if in_place {
            defined.min(*size)
        } else {
            *size
        };
        // limbs < defined must agree between the two runs
        let upto = defined * n * 8;
        if outs[0][..upto] != outs[1][..upto] {
            rec.fail(json!({"op": format!("history:{op}"), "backend": B::NAME, "kind": "stale_output", "case": c, "inner": {"step": step},
                "why": "a limb that the size rule defines differs between two initial garbage fills"}));
            return;
        }
    }
    rec.distinct(fnv(format!("{:?}{}", c, B::NAME).as_bytes()));
    rec.sample(|| serde_json::to_value(c).unwrap());
}

pub fn fam_hist<B: Bk>(run: &mut Run)
where
    Module<B>: HalAll<B>,
{
    let seed = run.seed;
    let names = ["copy", "add_into", "negate", "rotate", "normalize", "lsh", "rsh", "negate_assign", "add_assign", "normalize_assign"];
    // under the memory monitor (C17, AddressSanitizer build) one level less: the sanitised run is ~5x slower and the
    // deeper histories are C11's own business
    let depth = if run.property == "C17" { run.tier.pick(2usize, 3usize) } else { run.tier.pick(3usize, 4usize) };
    let max_size = 3usize;
    let mut cs = vec![];
    // all sequences of (op, size) of the given depth
    let alphabet: Vec<(String, usize)> = names.iter().flat_map(|o| (1..=max_size).map(move |s| (o.to_string(), s))).collect();
    let mut idx = vec![0usize; depth];
    loop {
        cs.push(HistCase {
            ops: idx.iter().map(|&i| alphabet[i].clone()).collect(),
            n: 8,
            max_size,
        });
        let mut k = depth;
        loop {
            if k == 0 {
                break;
            }
            k -= 1;
            idx[k] += 1;
            if idx[k] < alphabet.len() {
                break;
            }
            idx[k] = 0;
            if k == 0 {
                k = usize::MAX;
                break;
            }
        }
        if k == usize::MAX {
            break;
        }
    }
    run.states += cs.len() as u64;
    run.family(
        &format!("histories/{}", B::NAME),
        "all sequences of depth 3 (quick) / 4 (thorough) over (10 operations x active size 1..3 set by set_size before the call) on one reused output buffer of capacity 3; two initial garbage fills; invariant after each step: limbs the size rule defines agree, limbs beyond the active size untouched",
        cs,
        |c, rec| exec_hist::<B>(c, seed, rec),
    );
}

// ---------------------------------------------------------------------------------------------
// ring switching / splitting / merging from two garbage fills
// ---------------------------------------------------------------------------------------------

#[derive(Clone, Debug, Serialize, Deserialize)]
pub struct RingVCase {
    pub op: String, // switch_ring | split_ring | merge_rings
    pub n_in: usize,
    pub n_out: usize,
    pub cols: usize,
    pub rs: usize,
    pub a_s: usize,
    pub rc: usize,
    pub ac: usize,
}

/// one run from garbage fill `fill`: bytes of the selected column of every output, issues found
fn ring_once<B: Bk>(c: &RingVCase, seed: u64, fill: usize) -> Result<(Vec<u8>, Vec<String>), String>
where
    Module<B>: HalAll<B>,
{
    let mut rng = Rng::new(seed, fnv(format!("{:?}", c).as_bytes()));
    let big = c.n_in.max(c.n_out);
    let small = c.n_in.min(c.n_out);
    let parts = big / small;
    // switch_ring only needs some module; split / merge need the module of the big ring
    let mb = if c.op == "switch_ring" { B::module(big.max(8)) } else { B::module(big) };
    let mut issues = vec![];
    let o = Opts { garbage: fill, scratch: ScratchMode::Exact(fill), seed };
    let gvec = |n: usize| -> VecZnx<Vec<u8>> {
        let mut r = VecZnx::alloc(n, c.cols, c.rs + 1);
        garbage(&mut r.data, fill);
        r.size = c.rs;
        r
    };
    let mut fillv = |n: usize, rng: &mut Rng| -> VecZnx<Vec<u8>> {
        let mut a = VecZnx::alloc(n, c.cols, c.a_s);
        for x in a.raw_mut() {
            *x = rng.digit(50);
        }
        a
    };
    let lay = |n: usize| Lay { n, cols: c.cols, w: 8 };
    let sel = |r: &VecZnx<Vec<u8>>, n: usize| -> Vec<u8> { (0..c.rs).flat_map(|j| r.data[lay(n).range(c.rc, j)].to_vec()).collect() };
    let mut out = vec![];
    let res = guarded(|| match c.op.as_str() {
        "switch_ring" => {
            let a = fillv(c.n_in, &mut rng);
            let ad = fnv(&a.data);
            let mut r = gvec(c.n_out);
            let before = aligned_copy(&r.data);
            mb.vec_znx_switch_ring(&mut r, c.rc, &a, c.ac);
            if let Some(w) = stray_writes(&before, &r.data, lay(c.n_out), c.rc, c.rs, "result") {
                issues.push(w);
            }
            if fnv(&a.data) != ad {
                issues.push("operand modified".into());
            }
            out.extend(sel(&r, c.n_out));
        }
        "split_ring" => {
            let a = fillv(big, &mut rng);
            let ad = fnv(&a.data);
            let mut rs: Vec<VecZnx<Vec<u8>>> = (0..parts).map(|_| gvec(small)).collect();
            let befores: Vec<Vec<u8>> = rs.iter().map(|r| r.data.to_vec()).collect();
            let tb = mb.vec_znx_split_ring_tmp_bytes();
            ops::with_scratch::<B, _>(tb, &o, &mut issues, |s| mb.vec_znx_split_ring(&mut rs, c.rc, &a, c.ac, s));
            for (r, b) in rs.iter().zip(befores.iter()) {
                if let Some(w) = stray_writes(b, &r.data, lay(small), c.rc, c.rs, "result part") {
                    issues.push(w);
                }
                out.extend(sel(r, small));
            }
            if fnv(&a.data) != ad {
                issues.push("operand modified".into());
            }
        }
        _ => {
            let ps: Vec<VecZnx<Vec<u8>>> = (0..parts).map(|_| fillv(small, &mut rng)).collect();
            let pd: Vec<u64> = ps.iter().map(|p| fnv(&p.data)).collect();
            let mut r = gvec(big);
            let before = aligned_copy(&r.data);
            let tb = mb.vec_znx_merge_rings_tmp_bytes();
            ops::with_scratch::<B, _>(tb, &o, &mut issues, |s| mb.vec_znx_merge_rings(&mut r, c.rc, &ps, c.ac, s));
            if let Some(w) = stray_writes(&before, &r.data, lay(big), c.rc, c.rs, "result") {
                issues.push(w);
            }
            if ps.iter().zip(pd.iter()).any(|(p, d)| fnv(&p.data) != *d) {
                issues.push("operand modified".into());
            }
            out.extend(sel(&r, big));
        }
    });
    res.map(|_| (out, issues))
}

pub fn exec_ringv<B: Bk>(c: &RingVCase, seed: u64, rec: &mut Rec)
where
    Module<B>: HalAll<B>,
{
    rec.distinct(fnv(format!("{:?}", c).as_bytes()));
    rec.sample(|| serde_json::to_value(c).unwrap());
    let mut outs = vec![];
    for fill in [0usize, 1] {
        rec.evals(1);
        match ring_once::<B>(c, seed, fill) {
            Err(p) => {
                let kind = if p.contains("scratch") || p.contains("Attempted to take") { "scratch_too_small" } else { "panic" };
                rec.fail(json!({"op": format!("vec_znx_{}", c.op), "backend": B::NAME, "kind": kind, "case": c, "panic": p}));
                return;
            }
            Ok((o, issues)) => {
                for w in issues {
                    let kind = if w.starts_with("scratch") { "scratch_overrun" } else { "stray_write" };
                    rec.fail(json!({"op": format!("vec_znx_{}", c.op), "backend": B::NAME, "kind": kind, "case": c, "why": w}));
                }
                outs.push(o);
            }
        }
    }
    if outs[0] != outs[1] {
        let pos = outs[0].iter().zip(outs[1].iter()).position(|(a, b)| a != b).unwrap_or(0);
        rec.fail(json!({"op": format!("vec_znx_{}", c.op), "backend": B::NAME, "kind": "stale_output", "case": c,
            "why": format!("selected output differs between two garbage fills of the result buffers / scratch (first at byte {pos})")}));
    }
    rec.outcome(fnv(&outs[0]));
}

pub fn ringv_cases(tier: Tier) -> Vec<RingVCase> {
    let mut out = vec![];
    let colsets: &[(usize, usize, usize)] = &[(1, 0, 0), (2, 1, 0), (3, 0, 2), (3, 2, 1)];
    for big in tier.pick(vec![4usize, 8, 16, 32], vec![2usize, 4, 8, 16, 32, 64]) {
        for ratio in [1usize, 2, 4, 8, 16] {
            if big % ratio != 0 || big / ratio == 0 {
                continue;
            }
            let small = big / ratio;
            for &(cols, rc, ac) in colsets {
                for rs in 1..=tier.pick(2usize, 3) {
                    for a_s in 1..=tier.pick(2usize, 3) {
                        let mk = |op: &str, n_in: usize, n_out: usize| RingVCase { op: op.into(), n_in, n_out, cols, rs, a_s, rc, ac };
                        out.push(mk("switch_ring", big, small));
                        out.push(mk("switch_ring", small, big));
                        if ratio > 1 {
                            out.push(mk("split_ring", big, small));
                            out.push(mk("merge_rings", small, big));
                        }
                    }
                }
            }
        }
    }
    out
}

pub fn fam_ringv<B: Bk>(run: &mut Run)
where
    Module<B>: HalAll<B>,
{
    let seed = run.seed;
    run.family(
        &format!("ring_ops/{}", B::NAME),
        "switch_ring (both directions, ratios 1..16), split_ring, merge_rings x column patterns of 1..3 columns x result / operand sizes: two runs from independent garbage in every result buffer (all columns, spare limb) and in an exact-size scratch window; selected column byte-identical, every other byte untouched, operands unmodified",
        ringv_cases(run.tier),
        |c, rec| exec_ringv::<B>(c, seed, rec),
    );
}

pub fn run(run: &mut Run) {
    run.assume("operand digits are normalised (|d| < 2^(b-1)); DFT-domain cases stay inside the C07 magnitude domain");
    run.assume("for in-place forms the prior content of the selected column is an input; garbage is applied to other columns, spare capacity, prepared operands' buffers before preparation, and scratch");
    for_backends!(fam_v(run));
    for_backends!(fam_d(run));
    for_backends!(fam_hist(run));
    for_backends!(fam_big_scratch(run));
    for_backends!(fam_ringv(run));
    let total: u64 = run.families.iter().map(|f| f.rec.evaluations).sum();
    run.transitions = total;
    run.traces_validated = total;
    let _ = Val::Tag;
}

pub fn replay(run: &mut Run, d: &Value) {
    let backend = d["backend"].as_str().unwrap_or("").to_string();
    let fam = d["family"].as_str().unwrap_or("").to_string();
    let seed = d["seed"].as_u64().unwrap_or(0);
    macro_rules! go {
        ($B:ty) => {{
            if fam.starts_with("ring_ops") {
                let c: RingVCase = serde_json::from_value(d["case"].clone()).unwrap();
                run.single(&fam, "replay", |rec| exec_ringv::<$B>(&c, seed, rec));
            } else if fam.starts_with("big_normalize_scratch") {
                let c: crate::c08::Case = serde_json::from_value(d["case"].clone()).unwrap();
                run.single(&fam, "replay", |rec| crate::c08::exec_scratch::<$B>(&c, seed, rec));
            } else if fam.starts_with("coefficient_ops") {
                let c: VCase = serde_json::from_value(d["case"].clone()).unwrap();
                run.single(&fam, "replay", |rec| exec_v::<$B>(&c, seed, rec));
            } else if fam.starts_with("dft_domain_ops") {
                let c: OpCase = serde_json::from_value(d["case"].clone()).unwrap();
                run.single(&fam, "replay", |rec| exec_d::<$B>(&c, seed, rec));
            } else {
                let c: HistCase = serde_json::from_value(d["case"].clone()).unwrap();
                run.single(&fam, "replay", |rec| exec_hist::<$B>(&c, seed, rec));
            }
        }};
    }
    match backend.as_str() {
        "fft64-ref" => go!(crate::be::FFT64Ref),
        "ntt120-ref" => go!(crate::be::NTT120Ref),
        "fft64-avx" => go!(crate::be::FFT64Avx),
        "ntt120-avx" => go!(crate::be::NTT120Avx),
        o => panic!("unknown backend {o}"),
    }
}

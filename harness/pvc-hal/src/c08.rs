//! C08 - limb representation: normalisation, shifts, integer encoding are exact (engine E1).
//!
//! Oracle R4: value(out) == value(in) * 2^offset (mod 1) within one unit of the output's last limb, exactly
//! when the output is long enough (out_bits >= in_bits - offset); for equal radices every digit of an
//! overwritten output lies in [-2^(b-1), 2^(b-1)).  All operations are coefficient-wise, so 64 independent
//! digit tuples are packed into one call.

use crate::be::{Bk, HalAll};
use crate::big::{BigBuf, big_alloc, vclone};
use crate::for_backends;
use poulpy_hal::api::*;
use poulpy_hal::layouts::{Module, VecZnx, ZnxView, ZnxViewMut};
use pvc_engine::rng::{Rng, garbage};
use pvc_engine::{Rec, Run, Tier, fnv, guarded};
use pvc_model::IBig;
use pvc_model::torus;
use serde::{Deserialize, Serialize};
use serde_json::{Value, json};

#[derive(Clone, Copy, Debug, PartialEq, Eq, Serialize, Deserialize)]
pub enum NOp {
    Normalize,
    NormalizeAssign,
    Lsh,
    LshAssign,
    LshAddInto,
    LshSub,
    Rsh,
    RshAssign,
    RshAddInto,
    RshSub,
    BigNormalize,
    BigNormalizeAddAssign,
    BigNormalizeSubAssign,
    BigNormalizeNegate,
}

impl NOp {
    fn is_assign(self) -> bool {
        matches!(self, NOp::NormalizeAssign | NOp::LshAssign | NOp::RshAssign)
    }
    /// result = prior result (+/-) shifted input
    fn accumulates(self) -> i32 {
        match self {
            NOp::LshAddInto | NOp::RshAddInto | NOp::BigNormalizeAddAssign => 1,
            NOp::LshSub | NOp::RshSub | NOp::BigNormalizeSubAssign => -1,
            _ => 0,
        }
    }
    fn cross_radix(self) -> bool {
        matches!(
            self,
            NOp::Normalize | NOp::BigNormalize | NOp::BigNormalizeAddAssign | NOp::BigNormalizeSubAssign | NOp::BigNormalizeNegate
        )
    }
    fn is_big(self) -> bool {
        matches!(
            self,
            NOp::BigNormalize | NOp::BigNormalizeAddAssign | NOp::BigNormalizeSubAssign | NOp::BigNormalizeNegate
        )
    }
    /// offsets (signed, in bits; positive = multiply by 2^offset)
    fn offsets(self, a_bits: usize, b: usize, r_size: usize) -> Vec<i64> {
        let m = (a_bits + 2 * b) as i64;
        match self {
            NOp::Normalize | NOp::BigNormalize | NOp::BigNormalizeAddAssign | NOp::BigNormalizeSubAssign | NOp::BigNormalizeNegate => {
                (-m..=m).collect()
            }
            NOp::NormalizeAssign => vec![0],
            NOp::Lsh | NOp::LshAssign | NOp::LshAddInto | NOp::LshSub => (0..=((r_size.max(a_bits / b) + 2) * b) as i64).collect(),
            NOp::Rsh | NOp::RshAssign | NOp::RshAddInto | NOp::RshSub => {
                (0..=((r_size.max(a_bits / b) + 2) * b) as i64).map(|k| -k).collect()
            }
        }
    }
}

#[derive(Clone, Debug, Serialize, Deserialize)]
pub struct Case {
    pub op: NOp,
    pub backend: String,
    pub b_in: usize,
    pub b_out: usize,
    pub a_size: usize,
    pub r_size: usize,
    pub offset: i64,
    /// value alphabet: "all" = every digit tuple with digits in [-2^(b+1), 2^(b+1)]; "boundary" = named classes
    pub alphabet: String,
    /// packing width (ring degree of the VecZnx used as a vector of independent tuples)
    pub n: usize,
}

/// all digit tuples (most significant first) for the alphabet
fn tuples(c: &Case, seed: u64) -> Vec<Vec<i128>> {
    let b = c.b_in;
    match c.alphabet.as_str() {
        "all" => {
            let lim = 1i128 << (b + 1);
            let m = (2 * lim + 1) as usize;
            let total = m.pow(c.a_size as u32);
            (0..total)
                .map(|mut t| {
                    let mut v = vec![0i128; c.a_size];
                    for d in v.iter_mut().rev() {
                        *d = (t % m) as i128 - lim;
                        t /= m;
                    }
                    v
                })
                .collect()
        }
        "tail" => {
            // deterministic sub-family of "all" (every 37th tuple) used with odd packing widths (SIMD tails)
            let lim = 1i128 << (b + 1);
            let m = (2 * lim + 1) as usize;
            let total = m.pow(c.a_size as u32);
            (0..total)
                .step_by(37)
                .map(|mut t| {
                    let mut v = vec![0i128; c.a_size];
                    for d in v.iter_mut().rev() {
                        *d = (t % m) as i128 - lim;
                        t /= m;
                    }
                    v
                })
                .collect()
        }
        _ => {
            // boundary classes for large radices; headroom: |digit| <= 2^62 for i64 inputs, 2^118 for i128 accumulators
            let wide = c.op.is_big() && c.backend.starts_with("ntt120");
            // |digit| <= 2^62 keeps every `digit + carry` of the kernels inside i64 for any radix
            let top: i128 = if wide { 1i128 << 118 } else { 1i128 << 62 };
            let h = 1i128 << (b - 1);
            let mut classes: Vec<i128> = vec![0, 1, -1, h - 1, -(h - 1), h, -h, 1i128 << b, -(1i128 << b), top - 1, -(top - 1), top / 3, -(top / 5)];
            classes.sort();
            classes.dedup();
            let mut out: Vec<Vec<i128>> = vec![];
            // constant tuples, single non-zero at each position, carry-ripple and sign-ripple, alternating
            for &x in &classes {
                out.push(vec![x; c.a_size]);
                for p in 0..c.a_size {
                    let mut v = vec![0i128; c.a_size];
                    v[p] = x;
                    out.push(v);
                }
            }
            let mut ripple = vec![h - 1; c.a_size];
            *ripple.last_mut().unwrap() = h;
            out.push(ripple.clone());
            out.push(ripple.iter().map(|x| -x).collect());
            let mut alt = vec![0i128; c.a_size];
            for (i, d) in alt.iter_mut().enumerate() {
                *d = if i % 2 == 0 { top - 1 } else { -(top - 1) };
            }
            out.push(alt.clone());
            out.push(alt.iter().map(|x| -x).collect());
            let mut rng = Rng::new(seed, fnv(format!("{:?}", c).as_bytes()));
            for _ in 0..16 {
                out.push((0..c.a_size).map(|_| rng.range_i64(-(h as i64), h as i64 - 1) as i128).collect());
                out.push(
                    (0..c.a_size)
                        .map(|_| {
                            let x = ((rng.next() as u128) << 64 | rng.next() as u128) as i128;
                            x % top
                        })
                        .collect(),
                );
            }
            out
        }
    }
}

fn ibig_value(digits: &[i128], b: usize) -> IBig {
    torus::value_scaled_i128(digits, b)
}

/// torus error of `out` against `inp * 2^offset (+ prior)`; returns (|err| <= tol_units units?, exact?, description)
#[allow(clippy::too_many_arguments)]
fn judge(
    inp: &[i128],
    b_in: usize,
    offset: i64,
    prior: Option<(&[i128], i32)>, // prior result digits (radix b_out) and sign of the accumulated input
    negate: bool,
    out: &[i128],
    b_out: usize,
) -> Result<(), (String, f64)> {
    let in_bits = inp.len() * b_in;
    let out_bits = out.len() * b_out;
    let need = (in_bits as i64 - offset).max(0) as usize; // bits needed to hold in * 2^offset exactly
    let l = need.max(out_bits) + 1;
    // in * 2^offset scaled by 2^l : in_val * 2^(l - in_bits + offset)
    let sh = l as i64 - in_bits as i64 + offset;
    debug_assert!(sh >= 0);
    let mut want: IBig = ibig_value(inp, b_in) << (sh as usize);
    if negate {
        want = -want;
    }
    if let Some((p, sign)) = prior {
        let pv: IBig = ibig_value(p, b_out) << (l - out_bits);
        want = if sign >= 0 { pv + want } else { pv - want };
    }
    let got: IBig = ibig_value(out, b_out) << (l - out_bits);
    let d = torus::centered_mod_pow2(&(got - want), l);
    let unit: IBig = torus::pow2(l - out_bits);
    let ad = torus::abs(&d);
    // error in units of the last output limb (floating approximation, only for reporting / selectors)
    let units = || -> f64 {
        let q: IBig = (&ad << 10) / &unit;
        let qf: f64 = q.to_string().parse::<f64>().unwrap_or(f64::INFINITY);
        qf / 1024.0
    };
    if out_bits >= need {
        if ad != IBig::from(0) {
            return Err((format!("inexact although the output holds {out_bits} >= {need} bits: err = {d} / 2^{l}"), units()));
        }
    } else if ad > unit {
        return Err((format!("error {d} / 2^{l} exceeds one unit of the last output limb (2^{})", l - out_bits), units()));
    }
    Ok(())
}

pub fn exec<B: Bk>(c: &Case, only_block: Option<usize>, seed: u64, rec: &mut Rec)
where
    Module<B>: HalAll<B>,
{
    let n = c.n;
    let m = B::module(if n.is_power_of_two() { n } else { 8 });
    // scratch sized for the largest user among the operations driven here; module.n() sizes the carries, so the
    // module must have the packing width as ring degree (power of two) - odd widths use a marker module of their own
    let m_odd;
    let mref: &Module<B> = if n.is_power_of_two() {
        &m
    } else {
        m_odd = Module::<B>::new_marker(n.next_power_of_two() as u64);
        &m_odd
    };
    let scratch_bytes = mref
        .vec_znx_normalize_tmp_bytes()
        .max(mref.vec_znx_big_normalize_tmp_bytes())
        .max(mref.vec_znx_lsh_tmp_bytes())
        .max(mref.vec_znx_rsh_tmp_bytes())
        + 64;
    let ts = tuples(c, seed);
    let nblocks = ts.len().div_ceil(n);
    let mut rng = Rng::new(seed, fnv(format!("{:?}", c).as_bytes()));
    rec.distinct(fnv(format!("{:?}", c).as_bytes()));
    rec.sample(|| serde_json::to_value(c).unwrap());
    let k = c.offset.unsigned_abs() as usize;
    let acc = c.op.accumulates();
    // one failure per case and per input class (normalised / un-normalised), smallest tuple first
    let mut reported = [false; 2];
    for blk in 0..nblocks {
        if let Some(ob) = only_block {
            if ob != blk {
                continue;
            }
        }
        let lo = blk * n;
        let hi = (lo + n).min(ts.len());
        // inputs
        let mut a = VecZnx::alloc(n, 1, c.a_size);
        let mut abig: Option<BigBuf<B>> = None;
        if c.op.is_big() {
            let mut bb = big_alloc::<B>(mref, 1, c.a_size);
            // big_alloc uses module.n(): for odd n it is larger; only power-of-two widths are used for big ops
            for j in 0..c.a_size {
                let xs: Vec<i128> = (0..n).map(|i| if lo + i < hi { ts[lo + i][j] } else { 0 }).collect();
                bb.set(0, j, &xs);
            }
            abig = Some(bb);
        } else {
            for j in 0..c.a_size {
                let s = a.at_mut(0, j);
                for i in 0..n {
                    s[i] = if lo + i < hi { ts[lo + i][j] as i64 } else { 0 };
                }
            }
        }
        // prior result: garbage for overwriting forms, meaningful digits for accumulating / in-place forms
        let mut r = VecZnx::alloc(n, 1, c.r_size);
        if c.op.is_assign() {
            // in-place: the result *is* the input (r_size == a_size)
            r = vclone(&a);
        } else if acc != 0 {
            for j in 0..c.r_size {
                let s = r.at_mut(0, j);
                for x in s.iter_mut() {
                    *x = rng.digit(c.b_out + 1);
                }
            }
        } else {
            garbage(r.data.as_mut_slice(), blk & 1);
        }
        let prior = vclone(&r);
        let res = guarded(|| {
            let mut s = B::scratch(scratch_bytes);
            let sc = B::borrow(&mut s);
            match c.op {
                NOp::Normalize => mref.vec_znx_normalize(&mut r, c.b_out, c.offset, 0, &a, c.b_in, 0, sc),
                NOp::NormalizeAssign => mref.vec_znx_normalize_assign(c.b_in, &mut r, 0, sc),
                NOp::Lsh => mref.vec_znx_lsh(c.b_in, k, &mut r, 0, &a, 0, sc),
                NOp::LshAssign => mref.vec_znx_lsh_assign(c.b_in, k, &mut r, 0, sc),
                NOp::LshAddInto => mref.vec_znx_lsh_add_into(c.b_in, k, &mut r, 0, &a, 0, sc),
                NOp::LshSub => mref.vec_znx_lsh_sub(c.b_in, k, &mut r, 0, &a, 0, sc),
                NOp::Rsh => mref.vec_znx_rsh(c.b_in, k, &mut r, 0, &a, 0, sc),
                NOp::RshAssign => mref.vec_znx_rsh_assign(c.b_in, k, &mut r, 0, sc),
                NOp::RshAddInto => mref.vec_znx_rsh_add_into(c.b_in, k, &mut r, 0, &a, 0, sc),
                NOp::RshSub => mref.vec_znx_rsh_sub(c.b_in, k, &mut r, 0, &a, 0, sc),
                NOp::BigNormalize => {
                    mref.vec_znx_big_normalize(&mut r, c.b_out, c.offset, 0, &abig.as_ref().unwrap().v, c.b_in, 0, sc)
                }
                NOp::BigNormalizeAddAssign => {
                    mref.vec_znx_big_normalize_add_assign(&mut r, c.b_out, c.offset, 0, &abig.as_ref().unwrap().v, c.b_in, 0, sc)
                }
                NOp::BigNormalizeSubAssign => {
                    mref.vec_znx_big_normalize_sub_assign(&mut r, c.b_out, c.offset, 0, &abig.as_ref().unwrap().v, c.b_in, 0, sc)
                }
                NOp::BigNormalizeNegate => {
                    mref.vec_znx_big_normalize_negate(&mut r, c.b_out, c.offset, 0, &abig.as_ref().unwrap().v, c.b_in, 0, sc)
                }
            }
        });
        rec.evals((hi - lo) as u64);
        rec.add("calls", 1);
        let inner = json!({"block": blk});
        if let Err(msg) = res {
            rec.fail(json!({"op": format!("{:?}", c.op), "backend": B::NAME, "kind": "panic", "case": c, "inner": inner, "panic": msg,
                "first_tuple": ts[lo].iter().map(|x| x.to_string()).collect::<Vec<_>>()}));
            return;
        }
        for i in 0..(hi - lo) {
            let out: Vec<i128> = (0..c.r_size).map(|j| r.at(0, j)[i] as i128).collect();
            let pr: Vec<i128> = (0..c.r_size).map(|j| prior.at(0, j)[i] as i128).collect();
            let inp = &ts[lo + i];
            let verdict = judge(
                inp,
                c.b_in,
                c.offset,
                if acc != 0 { Some((&pr, acc)) } else { None },
                c.op == NOp::BigNormalizeNegate,
                &out,
                c.b_out,
            );
            let mut err_units = 0f64;
            let mut bad = verdict.err().map(|(m, u)| {
                err_units = u;
                m
            });
            // digit range for overwriting forms with equal radices
            if bad.is_none() && acc == 0 && c.b_in == c.b_out && c.op != NOp::BigNormalizeNegate {
                let h = 1i128 << (c.b_out - 1);
                if let Some(j) = out.iter().position(|d| *d < -h || *d >= h) {
                    bad = Some(format!("output digit {} of limb {j} outside [-2^(b-1), 2^(b-1))", out[j]));
                }
            }
            if let Some(why) = bad {
                // classification computed from the case alone (used by known-finding selectors)
                let h = 1i128 << (c.b_in - 1);
                let input_normalised = inp.iter().all(|d| *d >= -h && *d < h);
                if reported[input_normalised as usize] && std::env::var("VERIF_ALLFAIL").is_err() {
                    continue;
                }
                reported[input_normalised as usize] = true;
                let beyond = (-c.offset - (c.r_size * c.b_out) as i64).max(0);
                // classification of the case for known-finding selectors (computed from the case alone):
                //  - the result cannot hold every bit of input * 2^offset
                let truncates = (c.a_size * c.b_in) as i64 - c.offset > (c.r_size * c.b_out) as i64;
                //  - whole result limbs that lie above the input once its limb grid has been moved down by the
                //    (negative) offset rounded away from zero to a multiple of the input radix
                let limbs_above = {
                    let mut lo = c.offset / c.b_in as i64;
                    if c.offset < 0 && c.offset % c.b_in as i64 != 0 {
                        lo -= 1;
                    }
                    ((-lo * c.b_in as i64).clamp(0, (c.r_size * c.b_out) as i64) as usize) / c.b_out
                };
                rec.fail(json!({"op": format!("{:?}", c.op), "backend": B::NAME, "kind": "wrong_value", "case": c, "inner": inner,
                    "input_normalised": input_normalised, "shift_beyond_output_bits": beyond,
                    "cross_radix": c.b_in != c.b_out, "offset_negative": c.offset < 0, "err_units": err_units,
                    "result_truncates_input": truncates, "result_limbs_above_input": limbs_above,
                    "input_digits": inp.iter().map(|x| x.to_string()).collect::<Vec<_>>(),
                    "prior_digits": pr.iter().map(|x| x.to_string()).collect::<Vec<_>>(),
                    "output_digits": out.iter().map(|x| x.to_string()).collect::<Vec<_>>(), "why": why}));
                continue;
            }
            if i == 0 {
                rec.outcome(pvc_engine::hash_i64s(&out.iter().map(|x| *x as i64).collect::<Vec<_>>()));
            }
        }
    }
}

// ---------------------------------------------------------------------------------------------
// the same operations as subjects of C11 / C12 / C17: exact-size scratch windows, several pre-fills
// ---------------------------------------------------------------------------------------------

/// Runs every block of the case once per pre-fill with a scratch window of exactly the operation's own size query
/// (between canaries) and demands: no panic, nothing written outside the window, result bytes identical for all fills.
/// (The value of the result is the business of `exec`.)
pub fn exec_scratch<B: Bk>(c: &Case, seed: u64, rec: &mut Rec)
where
    Module<B>: HalAll<B>,
{
    use crate::ops::{Opts, ScratchMode, with_scratch};
    let n = c.n;
    let m = B::module(n);
    let mref: &Module<B> = &m;
    let own_bytes = match c.op {
        NOp::Normalize | NOp::NormalizeAssign => mref.vec_znx_normalize_tmp_bytes(),
        NOp::Lsh | NOp::LshAssign | NOp::LshAddInto | NOp::LshSub => mref.vec_znx_lsh_tmp_bytes(),
        NOp::Rsh | NOp::RshAssign | NOp::RshAddInto | NOp::RshSub => mref.vec_znx_rsh_tmp_bytes(),
        _ => mref.vec_znx_big_normalize_tmp_bytes(),
    };
    let ts = tuples(c, seed);
    let nblocks = ts.len().div_ceil(n);
    let mut rng = Rng::new(seed, fnv(format!("{:?}", c).as_bytes()));
    rec.distinct(fnv(format!("{:?}", c).as_bytes()));
    rec.sample(|| serde_json::to_value(c).unwrap());
    let k = c.offset.unsigned_abs() as usize;
    let acc = c.op.accumulates();
    for blk in 0..nblocks {
        let lo = blk * n;
        let hi = (lo + n).min(ts.len());
        let mut a = VecZnx::alloc(n, 1, c.a_size);
        let mut abig: Option<BigBuf<B>> = None;
        if c.op.is_big() {
            let mut bb = big_alloc::<B>(mref, 1, c.a_size);
            for j in 0..c.a_size {
                let xs: Vec<i128> = (0..n).map(|i| if lo + i < hi { ts[lo + i][j] } else { 0 }).collect();
                bb.set(0, j, &xs);
            }
            abig = Some(bb);
        } else {
            for j in 0..c.a_size {
                let s = a.at_mut(0, j);
                for i in 0..n {
                    s[i] = if lo + i < hi { ts[lo + i][j] as i64 } else { 0 };
                }
            }
        }
        let mut r0 = VecZnx::alloc(n, 1, c.r_size);
        if c.op.is_assign() {
            r0 = vclone(&a);
        } else if acc != 0 {
            for j in 0..c.r_size {
                for x in r0.at_mut(0, j).iter_mut() {
                    *x = rng.digit(c.b_out + 1);
                }
            }
        } else {
            garbage(r0.data.as_mut_slice(), blk & 1);
        }
        let mut outs: Vec<Vec<u8>> = vec![];
        for fill in [2usize, 0, 1] {
            let mut r = vclone(&r0);
            if acc == 0 && !c.op.is_assign() {
                // overwriting forms: the prior content of the result is not an input either
                garbage(r.data.as_mut_slice(), fill);
            }
            let mut issues: Vec<String> = vec![];
            let o = Opts { garbage: fill, scratch: ScratchMode::Exact(fill), seed };
            let res = guarded(|| {
                with_scratch::<B, _>(own_bytes, &o, &mut issues, |sc| match c.op {
                    NOp::Normalize => mref.vec_znx_normalize(&mut r, c.b_out, c.offset, 0, &a, c.b_in, 0, sc),
                    NOp::NormalizeAssign => mref.vec_znx_normalize_assign(c.b_in, &mut r, 0, sc),
                    NOp::Lsh => mref.vec_znx_lsh(c.b_in, k, &mut r, 0, &a, 0, sc),
                    NOp::LshAssign => mref.vec_znx_lsh_assign(c.b_in, k, &mut r, 0, sc),
                    NOp::LshAddInto => mref.vec_znx_lsh_add_into(c.b_in, k, &mut r, 0, &a, 0, sc),
                    NOp::LshSub => mref.vec_znx_lsh_sub(c.b_in, k, &mut r, 0, &a, 0, sc),
                    NOp::Rsh => mref.vec_znx_rsh(c.b_in, k, &mut r, 0, &a, 0, sc),
                    NOp::RshAssign => mref.vec_znx_rsh_assign(c.b_in, k, &mut r, 0, sc),
                    NOp::RshAddInto => mref.vec_znx_rsh_add_into(c.b_in, k, &mut r, 0, &a, 0, sc),
                    NOp::RshSub => mref.vec_znx_rsh_sub(c.b_in, k, &mut r, 0, &a, 0, sc),
                    NOp::BigNormalize => {
                        mref.vec_znx_big_normalize(&mut r, c.b_out, c.offset, 0, &abig.as_ref().unwrap().v, c.b_in, 0, sc)
                    }
                    NOp::BigNormalizeAddAssign => {
                        mref.vec_znx_big_normalize_add_assign(&mut r, c.b_out, c.offset, 0, &abig.as_ref().unwrap().v, c.b_in, 0, sc)
                    }
                    NOp::BigNormalizeSubAssign => {
                        mref.vec_znx_big_normalize_sub_assign(&mut r, c.b_out, c.offset, 0, &abig.as_ref().unwrap().v, c.b_in, 0, sc)
                    }
                    NOp::BigNormalizeNegate => {
                        mref.vec_znx_big_normalize_negate(&mut r, c.b_out, c.offset, 0, &abig.as_ref().unwrap().v, c.b_in, 0, sc)
                    }
                })
            });
            rec.evals(1);
            let inner = json!({"block": blk, "fill": fill, "scratch_bytes": own_bytes});
            if let Err(msg) = res {
                let kind = if msg.contains("scratch") || msg.contains("Attempted to take") { "scratch_too_small" } else { "panic" };
                rec.fail(json!({"op": format!("{:?}", c.op), "backend": B::NAME, "kind": kind, "case": c, "inner": inner, "panic": msg}));
                return;
            }
            for w in issues {
                rec.fail(json!({"op": format!("{:?}", c.op), "backend": B::NAME, "kind": "scratch_overrun", "case": c, "inner": inner, "why": w}));
            }
            outs.push(r.data.to_vec());
        }
        if outs.iter().any(|x| *x != outs[0]) {
            rec.fail(json!({"op": format!("{:?}", c.op), "backend": B::NAME, "kind": "scratch_dependent_result", "case": c,
                "inner": {"block": blk, "scratch_bytes": own_bytes},
                "why": "result bytes differ between runs whose scratch window (and, for overwriting forms, result buffer) was pre-filled with zeros, the NaN pattern and large values"}));
            return;
        }
        rec.outcome(fnv(&outs[0]));
    }
}

/// the big-accumulator normalisations (the only HAL scratch users not driven by the generic C11/C12 executors)
pub fn big_scratch_cases<B: Bk>(tier: Tier) -> Vec<Case> {
    cases::<B>(tier)
        .into_iter()
        .filter(|c| c.op.is_big() && (c.alphabet == "boundary" || (c.b_in <= 2 && c.b_out <= 3 && c.a_size <= 2)))
        .collect()
}

pub fn fam_big_scratch<B: Bk>(run: &mut Run)
where
    Module<B>: HalAll<B>,
{
    let seed = run.seed;
    run.family(
        &format!("big_normalize_scratch/{}", B::NAME),
        "vec_znx_big_normalize / _add_assign / _sub_assign / _negate for every (radix pair, sizes, offset) of C08's boundary grid and the small exhaustive digit tuples: scratch window of exactly vec_znx_big_normalize_tmp_bytes between canaries, pre-filled with zeros, the NaN pattern and large values; no panic, no write outside the window, result bytes identical for all fills",
        big_scratch_cases::<B>(run.tier),
        |c, rec| exec_scratch::<B>(c, seed, rec),
    );
}

pub fn cases<B: Bk>(tier: Tier) -> Vec<Case> {
    let mut out = vec![];
    let ops = [
        NOp::Normalize,
        NOp::NormalizeAssign,
        NOp::Lsh,
        NOp::LshAssign,
        NOp::LshAddInto,
        NOp::LshSub,
        NOp::Rsh,
        NOp::RshAssign,
        NOp::RshAddInto,
        NOp::RshSub,
        NOp::BigNormalize,
        NOp::BigNormalizeAddAssign,
        NOp::BigNormalizeSubAssign,
        NOp::BigNormalizeNegate,
    ];
    // --- small scope, exhaustive over digit tuples
    let bmax = tier.pick(3, 4);
    let smax = tier.pick(3, 3);
    for &op in &ops {
        for b_in in 1..=bmax {
            for b_out in 1..=bmax {
                if !op.cross_radix() && b_in != b_out {
                    continue;
                }
                for a_size in 1..=smax {
                    // keep the full tuple space bounded: (2^(b+2)+1)^size
                    if b_in == 4 && a_size == 3 && !matches!(op, NOp::Normalize | NOp::BigNormalize) {
                        continue;
                    }
                    if !tier.is_thorough() && b_in == 3 && a_size == 3 && !matches!(op, NOp::Normalize | NOp::BigNormalize | NOp::Rsh | NOp::Lsh) {
                        continue;
                    }
                    for r_size in 1..=smax {
                        if op.is_assign() && r_size != a_size {
                            continue;
                        }
                        for offset in op.offsets(a_size * b_in, b_in.max(b_out), r_size) {
                            out.push(Case {
                                op,
                                backend: B::NAME.into(),
                                b_in,
                                b_out,
                                a_size,
                                r_size,
                                offset,
                                alphabet: "all".into(),
                                n: 64,
                            });
                        }
                    }
                }
            }
        }
    }
    // --- SIMD tails: odd packing widths on a sub-family (not for big accumulators: their buffer is module-sized)
    for &op in &ops {
        if op.is_big() {
            continue;
        }
        for n in [1usize, 2, 3, 5, 7, 9] {
            for b in [2usize, 3] {
                for a_size in 1..=3 {
                    for r_size in 1..=3 {
                        if op.is_assign() && r_size != a_size {
                            continue;
                        }
                        for offset in op.offsets(a_size * b, b, r_size) {
                            out.push(Case {
                                op,
                                backend: B::NAME.into(),
                                b_in: b,
                                b_out: b,
                                a_size,
                                r_size,
                                offset,
                                alphabet: "tail".into(),
                                n,
                            });
                        }
                    }
                }
            }
        }
    }
    // --- boundary classes over large radices
    let radices: Vec<usize> = tier.pick(vec![2, 7, 12, 17, 31, 32, 50, 52, 61, 62], (1..=62).collect());
    for &op in &ops {
        for &b_in in &radices {
            for &b_out in &radices {
                if !op.cross_radix() && b_in != b_out {
                    continue;
                }
                if op.cross_radix() && !tier.is_thorough() && b_in != b_out && (b_in + b_out) % 3 == 0 {
                    continue;
                }
                for a_size in tier.pick(vec![1usize, 2, 3], vec![1usize, 2, 3, 4]) {
                    for r_size in tier.pick(vec![1usize, 2, 4], vec![1usize, 2, 3, 4, 6]) {
                        if op.is_assign() && r_size != a_size {
                            continue;
                        }
                        let a_bits = (a_size * b_in) as i64;
                        let b = b_in as i64;
                        let mut offs: Vec<i64> = vec![0, 1, -1, b - 1, -(b - 1), b, -b, b + 1, -(b + 1), a_bits - 1, -(a_bits - 1), a_bits, -a_bits, a_bits + b, -(a_bits + b)];
                        offs.sort();
                        offs.dedup();
                        let allowed = op.offsets(a_size * b_in, b_in.max(b_out), r_size);
                        let (lo, hi) = (*allowed.iter().min().unwrap(), *allowed.iter().max().unwrap());
                        for offset in offs {
                            if offset < lo || offset > hi {
                                continue;
                            }
                            out.push(Case {
                                op,
                                backend: B::NAME.into(),
                                b_in,
                                b_out,
                                a_size,
                                r_size,
                                offset,
                                alphabet: "boundary".into(),
                                n: 64,
                            });
                        }
                    }
                }
            }
        }
    }
    // --- wide i128 accumulators (NTT120 family): the high 64-bit word of a carry only matters for |a_j| well above
    // 2^64 and comes back into a digit after several limbs; every signed offset, result sizes up to the reach of the carry
    if B::FAMILY == crate::be::Family::Ntt120 {
        for &op in ops.iter().filter(|o| o.is_big()) {
            for &b in tier.pick(&[40usize, 52][..], &[12usize, 17, 31, 33, 40, 52, 61][..]) {
                let reach = 128usize.div_ceil(b).min(6);
                for a_size in 1..=3usize {
                    for r_size in [1usize, 2, 3, 4, reach] {
                        for offset in op.offsets(a_size * b, b, r_size) {
                            out.push(Case {
                                op,
                                backend: B::NAME.into(),
                                b_in: b,
                                b_out: b,
                                a_size,
                                r_size,
                                offset,
                                alphabet: "boundary".into(),
                                n: 64,
                            });
                        }
                    }
                }
            }
        }
        out.sort_by_key(|c| format!("{:?}", c));
        out.dedup_by_key(|c| format!("{:?}", c));
    }
    out
}

/// the same case on two backends: result bytes must be identical (C10)
pub fn exec_cmp<B1: Bk, B2: Bk>(c: &Case, seed: u64, rec: &mut Rec)
where
    Module<B1>: HalAll<B1>,
    Module<B2>: HalAll<B2>,
{
    fn run_on<B: Bk>(c: &Case, seed: u64) -> Result<Vec<Vec<u8>>, String>
    where
        Module<B>: HalAll<B>,
    {
        let n = c.n;
        let m = B::module(n);
        let mref: &Module<B> = &m;
        // the tuples must not depend on which backend of the family the case was generated for
        let cc = Case { backend: if c.backend.starts_with("ntt120") { "ntt120".into() } else { "fft64".into() }, ..c.clone() };
        let ts = tuples(&cc, seed);
        let nblocks = ts.len().div_ceil(n);
        let mut rng = Rng::new(seed, fnv(format!("{:?}", cc).as_bytes()));
        let k = c.offset.unsigned_abs() as usize;
        let acc = c.op.accumulates();
        let mut outs = vec![];
        for blk in 0..nblocks {
            let lo = blk * n;
            let hi = (lo + n).min(ts.len());
            let mut a = VecZnx::alloc(n, 1, c.a_size);
            let mut abig: Option<BigBuf<B>> = None;
            if c.op.is_big() {
                let mut bb = big_alloc::<B>(mref, 1, c.a_size);
                for j in 0..c.a_size {
                    let xs: Vec<i128> = (0..n).map(|i| if lo + i < hi { ts[lo + i][j] } else { 0 }).collect();
                    bb.set(0, j, &xs);
                }
                abig = Some(bb);
            } else {
                for j in 0..c.a_size {
                    let s = a.at_mut(0, j);
                    for i in 0..n {
                        s[i] = if lo + i < hi { ts[lo + i][j] as i64 } else { 0 };
                    }
                }
            }
            let mut r = VecZnx::alloc(n, 1, c.r_size);
            if c.op.is_assign() {
                r = vclone(&a);
            } else if acc != 0 {
                for j in 0..c.r_size {
                    for x in r.at_mut(0, j).iter_mut() {
                        *x = rng.digit(c.b_out + 1);
                    }
                }
            } else {
                garbage(r.data.as_mut_slice(), blk & 1);
            }
            guarded(|| {
                let mut s = B::scratch(mref.vec_znx_big_normalize_tmp_bytes().max(mref.vec_znx_normalize_tmp_bytes()).max(mref.vec_znx_lsh_tmp_bytes()).max(mref.vec_znx_rsh_tmp_bytes()) + 64);
                let sc = B::borrow(&mut s);
                match c.op {
                    NOp::Normalize => mref.vec_znx_normalize(&mut r, c.b_out, c.offset, 0, &a, c.b_in, 0, sc),
                    NOp::NormalizeAssign => mref.vec_znx_normalize_assign(c.b_in, &mut r, 0, sc),
                    NOp::Lsh => mref.vec_znx_lsh(c.b_in, k, &mut r, 0, &a, 0, sc),
                    NOp::LshAssign => mref.vec_znx_lsh_assign(c.b_in, k, &mut r, 0, sc),
                    NOp::LshAddInto => mref.vec_znx_lsh_add_into(c.b_in, k, &mut r, 0, &a, 0, sc),
                    NOp::LshSub => mref.vec_znx_lsh_sub(c.b_in, k, &mut r, 0, &a, 0, sc),
                    NOp::Rsh => mref.vec_znx_rsh(c.b_in, k, &mut r, 0, &a, 0, sc),
                    NOp::RshAssign => mref.vec_znx_rsh_assign(c.b_in, k, &mut r, 0, sc),
                    NOp::RshAddInto => mref.vec_znx_rsh_add_into(c.b_in, k, &mut r, 0, &a, 0, sc),
                    NOp::RshSub => mref.vec_znx_rsh_sub(c.b_in, k, &mut r, 0, &a, 0, sc),
                    NOp::BigNormalize => mref.vec_znx_big_normalize(&mut r, c.b_out, c.offset, 0, &abig.as_ref().unwrap().v, c.b_in, 0, sc),
                    NOp::BigNormalizeAddAssign => mref.vec_znx_big_normalize_add_assign(&mut r, c.b_out, c.offset, 0, &abig.as_ref().unwrap().v, c.b_in, 0, sc),
                    NOp::BigNormalizeSubAssign => mref.vec_znx_big_normalize_sub_assign(&mut r, c.b_out, c.offset, 0, &abig.as_ref().unwrap().v, c.b_in, 0, sc),
                    NOp::BigNormalizeNegate => mref.vec_znx_big_normalize_negate(&mut r, c.b_out, c.offset, 0, &abig.as_ref().unwrap().v, c.b_in, 0, sc),
                }
            })?;
            outs.push(r.data.to_vec());
        }
        Ok(outs)
    }
    let x = run_on::<B1>(c, seed);
    let y = run_on::<B2>(c, seed);
    rec.evals(2);
    rec.distinct(fnv(format!("{:?}", c).as_bytes()));
    rec.sample(|| serde_json::to_value(c).unwrap());
    let pair = format!("{}|{}", B1::NAME, B2::NAME);
    match (x, y) {
        (Ok(a), Ok(b)) => {
            if let Some(blk) = a.iter().zip(b.iter()).position(|(p, q)| p != q) {
                rec.fail(json!({"op": format!("{:?}", c.op), "backend": pair, "kind": "backend_mismatch", "case": c, "inner": {"block": blk},
                    "why": "result bytes differ between the two backends"}));
            }
            rec.outcome(fnv(&a.concat()));
        }
        (Err(_), Err(_)) => rec.add("both_panicked", 1),
        (p, q) => rec.fail(json!({"op": format!("{:?}", c.op), "backend": pair, "kind": "panic_mismatch", "case": c, "panic": [p.err(), q.err()]})),
    }
}

pub fn fam<B: Bk>(run: &mut Run)
where
    Module<B>: HalAll<B>,
{
    let seed = run.seed;
    let cs = cases::<B>(run.tier);
    run.family(
        &format!("normalize_shift/{}", B::NAME),
        "outer = (op, b_in, b_out, in size, out size, signed offset / shift, alphabet, packing width); inner = every digit tuple with digits in [-2^(b+1), 2^(b+1)] (alphabet all, b<=3 quick / 4 thorough), every 37th tuple at odd widths (tail), named boundary classes for radices up to 62; evaluations = digit tuples checked; oracle = exact rational value mod 1",
        cs,
        |c, rec| exec::<B>(c, None, seed, rec),
    );
}

// ---------------------------------------------------------------------------------------------
// integer encoding
// ---------------------------------------------------------------------------------------------

#[derive(Clone, Debug, Serialize, Deserialize)]
pub struct EncCase {
    pub b: usize,
    pub size: usize,
    pub k: usize,
}

fn enc_values(k: usize, rng: &mut Rng) -> Vec<i128> {
    let mut v: Vec<i128> = vec![0, 1, -1];
    let p = |e: usize| -> i128 { 1i128 << e.min(124) }; // inputs are i128: classes are capped at 2^124
    if k >= 2 {
        v.extend([p(k - 2) - 1, -(p(k - 2) - 1), p(k - 2), -p(k - 2)]);
    }
    if k >= 1 {
        v.extend([p(k - 1) - 1, -(p(k - 1) - 1), -p(k - 1), p(k - 1)]);
    }
    if k <= 12 {
        let h = p(k - 1);
        v.extend(-h..h);
    } else {
        for _ in 0..8 {
            let x = ((rng.next() as u128) << 64 | rng.next() as u128) as i128;
            v.push(torus::centered_mod_pow2_i128(x >> 8, k.min(118)));
        }
    }
    v.sort();
    v.dedup();
    v
}

/// centered residue modulo 2^k; identity once 2^k exceeds the i128 inputs used here (|v| <= 2^124)
fn cm(x: i128, k: usize) -> i128 {
    if k >= 126 { x } else { torus::centered_mod_pow2_i128(x, k) }
}

pub fn exec_enc(c: &EncCase, seed: u64, rec: &mut Rec) {
    let (b, size, k) = (c.b, c.size, c.k);
    let n = 8usize;
    let cols = 2usize;
    let mut rng = Rng::new(seed, (b * 10000 + size * 1000 + k) as u64);
    let vals = enc_values(k, &mut rng);
    rec.distinct(fnv(format!("{:?}", c).as_bytes()));
    rec.sample(|| serde_json::to_value(c).unwrap());
    let fail = |rec: &mut Rec, what: &str, extra: Value| {
        rec.fail(json!({"op": what, "backend": "hal-layouts", "kind": "wrong_value", "case": c, "detail": extra}));
    };
    // the encoders take i64 / i128 inputs; |v| must fit the input type (and stay below 2^62 so that the
    // decoder's own i64 accumulation cannot overflow)
    let vals64: Vec<i128> = vals.iter().copied().filter(|v| v.abs() < (1i128 << 62)).collect();
    for chunk in vals64.chunks(n) {
        let mut vs: Vec<i128> = chunk.to_vec();
        while vs.len() < n {
            vs.push(0);
        }
        for col in 0..cols {
            // ---- i64 vector form
            {

                let mut a = VecZnx::alloc(n, cols, size);
                garbage(a.data.as_mut_slice(), 1);
                let before = vclone(&a);
                let data: Vec<i64> = vs.iter().map(|v| *v as i64).collect();
                let r = guarded(|| a.encode_vec_i64(b, col, k, &data));
                rec.evals(1);
                if let Err(msg) = r {
                    rec.fail(json!({"op": "encode_vec_i64", "backend": "hal-layouts", "kind": "panic", "case": c, "panic": msg}));
                    return;
                }
                // other column untouched
                for oc in 0..cols {
                    if oc != col {
                        for j in 0..size {
                            if a.at(oc, j) != before.at(oc, j) {
                                fail(rec, "encode_vec_i64", json!({"what": "other column modified", "col": col}));
                                return;
                            }
                        }
                    }
                }
                let mut back = vec![0i64; n];
                let r = guarded(|| a.decode_vec_i64(b, col, k, &mut back));
                if let Err(msg) = r {
                    rec.fail(json!({"op": "decode_vec_i64", "backend": "hal-layouts", "kind": "panic", "case": c, "panic": msg}));
                    return;
                }
                for i in 0..n {
                    let want_mod = cm(vs[i], k);
                    let got_mod = cm(back[i] as i128, k);
                    let small = k >= 2 && (k - 2 >= 126 || vs[i].abs() < (1i128 << (k - 2)));
                    if got_mod != want_mod || (small && back[i] as i128 != vs[i]) {
                        fail(rec, "encode_vec_i64", json!({"value": vs[i].to_string(), "decoded": back[i], "col": col, "index": i}));
                        return;
                    }
                    // exact rational value of the limbs == v / 2^k (mod 1) when the balanced expansion fits
                    let digits: Vec<i128> = (0..size).map(|j| a.at(col, j)[i] as i128).collect();
                    let val = torus::value_scaled_i128(&digits, b); // scaled by 2^(size*b)
                    let (d, _) = torus::torus_diff(&val, size * b, &IBig::from(vs[i]), k);
                    if d != IBig::from(0) {
                        fail(rec, "encode_vec_i64", json!({"what": "limb value != v/2^k mod 1", "value": vs[i].to_string(), "digits": format!("{digits:?}")}));
                        return;
                    }
                }
                // ---- single-coefficient form at every index
                for idx in 0..n {
                    let mut s = vclone(&before);
                    let v = vs[idx] as i64;
                    let r = guarded(|| s.encode_coeff_i64(b, col, k, idx, v));
                    rec.evals(1);
                    if let Err(msg) = r {
                        rec.fail(json!({"op": "encode_coeff_i64", "backend": "hal-layouts", "kind": "panic", "case": c, "panic": msg}));
                        return;
                    }
                    let got = s.decode_coeff_i64(b, col, k, idx);
                    let want_mod = cm(v as i128, k);
                    if cm(got as i128, k) != want_mod {
                        fail(rec, "encode_coeff_i64", json!({"value": v, "decoded": got, "index": idx}));
                        return;
                    }
                    // other coefficients and columns byte-identical
                    for oc in 0..cols {
                        for j in 0..size {
                            for i in 0..n {
                                if (oc != col || i != idx) && s.at(oc, j)[i] != before.at(oc, j)[i] {
                                    fail(rec, "encode_coeff_i64", json!({"what": "other coefficient modified", "col": oc, "limb": j, "index": i, "target": idx}));
                                    return;
                                }
                            }
                        }
                    }
                }
            }
        }
    }
    for chunk in vals.chunks(n) {
        let mut vs: Vec<i128> = chunk.to_vec();
        while vs.len() < n {
            vs.push(0);
        }
        for col in 0..cols {
            // ---- i128 vector form
            {
                let mut a = VecZnx::alloc(n, cols, size);
                garbage(a.data.as_mut_slice(), 1);
                let r = guarded(|| a.encode_vec_i128(b, col, k, &vs));
                rec.evals(1);
                if let Err(msg) = r {
                    rec.fail(json!({"op": "encode_vec_i128", "backend": "hal-layouts", "kind": "panic", "case": c, "panic": msg}));
                    return;
                }
                let mut back = vec![0i128; n];
                let r = guarded(|| a.decode_vec_i128(b, col, k, &mut back));
                if let Err(msg) = r {
                    rec.fail(json!({"op": "decode_vec_i128", "backend": "hal-layouts", "kind": "panic", "case": c, "panic": msg}));
                    return;
                }
                for i in 0..n {
                    let want_mod = cm(vs[i], k);
                    let got_mod = cm(back[i], k);
                    let small = k >= 2 && (k - 2 >= 126 || vs[i].abs() < (1i128 << (k - 2)));
                    if got_mod != want_mod || (small && back[i] != vs[i]) {
                        fail(rec, "encode_vec_i128", json!({"value": vs[i].to_string(), "decoded": back[i].to_string(), "col": col, "index": i}));
                        return;
                    }
                }
            }
        }
    }
}

fn fam_enc(run: &mut Run) {
    let seed = run.seed;
    let mut cs = vec![];
    let bs: Vec<usize> = run.tier.pick(vec![2, 3, 5, 8, 12, 17, 31, 32, 33, 50, 62], (2..=62).collect());
    for &b in &bs {
        for size in 1..=run.tier.pick(3usize, 4usize) {
            for k in 1..=(size * b) {
                // quick: every k for small radices, boundary k's otherwise
                if !run.tier.is_thorough() && b > 12 && !(k <= 2 || k % b <= 1 || k % b == b - 1 || k == size * b) {
                    continue;
                }
                cs.push(EncCase { b, size, k });
            }
        }
    }
    run.family(
        "encoding",
        "outer = (radix b in 2..62, size, precision k in 1..size*b); inner = boundary values +-2^(k-2), +-2^(k-1), all values for k<=12, both columns, every coefficient index for the single-coefficient form; oracle: decode(encode(v)) == v mod 2^k (exact for |v| < 2^(k-2)), limb value == v/2^k mod 1, other columns/coefficients untouched",
        cs,
        |c, rec| exec_enc(c, seed, rec),
    );
}

pub fn run(run: &mut Run) {
    run.assume("un-normalised input digits are bounded by 2^(b+1) in the exhaustive alphabet and by 2^62 (i64) / 2^118 (i128) in the boundary classes, so that no digit+carry sum of the kernels can overflow");
    run.assume("accumulating forms (lsh_add_into, lsh_sub, rsh_add_into, rsh_sub, big_normalize_add/sub_assign) are judged on the value of the result (prior result +/- shifted input), not on digit ranges");
    for_backends!(fam(run));
    fam_enc(run);
}

pub fn replay(run: &mut Run, d: &Value) {
    let backend = d["backend"].as_str().unwrap_or("").to_string();
    let fam = d["family"].as_str().unwrap_or("").to_string();
    let seed = d["seed"].as_u64().unwrap_or(0);
    let blk = d.get("inner").and_then(|i| i.get("block")).and_then(|p| p.as_u64()).map(|x| x as usize);
    if fam == "encoding" {
        let c: EncCase = serde_json::from_value(d["case"].clone()).unwrap();
        run.single(&fam, "replay", |rec| exec_enc(&c, seed, rec));
        return;
    }
    let c: Case = serde_json::from_value(d["case"].clone()).unwrap();
    match backend.as_str() {
        "fft64-ref" => run.single(&fam, "replay", |rec| exec::<crate::be::FFT64Ref>(&c, blk, seed, rec)),
        "ntt120-ref" => run.single(&fam, "replay", |rec| exec::<crate::be::NTT120Ref>(&c, blk, seed, rec)),
        "fft64-avx" => run.single(&fam, "replay", |rec| exec::<crate::be::FFT64Avx>(&c, blk, seed, rec)),
        "ntt120-avx" => run.single(&fam, "replay", |rec| exec::<crate::be::NTT120Avx>(&c, blk, seed, rec)),
        o => panic!("unknown backend {o}"),
    }
}

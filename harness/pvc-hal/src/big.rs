//! Byte-level access to backend-typed buffers (VecZnxBig: i64 on FFT64, i128 on NTT120).

use crate::be::Bk;
use poulpy_hal::alloc_aligned;
use poulpy_hal::layouts::{Module, VecZnx, VecZnxBig, ZnxInfos};

/// 64-byte aligned copy of a byte buffer (Vec::clone would lose the alignment the library requires).
pub fn aligned_copy(src: &[u8]) -> Vec<u8> {
    let mut v: Vec<u8> = alloc_aligned::<u8>(src.len());
    v[..src.len()].copy_from_slice(src);
    v
}

pub fn vclone(v: &VecZnx<Vec<u8>>) -> VecZnx<Vec<u8>> {
    VecZnx {
        data: aligned_copy(&v.data),
        n: v.n,
        cols: v.cols,
        size: v.size,
        max_size: v.max_size,
    }
}

pub struct BigBuf<B: Bk> {
    pub v: VecZnxBig<Vec<u8>, B>,
}

pub fn big_alloc<B: Bk>(m: &Module<B>, cols: usize, size: usize) -> BigBuf<B> {
    let n = m.n();
    let bytes = B::bytes_of_vec_znx_big(n, cols, size);
    BigBuf {
        v: VecZnxBig::from_data(alloc_aligned::<u8>(bytes), n, cols, size),
    }
}

impl<B: Bk> BigBuf<B> {
    pub fn n(&self) -> usize {
        self.v.n()
    }
    pub fn cols(&self) -> usize {
        self.v.cols()
    }
    pub fn size(&self) -> usize {
        self.v.size()
    }
    fn w() -> usize {
        B::size_of_scalar_big()
    }
    fn off(&self, col: usize, limb: usize) -> usize {
        self.v.n * (limb * self.v.cols + col) * Self::w()
    }
    pub fn get(&self, col: usize, limb: usize) -> Vec<i128> {
        let o = self.off(col, limb);
        let w = Self::w();
        (0..self.v.n)
            .map(|i| {
                let b = &self.v.data[o + i * w..o + (i + 1) * w];
                if w == 16 { i128::from_le_bytes(b.try_into().unwrap()) } else { i64::from_le_bytes(b.try_into().unwrap()) as i128 }
            })
            .collect()
    }
    pub fn set(&mut self, col: usize, limb: usize, xs: &[i128]) {
        let o = self.off(col, limb);
        let w = Self::w();
        for (i, x) in xs.iter().enumerate() {
            let dst = &mut self.v.data[o + i * w..o + (i + 1) * w];
            if w == 16 { dst.copy_from_slice(&x.to_le_bytes()) } else { dst.copy_from_slice(&(*x as i64).to_le_bytes()) }
        }
    }
    pub fn clone_buf(&self) -> BigBuf<B> {
        BigBuf {
            v: VecZnxBig {
                data: aligned_copy(&self.v.data),
                n: self.v.n,
                cols: self.v.cols,
                size: self.v.size,
                max_size: self.v.max_size,
                _phantom: std::marker::PhantomData,
            },
        }
    }
    pub fn garbage(&mut self, which: usize) {
        pvc_engine::rng::garbage(&mut self.v.data, which);
    }
}

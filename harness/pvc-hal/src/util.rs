//! Helpers shared by the HAL-level checks: operand construction, garbage fills, column extraction.

use poulpy_hal::layouts::{ScalarZnx, VecZnx, ZnxInfos, ZnxView, ZnxViewMut};
use pvc_engine::rng::{Rng, garbage};

/// limbs of one column: `[limb][coeff]`
pub type Limbs = Vec<Vec<i64>>;

pub fn col_limbs(v: &VecZnx<Vec<u8>>, col: usize) -> Limbs {
    (0..v.size()).map(|j| v.at(col, j).to_vec()).collect()
}

pub fn zeros(n: usize) -> Vec<i64> {
    vec![0i64; n]
}

/// Value classes for coefficient-domain operands.
#[derive(Clone, Copy, Debug, PartialEq, Eq, serde::Serialize, serde::Deserialize)]
pub enum Val {
    /// distinct tag per (operand, column, limb, index) with alternating sign: any index or sign slip is visible
    Tag,
    /// largest magnitudes for which no limb-wise sum/difference/negation overflows i64 (|x| <= 2^62-1): the
    /// reference kernels use plain `+`/`-`, so i64 overflow is outside the admissible domain
    Extreme,
    /// seeded random in the same range
    Random,
}

pub fn fill_vec(v: &mut VecZnx<Vec<u8>>, operand: u64, val: Val, rng: &mut Rng) {
    let (n, cols, size) = (v.n(), v.cols(), v.size());
    for c in 0..cols {
        for j in 0..size {
            let s = v.at_mut(c, j);
            for (i, x) in s.iter_mut().enumerate() {
                *x = match val {
                    Val::Tag => {
                        let t = ((operand * 8 + c as u64) << 44 | (j as u64) << 36 | (i as u64 + 1)) as i64;
                        if (i + j + c) % 3 == 1 { -t } else { t }
                    }
                    Val::Extreme => {
                        const M: i64 = (1 << 62) - 1;
                        const E: [i64; 8] = [-M, M, -1, 1, -M + 1, M - 1, 0, 1 << 61];
                        E[(i + 3 * j + 5 * c + operand as usize) % 8]
                    }
                    Val::Random => (rng.next() as i64) >> 2,
                };
            }
        }
    }
    let _ = n;
}

pub fn fill_scalar(v: &mut ScalarZnx<Vec<u8>>, operand: u64, val: Val, rng: &mut Rng) {
    let cols = v.cols();
    for c in 0..cols {
        let s = v.at_mut(c, 0);
        for (i, x) in s.iter_mut().enumerate() {
            *x = match val {
                Val::Tag => {
                    let t = ((operand * 8 + c as u64) << 44 | (i as u64 + 1)) as i64;
                    if (i + c) % 2 == 1 { -t } else { t }
                }
                Val::Extreme => {
                    const M: i64 = (1 << 62) - 1;
                    const E: [i64; 6] = [-M, M, -1, 1, 0, -M + 1];
                    E[(i + 5 * c + operand as usize) % 6]
                }
                Val::Random => (rng.next() as i64) >> 2,
            };
        }
    }
}

/// VecZnx whose whole buffer is garbage-filled (pattern `which`).
pub fn garbage_vec(n: usize, cols: usize, size: usize, which: usize) -> VecZnx<Vec<u8>> {
    let mut v = VecZnx::alloc(n, cols, size);
    garbage(v.data.as_mut_slice(), which);
    v
}

pub fn fmt_limbs(l: &Limbs) -> String {
    let mut s = String::new();
    for (j, x) in l.iter().enumerate() {
        s.push_str(&format!("limb{j}:{:?} ", &x[..x.len().min(8)]));
    }
    s
}

/// first difference between two limb sets (limb, index, got, want)
pub fn first_diff(got: &Limbs, want: &Limbs) -> Option<(usize, usize, i64, i64)> {
    for (j, (g, w)) in got.iter().zip(want.iter()).enumerate() {
        for (i, (x, y)) in g.iter().zip(w.iter()).enumerate() {
            if x != y {
                return Some((j, i, *x, *y));
            }
        }
    }
    if got.len() != want.len() {
        return Some((got.len().min(want.len()), 0, 0, 0));
    }
    None
}

//! C10 (HAL part) - all backends give bit-identical coefficient-domain results for identical inputs and seeds.

use crate::be::{Bk, FFT64Avx, FFT64Ref, HalAll, NTT120Avx, NTT120Ref, host_has_avx};
use crate::c09::{self, Op};
use crate::c11::{self, VCase};
use crate::ops::{self, OpCase, Opts, ScratchMode};
use poulpy_hal::api::*;
use poulpy_hal::layouts::{Module, NoiseInfos, VecZnx, ZnxView};
use poulpy_hal::source::Source;
use pvc_engine::{Rec, Run, Tier, fnv};
use serde::{Deserialize, Serialize};
use serde_json::{Value, json};

fn opts(seed: u64) -> Opts {
    Opts {
        garbage: 0,
        scratch: ScratchMode::Owned,
        seed,
    }
}

fn cmp_v<B1: Bk, B2: Bk>(c: &VCase, seed: u64, rec: &mut Rec)
where
    Module<B1>: HalAll<B1>,
    Module<B2>: HalAll<B2>,
{
    let o = opts(seed);
    let x = c11::run_v::<B1>(c, &o);
    let y = c11::run_v::<B2>(c, &o);
    rec.evals(2);
    let pair = format!("{}|{}", B1::NAME, B2::NAME);
    if c.val == 2 && (x.panic.is_some() || y.panic.is_some()) {
        // Full-range inputs: a kernel written with checked `+`/`-`/`<<` panics in this (overflow-checked) build where its
        // SIMD twin wraps silently. Such an input is outside the magnitude domain of that kernel, not a disagreement.
        let of = |p: &Option<String>| p.as_deref().map(|m| m.contains("overflow")).unwrap_or(true);
        if of(&x.panic) && of(&y.panic) {
            rec.add("outside_magnitude_domain_checked_arithmetic", 1);
            return;
        }
    }
    if x.panic.is_some() != y.panic.is_some() {
        rec.fail(json!({"op": c.op, "backend": pair, "kind": "panic_mismatch", "case": c, "panic": [x.panic, y.panic]}));
        return;
    }
    if x.panic.is_some() {
        // both backends reject the call: not a disagreement (preconditions are the business of C09/C08)
        rec.add("both_panicked", 1);
        return;
    }
    if x.raw != y.raw {
        let pos = x.raw.iter().zip(y.raw.iter()).position(|(p, q)| p != q).unwrap_or(0);
        rec.fail(json!({"op": c.op, "backend": pair, "kind": "backend_mismatch", "case": c,
            "why": format!("outputs differ at limb {}, coefficient {}", pos / (c.n * 8), (pos % (c.n * 8)) / 8)}));
    }
    rec.outcome(fnv(&x.raw));
    rec.distinct(fnv(format!("{:?}{}", c, pair).as_bytes()));
    rec.sample(|| serde_json::to_value(c).unwrap());
}

fn cmp_d<B1: Bk, B2: Bk>(c: &OpCase, seed: u64, rec: &mut Rec)
where
    Module<B1>: HalAll<B1>,
    Module<B2>: HalAll<B2>,
{
    if !crate::c07::admissible::<B1>(c) || !crate::c07::admissible::<B2>(c) {
        rec.add("outside_common_magnitude_domain", 1);
        return;
    }
    let o = opts(seed);
    let x = ops::run_op::<B1>(c, &o);
    let y = ops::run_op::<B2>(c, &o);
    rec.evals(2);
    let pair = format!("{}|{}", B1::NAME, B2::NAME);
    if x.panic.is_some() || y.panic.is_some() {
        if x.panic.is_some() != y.panic.is_some() {
            rec.fail(json!({"op": c.op, "backend": pair, "kind": "panic_mismatch", "case": c, "panic": [x.panic, y.panic]}));
        }
        return;
    }
    if x.canon != y.canon {
        rec.fail(json!({"op": c.op, "backend": pair, "kind": "backend_mismatch", "case": c,
            "why": "coefficient-domain value of the selected output differs between the two backends"}));
    }
    // The property speaks about coefficient-domain output: transform-domain bytes may legitimately differ in the last
    // bit between the reference and the FMA kernels (they do for svp / vmp); this is counted, not judged.
    if B1::FAMILY == B2::FAMILY && x.raw != y.raw {
        rec.add("native_domain_bytes_differ", 1);
    }
    rec.outcome(fnv(&x.raw));
    rec.distinct(fnv(format!("{:?}{}", c, pair).as_bytes()));
    rec.sample(|| serde_json::to_value(c).unwrap());
}

fn v_cases(tier: Tier) -> Vec<VCase> {
    // SIMD main loop 0,1,2 times with every tail length; LWE-like non-power-of-two lengths for the
    // limb-wise kernels, powers of two for the ring kernels
    let ns_any: Vec<usize> = vec![1, 2, 3, 4, 5, 6, 7, 8, 9, 12, 15, 16, 17];
    let ns_pow2: Vec<usize> = vec![1, 2, 4, 8, 16];
    let mut out = vec![];
    let smax = tier.pick(2usize, 3usize);
    for &op in c09::ALL_OPS.iter() {
        let ns = if op.needs_pow2() { &ns_pow2 } else { &ns_any };
        for &n in ns {
            for rs in 1..=smax {
                for a_s in 1..=(if op.uses_a() { smax } else { 1 }) {
                    for bs in 1..=(if op.uses_b() { smax } else { 1 }) {
                        let ps: Vec<i64> = match op {
                            Op::Rotate | Op::RotateAssign | Op::MulXpMinusOne | Op::MulXpMinusOneAssign => (-2 * n as i64..=2 * n as i64).collect(),
                            Op::Automorphism | Op::AutomorphismAssign => (1..2 * n as i64).step_by(2).collect(),
                            Op::AddScalarInto | Op::SubScalar => (0..rs.min(bs) as i64).collect(),
                            Op::AddScalarAssign | Op::SubScalarAssign => (0..rs as i64).collect(),
                            _ => vec![0],
                        };
                        for p in ps {
                            for val in [0u8, 1] {
                                out.push(VCase {
                                    op: format!("{op:?}"),
                                    n,
                                    b: 12,
                                    cols: 2,
                                    rs,
                                    a_s,
                                    bs,
                                    rc: 1,
                                    ac: 0,
                                    bc: 1,
                                    p,
                                    b_out: 12,
                                    val,
                                rot: 0,
                                stride: 0,
                                });
                            }
                        }
                    }
                }
            }
        }
    }
    // normalisation kernels: every radix, every intra-limb shift, boundary values
    let radices: Vec<usize> = tier.pick(vec![1, 2, 3, 7, 12, 17, 31, 32, 33, 50, 52, 61, 62], (1..=62).collect());
    for op in c11::NORM_OPS {
        for &b in &radices {
            for &n in &[1usize, 3, 4, 7, 8, 9] {
                for rs in 1..=2usize {
                    for a_s in 1..=2usize {
                        if matches!(op, "normalize_assign" | "lsh_assign" | "rsh_assign") && a_s != 1 {
                            continue;
                        }
                        let bi = b as i64;
                        let ps: Vec<i64> = match op {
                            "normalize" => {
                                if tier.is_thorough() {
                                    (0..bi).chain([bi, bi + 1]).collect()
                                } else {
                                    vec![0, 1, bi / 2, bi - 1, bi, bi + 1]
                                }
                            }
                            "normalize_assign" => vec![0],
                            _ => {
                                if tier.is_thorough() { (0..=bi + 1).collect() } else { vec![0, 1, bi / 2, (bi - 1).max(0), bi, bi + 1] }
                            }
                        };
                        for p in ps {
                            for val in [0u8, 1] {
                                out.push(VCase {
                                    op: op.into(),
                                    n,
                                    b,
                                    cols: 1,
                                    rs,
                                    a_s,
                                    bs: 1,
                                    rc: 0,
                                    ac: 0,
                                    bc: 0,
                                    p,
                                    b_out: b,
                                    val,
                                rot: 0,
                                stride: 0,
                                });
                            }
                        }
                    }
                }
            }
        }
    }
    // cross-radix normalisation with many limbs (the extract-digit / multiply-by-power-of-two kernels are only
    // reached when the radices differ, and garbage in a low limb needs several result limbs to survive)
    let pairs: Vec<(usize, usize)> = tier.pick(
        vec![(12, 10), (10, 12), (17, 12), (12, 17), (3, 2), (5, 7), (31, 17), (50, 12)],
        vec![(12, 10), (10, 12), (17, 12), (12, 17), (3, 2), (2, 3), (5, 7), (7, 5), (31, 17), (17, 31), (50, 12), (12, 50), (52, 19), (4, 13)],
    );
    for (b, b_out) in pairs {
        for &n in &[8usize, 12, 16] {
            for rs in tier.pick(vec![1usize, 2, 4, 6, 7], (1..=8).collect()) {
                for a_s in tier.pick(vec![1usize, 3, 6, 7], (1..=8).collect()) {
                    let bi = b as i64;
                    for p in [0i64, 1, -1, bi - 1, -(bi - 1), bi, -bi, bi + 1] {
                        for val in [0u8, 1] {
                            out.push(VCase {
                                op: "normalize".into(),
                                n,
                                b,
                                cols: 1,
                                rs,
                                a_s,
                                bs: 1,
                                rc: 0,
                                ac: 0,
                                bc: 0,
                                p,
                                b_out,
                                val,
                                rot: 0,
                                stride: 0,
                            });
                        }
                    }
                }
            }
        }
    }
    out
}

/// Normalisation kernels over the full i64 range (value class 2 of `VCase`): the carry of a limb is the quotient of a
/// *wrapping* difference `x - digit`, and the next limb adds it with a wrapping sum; the reference and the SIMD kernels
/// must wrap at the same points. Every one of the 16 values is put in every lane (two SIMD blocks + a tail) and every
/// ordered pair of values into adjacent limbs, for limb counts long enough for a 2^(64-b) carry difference to reach a digit.
fn v_cases_full(tier: Tier) -> Vec<VCase> {
    let mut out = vec![];
    let radices: Vec<usize> = tier.pick(vec![1, 2, 7, 12, 17, 30, 31, 32, 33, 52, 61, 62], (1..=62).collect());
    for op in c11::NORM_OPS {
        let in_place = matches!(op, "normalize_assign" | "lsh_assign" | "rsh_assign");
        for &b in &radices {
            let reach = 64usize.div_ceil(b).min(7); // further limbs a wrapped carry needs to reach a digit
            let sizes: Vec<usize> = if tier.is_thorough() { vec![1, 2, 3, reach, reach + 1] } else { vec![1, 3, reach + 1] };
            for &a_s in &sizes {
                let rss: Vec<usize> = if in_place { vec![a_s] } else { vec![1, a_s, a_s + 1] };
                for rs in rss {
                    let bi = b as i64;
                    let ps: Vec<i64> = match op {
                        "normalize" => vec![0, -1, bi - 1],
                        "normalize_assign" => vec![0],
                        _ => vec![0, 1, bi - 1, bi],
                    };
                    for p in ps {
                        for rot in 0..16u8 {
                            for stride in tier.pick(vec![0u8, 1, 5, 11], (0..16u8).collect()) {
                                out.push(VCase {
                                    op: op.into(),
                                    n: 9,
                                    b,
                                    cols: 1,
                                    rs,
                                    a_s: if in_place { 1 } else { a_s },
                                    bs: 1,
                                    rc: 0,
                                    ac: 0,
                                    bc: 0,
                                    p,
                                    b_out: b,
                                    val: 2,
                                    rot,
                                    stride,
                                });
                            }
                        }
                    }
                }
            }
        }
    }
    out.sort_by_key(|c| format!("{:?}", c));
    out.dedup_by_key(|c| format!("{:?}", c));
    out
}

// ---------------------------------------------------------------------------------------------
// sampling: same outputs and same stream consumption
// ---------------------------------------------------------------------------------------------

#[derive(Clone, Debug, Serialize, Deserialize)]
pub struct SampCase {
    pub op: String,
    pub n: usize,
    pub b: usize,
    pub size: usize,
    pub k: usize,
    pub seed_byte: u8,
}

fn sample_run<B: Bk>(c: &SampCase) -> (Vec<u8>, u64)
where
    Module<B>: HalAll<B>,
{
    let m = B::module(c.n.next_power_of_two().max(1));
    let mut src = Source::new([c.seed_byte; 32]);
    let noise = NoiseInfos::new(c.k, 3.2, 19.2).unwrap();
    let mut v = VecZnx::alloc(c.n, 2, c.size);
    for (i, x) in v.data.iter_mut().enumerate() {
        *x = (i % 251) as u8; // prior content matters for add_normal
    }
    let out: Vec<u8> = match c.op.as_str() {
        "fill_uniform" => {
            m.vec_znx_fill_uniform(c.b, &mut v, 1, &mut src);
            v.data.clone()
        }
        "fill_normal" => {
            m.vec_znx_fill_normal(c.b, &mut v, 1, noise, &mut src);
            v.data.clone()
        }
        "add_normal" => {
            // prior digits must be small enough not to overflow when noise is added
            for x in v.data.iter_mut() {
                *x = 0;
            }
            m.vec_znx_add_normal(c.b, &mut v, 1, noise, &mut src);
            v.data.clone()
        }
        "big_add_normal" => {
            let mm = B::module(c.n);
            let mut big = crate::big::big_alloc::<B>(&mm, 2, c.size);
            mm.vec_znx_big_add_normal(c.b, &mut big.v, 1, noise, &mut src);
            // canonical: values as i128
            let mut o = vec![];
            for col in 0..2 {
                for j in 0..c.size {
                    for x in big.get(col, j) {
                        o.extend_from_slice(&x.to_le_bytes());
                    }
                }
            }
            o
        }
        o => panic!("unknown sampling op {o}"),
    };
    let _ = v.raw();
    (out, src.next_i64() as u64)
}

fn cmp_s<B1: Bk, B2: Bk>(c: &SampCase, rec: &mut Rec)
where
    Module<B1>: HalAll<B1>,
    Module<B2>: HalAll<B2>,
{
    let x = pvc_engine::guarded(|| sample_run::<B1>(c));
    let y = pvc_engine::guarded(|| sample_run::<B2>(c));
    rec.evals(2);
    let pair = format!("{}|{}", B1::NAME, B2::NAME);
    match (x, y) {
        (Ok(x), Ok(y)) => {
            if x.0 != y.0 {
                rec.fail(json!({"op": c.op, "backend": pair, "kind": "backend_mismatch", "case": c, "why": "sampled values differ"}));
            } else if x.1 != y.1 {
                rec.fail(json!({"op": c.op, "backend": pair, "kind": "stream_mismatch", "case": c, "why": "the next draw from the source differs: the stream was consumed differently"}));
            }
            rec.outcome(fnv(&x.0));
        }
        (Err(_), Err(_)) => rec.add("both_panicked", 1),
        (a, b) => rec.fail(json!({"op": c.op, "backend": pair, "kind": "panic_mismatch", "case": c, "panic": [a.err(), b.err()]})),
    }
    rec.distinct(fnv(format!("{:?}{}", c, pair).as_bytes()));
    rec.sample(|| serde_json::to_value(c).unwrap());
}

fn s_cases(tier: Tier) -> Vec<SampCase> {
    let mut out = vec![];
    for op in ["fill_uniform", "fill_normal", "add_normal", "big_add_normal"] {
        let ns: Vec<usize> = if op == "big_add_normal" { vec![8, 16, 32] } else { vec![1, 2, 3, 5, 7, 8, 9, 16, 17, 33] };
        for n in ns {
            for b in tier.pick(vec![1usize, 12, 17, 52], vec![1usize, 2, 3, 8, 12, 17, 31, 32, 50, 52, 62]) {
                for size in 1..=3usize {
                    for k in [1usize, b.max(2) - 1, b, b + 1, size * b] {
                        if k == 0 || k > size * b {
                            continue;
                        }
                        for seed_byte in 0..tier.pick(2u8, 8u8) {
                            out.push(SampCase {
                                op: op.into(),
                                n,
                                b,
                                size,
                                k,
                                seed_byte,
                            });
                        }
                    }
                }
            }
        }
    }
    out
}

// ---------------------------------------------------------------------------------------------
// ring switching / split / merge across backends
// ---------------------------------------------------------------------------------------------

#[derive(Clone, Debug, Serialize, Deserialize)]
pub struct RingCmp {
    pub op: String,
    pub n_in: usize,
    pub n_out: usize,
    pub size: usize,
}

fn ring_out<B: Bk>(c: &RingCmp, seed: u64) -> Vec<u8>
where
    Module<B>: HalAll<B>,
{
    use poulpy_hal::layouts::ZnxViewMut;
    let mut rng = pvc_engine::rng::Rng::new(seed, fnv(format!("{:?}", c).as_bytes()));
    let big = c.n_in.max(c.n_out);
    let small = c.n_in.min(c.n_out);
    let m = B::module(big.max(8));
    let mb = B::module(big);
    let mut out = vec![];
    match c.op.as_str() {
        "switch_ring" => {
            let mut a = VecZnx::alloc(c.n_in, 1, c.size);
            for x in a.raw_mut() {
                *x = rng.digit(50);
            }
            let mut r = VecZnx::alloc(c.n_out, 1, c.size);
            pvc_engine::rng::garbage(&mut r.data, 0);
            m.vec_znx_switch_ring(&mut r, 0, &a, 0);
            out.extend_from_slice(&r.data[..c.n_out * c.size * 8]);
        }
        "split_ring" => {
            let parts = big / small;
            let mut a = VecZnx::alloc(big, 1, c.size);
            for x in a.raw_mut() {
                *x = rng.digit(50);
            }
            let mut rs: Vec<VecZnx<Vec<u8>>> = (0..parts).map(|_| VecZnx::alloc(small, 1, c.size)).collect();
            let mut s = B::scratch(mb.vec_znx_split_ring_tmp_bytes() + 64);
            mb.vec_znx_split_ring(&mut rs, 0, &a, 0, B::borrow(&mut s));
            for r in &rs {
                out.extend_from_slice(&r.data[..small * c.size * 8]);
            }
        }
        _ => {
            let parts = big / small;
            let ps: Vec<VecZnx<Vec<u8>>> = (0..parts)
                .map(|_| {
                    let mut v = VecZnx::alloc(small, 1, c.size);
                    for x in v.raw_mut() {
                        *x = rng.digit(50);
                    }
                    v
                })
                .collect();
            let mut r = VecZnx::alloc(big, 1, c.size);
            pvc_engine::rng::garbage(&mut r.data, 0);
            let mut s = B::scratch(mb.vec_znx_merge_rings_tmp_bytes() + 64);
            mb.vec_znx_merge_rings(&mut r, 0, &ps, 0, B::borrow(&mut s));
            out.extend_from_slice(&r.data[..big * c.size * 8]);
        }
    }
    out
}

fn cmp_r<B1: Bk, B2: Bk>(c: &RingCmp, seed: u64, rec: &mut Rec)
where
    Module<B1>: HalAll<B1>,
    Module<B2>: HalAll<B2>,
{
    let x = pvc_engine::guarded(|| ring_out::<B1>(c, seed));
    let y = pvc_engine::guarded(|| ring_out::<B2>(c, seed));
    rec.evals(2);
    let pair = format!("{}|{}", B1::NAME, B2::NAME);
    match (x, y) {
        (Ok(x), Ok(y)) => {
            if x != y {
                rec.fail(json!({"op": c.op, "backend": pair, "kind": "backend_mismatch", "case": c}));
            }
            rec.outcome(fnv(&x));
        }
        (Err(_), Err(_)) => rec.add("both_panicked", 1),
        (a, b) => rec.fail(json!({"op": c.op, "backend": pair, "kind": "panic_mismatch", "case": c, "panic": [a.err(), b.err()]})),
    }
    rec.distinct(fnv(format!("{:?}{}", c, pair).as_bytes()));
    rec.sample(|| serde_json::to_value(c).unwrap());
}

fn r_cases() -> Vec<RingCmp> {
    let mut out = vec![];
    for big in [2usize, 4, 8, 16, 32, 64] {
        for ratio in [1usize, 2, 4, 8, 16] {
            if big % ratio != 0 || big / ratio == 0 {
                continue;
            }
            let small = big / ratio;
            for size in 1..=3usize {
                out.push(RingCmp { op: "switch_ring".into(), n_in: big, n_out: small, size });
                out.push(RingCmp { op: "switch_ring".into(), n_in: small, n_out: big, size });
                if ratio > 1 {
                    out.push(RingCmp { op: "split_ring".into(), n_in: big, n_out: small, size });
                    out.push(RingCmp { op: "merge_rings".into(), n_in: small, n_out: big, size });
                }
            }
        }
    }
    out
}

pub fn run_hal(run: &mut Run) {
    let seed = run.seed;
    let tier = run.tier;
    if !host_has_avx() {
        run.note("avx_backends", json!("skipped: host lacks AVX2/FMA"));
    }
    let vcs = v_cases(tier);
    let mut dcs = vec![];
    for op in crate::c07::all_ops() {
        for &n in &[8usize, 16] {
            for b in [2usize, 12] {
                dcs.extend(crate::c07::cases_for(op, n, b, tier).into_iter().filter(|c| c.val <= 1));
            }
        }
    }
    let scs = s_cases(tier);
    let rule_v = "coefficient-domain operations on lengths 1..17 (every SIMD tail), all rotations / odd Galois elements, normalisation and shift kernels for every radix (quick: 13 radices) x intra-limb shift x 64-bit boundary values; byte comparison of the selected output";
    let rule_d = "every DFT-domain case of C07 at N=8,16, radices 2 and 12 (inside both magnitude domains): exact coefficient-domain value compared across backends, native bytes too within a family";
    let rule_s = "fill_uniform / fill_normal / add_normal / big_add_normal for lengths with tails, radices, precisions k and seeds: values equal and next draw from the source equal";
    if host_has_avx() {
        run.family("coefficient/fft64-ref|fft64-avx", rule_v, vcs.clone(), |c, rec| cmp_v::<FFT64Ref, FFT64Avx>(c, seed, rec));
        run.family("coefficient/ntt120-ref|ntt120-avx", rule_v, vcs.clone(), |c, rec| cmp_v::<NTT120Ref, NTT120Avx>(c, seed, rec));
    }
    run.family("coefficient/fft64-ref|ntt120-ref", rule_v, vcs, |c, rec| cmp_v::<FFT64Ref, NTT120Ref>(c, seed, rec));
    let rule_f = "normalisation / shift kernels on inputs over the full i64 range: 16 values around the wrap points of x - digit and x + carry (i64::MAX, i64::MIN, 2^63 - 2^(b-1) +-1, +-2^62, ...) x every SIMD lane and tail (n = 9) x every ordered pair of values in adjacent limbs (rot x stride) x limb counts up to the reach of a wrapped carry x radices x intra-limb offsets; byte comparison; inputs on which a checked-arithmetic kernel overflows are counted as outside its magnitude domain";
    if host_has_avx() {
        let rule_n = "every normalisation / shift case of C08 on the big accumulators (small exhaustive digit tuples, boundary classes for radices up to 62, wide i128 accumulators at every offset) on the reference and the AVX backend of a family: result bytes identical";
        let bigs = |cs: Vec<crate::c08::Case>| -> Vec<crate::c08::Case> { cs.into_iter().filter(|c| c.n.is_power_of_two() && (c.alphabet == "boundary" || (c.b_in <= 2 && c.b_out <= 3 && c.a_size <= 2))).collect() };
        run.family("normalize_cases/fft64-ref|fft64-avx", rule_n, bigs(crate::c08::cases::<FFT64Ref>(tier)), |c, rec| crate::c08::exec_cmp::<FFT64Ref, FFT64Avx>(c, seed, rec));
        run.family("normalize_cases/ntt120-ref|ntt120-avx", rule_n, bigs(crate::c08::cases::<NTT120Ref>(tier)), |c, rec| crate::c08::exec_cmp::<NTT120Ref, NTT120Avx>(c, seed, rec));
        let fcs = v_cases_full(tier);
        run.family("coefficient_full_range/fft64-ref|fft64-avx", rule_f, fcs.clone(), |c, rec| cmp_v::<FFT64Ref, FFT64Avx>(c, seed, rec));
        run.family("coefficient_full_range/ntt120-ref|ntt120-avx", rule_f, fcs, |c, rec| cmp_v::<NTT120Ref, NTT120Avx>(c, seed, rec));
    }
    if host_has_avx() {
        run.family("dft_domain/fft64-ref|fft64-avx", rule_d, dcs.clone(), |c, rec| cmp_d::<FFT64Ref, FFT64Avx>(c, seed, rec));
        run.family("dft_domain/ntt120-ref|ntt120-avx", rule_d, dcs.clone(), |c, rec| cmp_d::<NTT120Ref, NTT120Avx>(c, seed, rec));
    }
    run.family("dft_domain/fft64-ref|ntt120-ref", rule_d, dcs, |c, rec| cmp_d::<FFT64Ref, NTT120Ref>(c, seed, rec));
    if host_has_avx() {
        run.family("sampling/fft64-ref|fft64-avx", rule_s, scs.clone(), |c, rec| cmp_s::<FFT64Ref, FFT64Avx>(c, rec));
        run.family("sampling/ntt120-ref|ntt120-avx", rule_s, scs.clone(), |c, rec| cmp_s::<NTT120Ref, NTT120Avx>(c, rec));
    }
    run.family("sampling/fft64-ref|ntt120-ref", rule_s, scs, |c, rec| cmp_s::<FFT64Ref, NTT120Ref>(c, rec));
    let rule_r = "switch_ring (both directions, ratios 1..16 incl. degrees below the SIMD width), split_ring, merge_rings: byte comparison";
    if host_has_avx() {
        run.family("ring/fft64-ref|fft64-avx", rule_r, r_cases(), |c, rec| cmp_r::<FFT64Ref, FFT64Avx>(c, seed, rec));
        run.family("ring/ntt120-ref|ntt120-avx", rule_r, r_cases(), |c, rec| cmp_r::<NTT120Ref, NTT120Avx>(c, seed, rec));
    }
    run.family("ring/fft64-ref|ntt120-ref", rule_r, r_cases(), |c, rec| cmp_r::<FFT64Ref, NTT120Ref>(c, seed, rec));
}

pub fn replay(run: &mut Run, d: &Value) -> bool {
    let fam = d["family"].as_str().unwrap_or("").to_string();
    let seed = d["seed"].as_u64().unwrap_or(0);
    let pair = fam.split('/').nth(1).unwrap_or("").to_string();
    macro_rules! go {
        ($A:ty, $B:ty) => {{
            if fam.starts_with("normalize_cases/") {
                let c: crate::c08::Case = serde_json::from_value(d["case"].clone()).unwrap();
                run.single(&fam, "replay", |rec| crate::c08::exec_cmp::<$A, $B>(&c, seed, rec));
            } else if fam.starts_with("coefficient/") || fam.starts_with("coefficient_full_range/") {
                let c: VCase = serde_json::from_value(d["case"].clone()).unwrap();
                run.single(&fam, "replay", |rec| cmp_v::<$A, $B>(&c, seed, rec));
            } else if fam.starts_with("dft_domain/") {
                let c: OpCase = serde_json::from_value(d["case"].clone()).unwrap();
                run.single(&fam, "replay", |rec| cmp_d::<$A, $B>(&c, seed, rec));
            } else if fam.starts_with("ring/") {
                let c: RingCmp = serde_json::from_value(d["case"].clone()).unwrap();
                run.single(&fam, "replay", |rec| cmp_r::<$A, $B>(&c, seed, rec));
            } else {
                let c: SampCase = serde_json::from_value(d["case"].clone()).unwrap();
                run.single(&fam, "replay", |rec| cmp_s::<$A, $B>(&c, rec));
            }
        }};
    }
    match pair.as_str() {
        "fft64-ref|fft64-avx" => go!(FFT64Ref, FFT64Avx),
        "ntt120-ref|ntt120-avx" => go!(NTT120Ref, NTT120Avx),
        "fft64-ref|ntt120-ref" => go!(FFT64Ref, NTT120Ref),
        _ => return false,
    }
    true
}

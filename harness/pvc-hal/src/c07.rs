//! C07 - DFT-domain products equal exact negacyclic (bivariate) convolution (engine E1).
//! The executor is `ops::run_op`; this module holds the value models and the enumerations.

use crate::be::{Bk, Family, HalAll};
use crate::for_backends;
use crate::ops::{self, Inputs, OpCase, OpOut, Opts, ScratchMode};
use poulpy_hal::layouts::{Module, ZnxInfos, ZnxView};
use pvc_engine::{Rec, Run, Tier, fnv};
use pvc_model::ring::negacyclic_mul_i128;
use serde_json::{Value, json};

type Poly = Vec<i128>;

fn zero(n: usize) -> Poly {
    vec![0i128; n]
}
fn add(a: &Poly, b: &Poly) -> Poly {
    a.iter().zip(b).map(|(x, y)| x + y).collect()
}
fn sub(a: &Poly, b: &Poly) -> Poly {
    a.iter().zip(b).map(|(x, y)| x - y).collect()
}
#[allow(dead_code)]
fn neg(a: &Poly) -> Poly {
    a.iter().map(|x| -x).collect()
}
fn limb(v: &poulpy_hal::layouts::VecZnx<Vec<u8>>, col: usize, j: usize) -> Poly {
    if j < v.size() { v.at(col, j).iter().map(|x| *x as i128).collect() } else { zero(v.n()) }
}
fn masked_limbs(v: &poulpy_hal::layouts::VecZnx<Vec<u8>>, col: usize, size: usize, mask: i64) -> Vec<Poly> {
    (0..size)
        .map(|j| {
            let mut p = limb(v, col, j);
            if j + 1 == size {
                for x in p.iter_mut() {
                    *x = ((*x as i64) & mask) as i128;
                }
            }
            p
        })
        .collect()
}

/// exact expected value of the selected output: [limb][coeff] (for vmp: all output columns, column-major)
pub fn model(c: &OpCase, inp: &Inputs) -> Vec<Poly> {
    let n = c.n;
    let a = |j: usize| limb(&inp.a, c.ac, j);
    let b = |j: usize| limb(&inp.b, c.bc, j);
    let r0 = |j: usize| limb(&inp.r0, c.rc, j);
    let sc: Poly = inp.sc.at(c.ac, 0).iter().map(|x| *x as i128).collect();
    match c.op.as_str() {
        "dft_apply" | "dft_copy" => {
            let (step, offset) = (c.p as usize, c.q as usize);
            let steps = c.a_s.div_ceil(step);
            (0..c.rs)
                .map(|j| {
                    let l = offset + j * step;
                    if j < steps.min(c.rs) && l < c.a_s { a(l) } else { zero(n) }
                })
                .collect()
        }
        "dft_add_into" => (0..c.rs).map(|j| add(&a(j), &b(j))).collect(),
        "dft_sub" => (0..c.rs).map(|j| sub(&a(j), &b(j))).collect(),
        "dft_add_assign" => (0..c.rs).map(|j| add(&r0(j), &a(j))).collect(),
        "dft_sub_assign" => (0..c.rs).map(|j| sub(&r0(j), &a(j))).collect(),
        "dft_sub_negate_assign" => (0..c.rs).map(|j| sub(&a(j), &r0(j))).collect(),
        "dft_add_scaled_assign" => {
            let s = c.p;
            (0..c.rs)
                .map(|j| {
                    let mut r = r0(j);
                    if s >= 0 {
                        let sh = (s as usize).min(c.a_s);
                        if j + sh < c.a_s {
                            r = add(&r, &a(j + sh));
                        }
                    } else {
                        let sh = (s.unsigned_abs() as usize).min(c.rs);
                        if j >= sh && j - sh < c.a_s {
                            r = add(&r, &a(j - sh));
                        }
                    }
                    r
                })
                .collect()
        }
        "dft_zero" => (0..c.rs).map(|_| zero(n)).collect(),
        "dft_chain" => {
            let mut cur: Vec<Poly> = (0..c.rs).map(r0).collect();
            let mut code = c.p as usize;
            for _ in 0..c.q as usize {
                let step = code % 5;
                code /= 5;
                cur = cur
                    .iter()
                    .enumerate()
                    .map(|(j, r)| match step {
                        0 => add(r, &a(j)),
                        1 => sub(r, &a(j)),
                        // sub_negate_assign: res = operand - res on the limbs the operand has, res = -res beyond
                        2 => sub(&a(j), r),
                        3 => sub(&b(j), r),
                        _ => negacyclic_mul_i128(&sc, r),
                    })
                    .collect();
            }
            cur
        }
        "idft_apply" | "idft_apply_tmpa" => (0..c.rs).map(a).collect(),
        "idft_apply_consume" => (0..c.a_s).map(a).collect(),
        "svp_apply_dft" | "svp_apply_dft_to_dft" => {
            (0..c.rs).map(|j| if j < c.bs { negacyclic_mul_i128(&sc, &b(j)) } else { zero(n) }).collect()
        }
        "svp_apply_dft_to_dft_assign" => (0..c.rs).map(|j| negacyclic_mul_i128(&sc, &r0(j))).collect(),
        "vmp_apply_dft" | "vmp_apply_dft_to_dft" => {
            let lo = if c.op == "vmp_apply_dft" { 0 } else { c.p as usize };
            let rows = c.a_s.min(c.rows);
            let mut out = vec![];
            for co in 0..c.cout {
                for j in 0..c.rs {
                    let ml = j + lo;
                    let mut acc = zero(n);
                    if ml < c.ms {
                        for i in 0..rows {
                            for ci in 0..c.cin {
                                let av: Poly = inp.a.at(ci, i).iter().map(|x| *x as i128).collect();
                                let mv: Poly = inp.mat.at(i, ci).at(co, ml).iter().map(|x| *x as i128).collect();
                                acc = add(&acc, &negacyclic_mul_i128(&av, &mv));
                            }
                        }
                    }
                    out.push(acc);
                }
            }
            out
        }
        "cnv_apply_dft" | "cnv_pairwise_apply_dft" | "cnv_self_apply_dft" => {
            let mask: i64 = !0i64 << (c.q.max(0) as u32);
            let off = c.p as usize;
            // limbs that take part: the preparation truncates to the prepared size (and masks the last limb that is kept)
            let (_, _, ea, eb) = ops::cnv_sizes(c);
            let (left, right): (Vec<Poly>, Vec<Poly>) = match c.op.as_str() {
                "cnv_apply_dft" => (masked_limbs(&inp.a, c.ac, ea, mask), masked_limbs(&inp.b, c.bc, eb, mask)),
                "cnv_self_apply_dft" => (masked_limbs(&inp.a, c.ac, ea, mask), masked_limbs(&inp.a, c.bc, ea, mask)),
                _ => {
                    let (i, j) = (c.ac, c.bc);
                    if i == j {
                        (masked_limbs(&inp.a, i, ea, mask), masked_limbs(&inp.b, i, eb, mask))
                    } else {
                        let l: Vec<Poly> = masked_limbs(&inp.a, i, ea, mask)
                            .iter()
                            .zip(masked_limbs(&inp.a, j, ea, mask).iter())
                            .map(|(x, y)| add(x, y))
                            .collect();
                        let r: Vec<Poly> = masked_limbs(&inp.b, i, eb, mask)
                            .iter()
                            .zip(masked_limbs(&inp.b, j, eb, mask).iter())
                            .map(|(x, y)| add(x, y))
                            .collect();
                        (l, r)
                    }
                }
            };
            (0..c.rs)
                .map(|j| {
                    let mut acc = zero(n);
                    for (i1, l) in left.iter().enumerate() {
                        for (i2, r) in right.iter().enumerate() {
                            if i1 + i2 == j + off {
                                acc = add(&acc, &negacyclic_mul_i128(l, r));
                            }
                        }
                    }
                    acc
                })
                .collect()
        }
        "cnv_by_const_apply" => {
            let off = c.p as usize;
            (0..c.rs)
                .map(|j| {
                    let mut acc = zero(n);
                    for i1 in 0..c.a_s {
                        for (i2, k) in inp.cst.iter().enumerate() {
                            if i1 + i2 == j + off {
                                let al = a(i1);
                                acc = acc.iter().zip(al.iter()).map(|(x, y)| x + y * (*k as i128)).collect();
                            }
                        }
                    }
                    acc
                })
                .collect()
        }
        o => panic!("c07::model: unknown op {o}"),
    }
}

/// number of (n-term) products accumulated into one output coefficient, for the magnitude domain
fn terms(c: &OpCase) -> usize {
    match c.op.as_str() {
        // worst case over the chain: every step a multiplication by a ternary polynomial (factor n) or a doubling
        "dft_chain" => (c.n.max(2)).pow(c.q as u32),
        "vmp_apply_dft" | "vmp_apply_dft_to_dft" => c.a_s.min(c.rows) * c.cin,
        "cnv_apply_dft" | "cnv_self_apply_dft" | "cnv_by_const_apply" => c.a_s.min(c.bs.max(1)).max(1),
        "cnv_pairwise_apply_dft" => 4 * c.a_s.min(c.bs).max(1),
        _ => 1,
    }
}

pub fn admissible<B: Bk>(c: &OpCase) -> bool {
    let (bl, br) = match c.op.as_str() {
        // transforms and transform-domain arithmetic carry single digits (sums of two)
        o if o.starts_with("dft_") || o.starts_with("idft_") => (c.b + 1, 0),
        o if o.starts_with("svp_") => (c.b, 1),
        "cnv_by_const_apply" => (c.b, c.b),
        _ => (c.b, c.b),
    };
    let n_eff = if c.op.starts_with("dft_") || c.op.starts_with("idft_") { 1 } else { c.n };
    if c.op == "dft_chain" {
        return ops::in_domain(B::FAMILY, 1, terms(c), c.b + 1, 1);
    }
    ops::in_domain(B::FAMILY, n_eff, terms(c), bl, br)
}

pub fn exec<B: Bk>(c: &OpCase, seed: u64, rec: &mut Rec)
where
    Module<B>: HalAll<B>,
{
    if !admissible::<B>(c) {
        rec.add("outside_magnitude_domain", 1);
        return;
    }
    let inp = ops::build_inputs(c, seed);
    let want = model(c, &inp);
    // two prior contents of every writable buffer: the value must be exact from both
    for g in 0..2usize {
        let out: OpOut = ops::run_op::<B>(
            c,
            &Opts {
                garbage: g,
                scratch: ScratchMode::Owned,
                seed,
            },
        );
        rec.evals(1);
        let base = |kind: &str| json!({"op": c.op, "backend": B::NAME, "kind": kind, "case": c, "inner": {"garbage": g}});
        if let Some(p) = out.panic {
            let mut d = base("panic");
            d["panic"] = json!(p);
            rec.fail(d);
            return;
        }
        if out.canon.len() != want.len() {
            let mut d = base("wrong_value");
            d["why"] = json!(format!("{} limbs produced, {} expected", out.canon.len(), want.len()));
            rec.fail(d);
            return;
        }
        for (j, (g_l, w_l)) in out.canon.iter().zip(want.iter()).enumerate() {
            if g_l != w_l {
                let i = g_l.iter().zip(w_l).position(|(x, y)| x != y).unwrap();
                let mut d = base("wrong_value");
                d["limb"] = json!(j);
                d["index"] = json!(i);
                d["got"] = json!(g_l[i].to_string());
                d["want"] = json!(w_l[i].to_string());
                if c.n <= 16 {
                    d["got_limb"] = json!(g_l.iter().map(|x| x.to_string()).collect::<Vec<_>>());
                    d["want_limb"] = json!(w_l.iter().map(|x| x.to_string()).collect::<Vec<_>>());
                }
                // classification for known-finding selectors (computed from the case only)
                d["selects_past_input"] = json!(selects_past_input(c));
                rec.fail(d);
                return;
            }
        }
        if g == 0 {
            rec.outcome(fnv(&out.raw));
        }
    }
    rec.distinct(fnv(format!("{:?}{}", c, B::NAME).as_bytes()));
    rec.sample(|| serde_json::to_value(c).unwrap());
}

/// true when the limb selection of the case reaches past the last input limb (the zero-fill rule applies)
pub fn selects_past_input(c: &OpCase) -> bool {
    match c.op.as_str() {
        "dft_apply" | "dft_copy" => {
            let (step, offset) = (c.p as usize, c.q as usize);
            (0..c.rs).any(|j| offset + j * step >= c.a_s)
        }
        "vmp_apply_dft_to_dft" => c.p as usize + c.rs > c.ms,
        _ => false,
    }
}

// ---------------------------------------------------------------------------------------------
// enumerations (shared with C10/C11/C12)
// ---------------------------------------------------------------------------------------------

pub fn radices(family: Family, tier: Tier) -> Vec<usize> {
    match (family, tier.is_thorough()) {
        (Family::Fft64, false) => vec![2, 12, 17],
        (Family::Fft64, true) => vec![1, 2, 3, 4, 5, 6, 12, 17, 21],
        (Family::Ntt120, false) => vec![2, 17, 50],
        (Family::Ntt120, true) => vec![1, 2, 3, 4, 5, 6, 12, 17, 40, 50, 52],
    }
}

/// all cases of one op for ring degree n and radix b
pub fn cases_for(op: &str, n: usize, b: usize, tier: Tier) -> Vec<OpCase> {
    let mut out = vec![];
    let smax = tier.pick(3usize, 4usize);
    let vals: Vec<u8> = tier.pick(vec![0, 1, 3], vec![0, 1, 2, 3, 4, 5]);
    let base = OpCase::base(op, n, b);
    let colsets: Vec<(usize, usize, usize, usize)> = vec![(1, 0, 0, 0), (2, 0, 1, 0), (2, 1, 0, 1), (3, 2, 1, 0), (3, 1, 1, 2)];
    match op {
        "dft_apply" | "dft_copy" => {
            for rs in 1..=smax {
                for a_s in 1..=smax {
                    for step in 1..=4usize {
                        for offset in 0..=(a_s + 1) {
                            for &(cols, rc, ac, _) in &colsets {
                                for &val in &vals[..2.min(vals.len())] {
                                    let mut c = base.clone();
                                    (c.rs, c.a_s, c.p, c.q, c.cols, c.rc, c.ac, c.val) = (rs, a_s, step as i64, offset as i64, cols, rc, ac, val);
                                    out.push(c);
                                }
                            }
                        }
                    }
                }
            }
        }
        "dft_add_into" | "dft_sub" => {
            for rs in 1..=smax {
                for a_s in 1..=smax {
                    for bs in 1..=smax {
                        for &(cols, rc, ac, bc) in &colsets {
                            for &val in &vals {
                                let mut c = base.clone();
                                (c.rs, c.a_s, c.bs, c.cols, c.rc, c.ac, c.bc, c.val) = (rs, a_s, bs, cols, rc, ac, bc, val);
                                out.push(c);
                            }
                        }
                    }
                }
            }
        }
        "dft_add_assign" | "dft_sub_assign" | "dft_sub_negate_assign" | "dft_zero" | "idft_apply" | "idft_apply_tmpa"
        | "idft_apply_consume" => {
            for rs in 1..=smax {
                for a_s in 1..=smax {
                    for &(cols, rc, ac, _) in &colsets {
                        for &val in &vals {
                            let mut c = base.clone();
                            (c.rs, c.a_s, c.cols, c.rc, c.ac, c.val) = (rs, a_s, cols, rc, ac, val);
                            out.push(c);
                        }
                    }
                }
            }
        }
        "dft_add_scaled_assign" => {
            for rs in 1..=smax {
                for a_s in 1..=smax {
                    for s in -(smax as i64 + 1)..=(smax as i64 + 1) {
                        // For a positive scale and a result shorter than `a` the library adds min(a,res)-scale limbs
                        // where the limb-shift reading of the (one-line) documentation would add min(res, a-scale).
                        // The operation has no caller and no precise specification, so this sub-domain is left out
                        // rather than demanding one of the two readings.
                        if s > 0 && rs < a_s {
                            continue;
                        }
                        for &(cols, rc, ac, _) in &colsets[..3] {
                            let mut c = base.clone();
                            (c.rs, c.a_s, c.p, c.cols, c.rc, c.ac) = (rs, a_s, s, cols, rc, ac);
                            out.push(c);
                        }
                    }
                }
            }
        }
        "dft_chain" => {
            // every sequence of 1..=3 steps over the 5-letter alphabet {+=a, -=a, a-res, b-res, *=s}
            for depth in 1..=3usize {
                for code in 0..5usize.pow(depth as u32) {
                    for (rs, a_s, bs) in [(1usize, 1usize, 1usize), (2, 2, 2), (3, 2, 1), (2, 3, 3)] {
                        for &(cols, rc, ac, bc) in &colsets[..3] {
                            for &val in &vals {
                                if val == 5 {
                                    continue;
                                }
                                let mut c = base.clone();
                                (c.rs, c.a_s, c.bs, c.p, c.q, c.cols, c.rc, c.ac, c.bc, c.val) =
                                    (rs, a_s, bs, code as i64, depth as i64, cols, rc, ac, bc, val);
                                out.push(c);
                            }
                        }
                    }
                }
            }
        }
        "svp_apply_dft" | "svp_apply_dft_to_dft" | "svp_apply_dft_to_dft_assign" => {
            for rs in 1..=smax {
                for bs in 1..=smax {
                    for &(cols, rc, ac, bc) in &colsets {
                        for &val in &vals {
                            let mut c = base.clone();
                            (c.rs, c.bs, c.cols, c.rc, c.ac, c.bc, c.val) = (rs, bs, cols, rc, ac, bc, val);
                            out.push(c);
                        }
                    }
                }
            }
        }
        "vmp_apply_dft" | "vmp_apply_dft_to_dft" => {
            let m = tier.pick(3usize, 4usize);
            for rs in 1..=m {
                for a_s in 1..=m {
                    for rows in 1..=m {
                        for ms in 1..=m {
                            for cin in 1..=tier.pick(2usize, 3usize) {
                                for cout in 1..=tier.pick(2usize, 3usize) {
                                    let los: Vec<usize> = if op == "vmp_apply_dft" { vec![0] } else { (0..=ms + 1).collect() };
                                    for lo in los {
                                        for &val in &vals[..2.min(vals.len())] {
                                            let mut c = base.clone();
                                            (c.rs, c.a_s, c.rows, c.ms, c.cin, c.cout, c.p, c.val) = (rs, a_s, rows, ms, cin, cout, lo as i64, val);
                                            out.push(c);
                                        }
                                    }
                                }
                            }
                        }
                    }
                }
            }
        }
        "cnv_apply_dft" | "cnv_pairwise_apply_dft" | "cnv_self_apply_dft" | "cnv_by_const_apply" => {
            for rs in 1..=smax + 1 {
                for a_s in 1..=smax {
                    for bs in 1..=(if op == "cnv_self_apply_dft" { 1 } else { smax }) {
                        let bsz = if op == "cnv_self_apply_dft" { a_s } else { bs };
                        for off in 0..=(a_s + bsz + 1) {
                            let masks: Vec<i64> = if op == "cnv_by_const_apply" { vec![0] } else { vec![0, (b as i64 / 2).max(1)] };
                            for &mask in &masks {
                                for &(cols, rc, ac, bc) in &colsets {
                                    if op == "cnv_by_const_apply" && bc != 0 {
                                        // b is a constant vector: no column
                                    }
                                    for &val in &vals[..2.min(vals.len())] {
                                        let mut c = base.clone();
                                        (c.rs, c.a_s, c.bs, c.p, c.q, c.cols, c.rc, c.ac, c.bc, c.val) =
                                            (rs, a_s, bsz, off as i64, mask, cols, rc, ac, bc, val);
                                        out.push(c.clone());
                                        // prepared operands whose shape differs from the vector they were prepared from and from
                                        // each other: more columns on one side, prepared size shorter / longer than the input
                                        if op != "cnv_by_const_apply" && val == vals[0] {
                                            let shapes: &[(u8, u8, i8, i8)] = if op == "cnv_self_apply_dft" {
                                                &[(1, 0, 0, 0), (0, 0, 1, 0), (0, 0, -1, 0), (2, 0, 2, 0)]
                                            } else {
                                                &[(1, 0, 0, 0), (0, 2, 0, 0), (0, 0, 1, 0), (0, 0, 0, 2), (0, 0, -1, 0), (0, 0, 0, -1), (2, 1, 1, -1)]
                                            };
                                            for &(xl, xr, el, er) in shapes {
                                                if (el < 0 && a_s == 1) || (er < 0 && bsz == 1) {
                                                    continue;
                                                }
                                                let mut d = c.clone();
                                                (d.xl, d.xr, d.el, d.er) = (xl, xr, el, er);
                                                out.push(d);
                                            }
                                        }
                                    }
                                }
                            }
                        }
                    }
                }
            }
        }
        _ => panic!("cases_for: unknown op {op}"),
    }
    out
}

pub fn all_ops() -> Vec<&'static str> {
    let mut v: Vec<&'static str> = vec![];
    v.extend(ops::DFT_OPS);
    v.extend(ops::SVP_OPS);
    v.extend(ops::VMP_OPS);
    v.extend(ops::CNV_OPS);
    v.extend(ops::CHAIN_OPS);
    v
}

pub fn fam<B: Bk>(run: &mut Run)
where
    Module<B>: HalAll<B>,
{
    let seed = run.seed;
    let tier = run.tier;
    let mut cs = vec![];
    for op in all_ops() {
        for &n in &[8usize, 16] {
            for b in radices(B::FAMILY, tier) {
                // n=16 on a reduced radix set in the quick tier
                if n == 16 && !tier.is_thorough() && b != radices(B::FAMILY, tier)[1] {
                    continue;
                }
                cs.extend(cases_for(op, n, b, tier));
            }
        }
    }
    run.family(
        &format!("dft_domain/{}", B::NAME),
        "outer = (op, N in {8,16}, radix, res/a/b sizes, matrix rows/cols/size, column triple, step/offset | limb_offset | cnv_offset | scale | mask, value class incl. aligned extremes); each run from two garbage fills; oracle = schoolbook negacyclic product over i128, limb- and bit-exact on the big accumulator; cases outside the conservative magnitude domain are skipped and counted",
        cs,
        |c, rec| exec::<B>(c, seed, rec),
    );
}

// ---------------------------------------------------------------------------------------------
// large N classes: dense x sparse and extreme x extreme, exact product in O(N * terms)
// ---------------------------------------------------------------------------------------------

pub fn fam_large<B: Bk>(run: &mut Run)
where
    Module<B>: HalAll<B>,
{
    let seed = run.seed;
    let tier = run.tier;
    let mut cs = vec![];
    let ns: Vec<usize> = tier.pick(vec![32, 64, 256, 1024], vec![32, 64, 128, 256, 512, 1024, 2048, 4096, 8192, 16384, 32768, 65536]);
    for &n in &ns {
        for op in ["svp_apply_dft", "vmp_apply_dft_to_dft", "cnv_apply_dft", "idft_apply", "dft_add_into"] {
            let bs = radices(B::FAMILY, tier);
            // the largest radix that keeps the product inside the magnitude domain at this n
            for &b in bs.iter().rev() {
                let mut c = OpCase::base(op, n, b);
                (c.rs, c.a_s, c.bs, c.rows, c.ms, c.cin, c.cout, c.cols) = (2, 2, 2, 2, 2, 1, 1, 1);
                if !admissible::<B>(&c) {
                    continue;
                }
                for val in [0u8, 1, 3, 4] {
                    let mut d = c.clone();
                    d.val = val;
                    cs.push(d);
                }
                break;
            }
        }
    }
    run.family(
        &format!("dft_domain_large_n/{}", B::NAME),
        "N = 32..2^16 (quick: up to 1024): svp / vmp / convolution / inverse transform / transform-domain add at the largest radix inside the magnitude domain, value classes random, aligned extremes, alternating extremes, sparse; schoolbook oracle (O(N^2) for N<=1024, sparse operand otherwise)",
        cs,
        |c, rec| {
            // O(N^2) schoolbook is affordable up to N = 4096; above that only the sparse / structured classes are run
            if c.n > 4096 && !(c.val == 4 || c.op.starts_with("idft") || c.op.starts_with("dft_")) {
                rec.add("skipped_dense_above_4096", 1);
                return;
            }
            exec::<B>(c, seed, rec)
        },
    );
}

// ---------------------------------------------------------------------------------------------
// every pair of single-limb operands at N=8, b=1 for svp: 2^8 x 2^8 products
// ---------------------------------------------------------------------------------------------

fn fam_svp_all_pairs<B: Bk>(run: &mut Run)
where
    Module<B>: HalAll<B>,
{
    use poulpy_hal::api::*;
    use poulpy_hal::layouts::{ScalarZnx, SvpPPol, VecZnx, ZnxViewMut};
    let cs: Vec<u32> = (0..256u32).collect();
    run.family(
        &format!("svp_all_pairs_n8_b1/{}", B::NAME),
        "every pair of single-limb operands with digits in {-1,0} at N=8 (2^8 x 2^8 exact products)",
        cs,
        |&sbits, rec| {
            let m = B::module(8);
            let mut sc = ScalarZnx::alloc(8, 1);
            for i in 0..8 {
                sc.at_mut(0, 0)[i] = -(((sbits >> i) & 1) as i64);
            }
            let mut pp: SvpPPol<Vec<u8>, B> = SvpPPol::from_data(poulpy_hal::alloc_aligned::<u8>(m.bytes_of_svp_ppol(1)), 8, 1);
            m.svp_prepare(&mut pp, 0, &sc, 0);
            for vbits in 0..256u32 {
                let mut v = VecZnx::alloc(8, 1, 1);
                for i in 0..8 {
                    v.at_mut(0, 0)[i] = -(((vbits >> i) & 1) as i64);
                }
                let mut res = poulpy_hal::layouts::VecZnxDft::<Vec<u8>, B>::from_data(
                    poulpy_hal::alloc_aligned::<u8>(B::bytes_of_vec_znx_dft(8, 1, 1)),
                    8,
                    1,
                    1,
                );
                m.svp_apply_dft(&mut res, 0, &pp, 0, &v, 0);
                let got = ops::canon_of_dft::<B>(&m, &res, 0);
                let s: Vec<i128> = sc.at(0, 0).iter().map(|x| *x as i128).collect();
                let w: Vec<i128> = v.at(0, 0).iter().map(|x| *x as i128).collect();
                let want = negacyclic_mul_i128(&s, &w);
                rec.evals(1);
                if got[0] != want {
                    rec.fail(json!({"op": "svp_apply_dft", "backend": B::NAME, "kind": "wrong_value", "case": {"s": sbits, "v": vbits}}));
                    return;
                }
            }
            rec.distinct(sbits as u64);
        },
    );
}

pub fn run(run: &mut Run) {
    run.assume("magnitude domain used by the harness: FFT64 n*terms*2^(b_left+b_right) <= 2^50, NTT120 <= 2^116; scalar (svp) operands are ternary");
    run.assume("the canonical value of a DFT-domain result is read through the library's own vec_znx_idft_apply; forward-then-inverse identity is itself an enumerated family (idft_apply*)");
    for_backends!(fam(run));
    for_backends!(fam_large(run));
    for_backends!(fam_svp_all_pairs(run));
}

pub fn replay(run: &mut Run, d: &Value) {
    let backend = d["backend"].as_str().unwrap_or("").to_string();
    let fam = d["family"].as_str().unwrap_or("").to_string();
    let seed = d["seed"].as_u64().unwrap_or(0);
    let c: OpCase = serde_json::from_value(d["case"].clone()).expect("replay: case is not an OpCase");
    match backend.as_str() {
        "fft64-ref" => run.single(&fam, "replay", |rec| exec::<crate::be::FFT64Ref>(&c, seed, rec)),
        "ntt120-ref" => run.single(&fam, "replay", |rec| exec::<crate::be::NTT120Ref>(&c, seed, rec)),
        "fft64-avx" => run.single(&fam, "replay", |rec| exec::<crate::be::FFT64Avx>(&c, seed, rec)),
        "ntt120-avx" => run.single(&fam, "replay", |rec| exec::<crate::be::NTT120Avx>(&c, seed, rec)),
        o => panic!("unknown backend {o}"),
    }
}

//! C17 - safe API calls never access memory outside the buffers they were given.
//! Model checking supplies the exhaustive driver (the shape enumerations of C07-C12, from N=1 where the
//! operation admits it, odd lengths, 1..3 columns, exact-size scratch windows, set_size histories); the
//! verdict per execution comes from the monitor: this binary is built with `-Zsanitizer=address` by
//! `./check C17` (heap red-zones around every operand, result and scratch window; ASAN_OPTIONS=abort_on_error=1
//! turns a report into SIGABRT, which the engine attributes to the in-flight cases and reports as a
//! violation), plus the canary regions of the exact-size scratch windows. Without the sanitizer the same
//! drivers run with canaries only (the evidence records which monitor was active).

use crate::be::{Bk, HalAll};
use crate::for_backends;
use poulpy_hal::layouts::Module;
use pvc_engine::Run;
use serde_json::{Value, json};

fn drivers<B: Bk>(run: &mut Run)
where
    Module<B>: HalAll<B>,
    poulpy_hal::layouts::Scratch<B>: poulpy_hal::api::TakeSlice + poulpy_hal::api::ScratchAvailable + poulpy_hal::api::ScratchFromBytes<B>,
{
    crate::c09::fam_vec::<B>(run);
    crate::c09::fam_ring::<B>(run);
    crate::c09::fam_big::<B>(run);
    crate::c12::fam_v::<B>(run);
    crate::c12::fam_d::<B>(run);
    crate::c12::fam_arena::<B>(run);
    crate::c08::fam_big_scratch::<B>(run);
    crate::c11::fam_ringv::<B>(run);
    crate::c11::fam_hist::<B>(run);
    crate::c07::fam_large::<B>(run);
}

pub fn asan_active() -> bool {
    // the sanitizer runtime exports this symbol; a plain build does not have it
    unsafe extern "C" {
        #[linkage = "extern_weak"]
        static __asan_init: *const core::ffi::c_void;
    }
    unsafe { !__asan_init.is_null() }
}

pub fn run(run: &mut Run) {
    let asan = asan_active();
    run.note("monitor", json!(if asan { "AddressSanitizer (heap red-zones) + scratch canaries" } else { "scratch canaries only (binary not built with -Zsanitizer=address)" }));
    run.assume("absence of reports on the enumerated small shapes extends to large parameters only through the small-scope argument (index expressions are linear in the enumerated integers)");
    run.assume("the documented allocator layout mismatch (alloc_aligned_custom_u8 + Vec drop, 'CRITICAL-2' in poulpy-hal/src/lib.rs) is not observable by ASan and is not re-raised");
    for_backends!(drivers(run));
    // C17 judges memory safety only: a clean panic or a wrong value belongs to the property that owns the driver
    // (C07-C12) and is reported there. What remains here: canary damage, writes outside the selected output, and
    // (through the fatal-signal handler) sanitizer reports and crashes.
    let mut ignored = 0u64;
    for fam in run.families.iter_mut() {
        let before = fam.rec.failures.len();
        fam.rec.failures.retain(|f| {
            matches!(f.desc.get("kind").and_then(|k| k.as_str()), Some("scratch_overrun") | Some("stray_write"))
        });
        ignored += (before - fam.rec.failures.len()) as u64 + fam.rec.suppressed_failures;
        fam.rec.suppressed_failures = 0;
    }
    run.note("failures_of_other_properties_ignored", json!(ignored));
}

pub fn replay(run: &mut Run, d: &Value) {
    // a fatal-signal replay lists the in-flight cases; each is routed to the module that owns its family
    if d.get("kind").and_then(|k| k.as_str()) == Some("fatal_signal") {
        if let Some(arr) = d.get("inflight").and_then(|a| a.as_array()) {
            for c in arr {
                let mut c = c.clone();
                c["seed"] = json!(0);
                if let Some(b) = c["case"].get("backend").cloned() {
                    c["backend"] = b;
                } else {
                    let fam = c["family"].as_str().unwrap_or("").to_string();
                    c["backend"] = json!(fam.split('/').nth(1).unwrap_or(""));
                }
                route(run, &c);
            }
        }
        return;
    }
    route(run, d);
}

fn route(run: &mut Run, d: &Value) {
    let fam = d["family"].as_str().unwrap_or("").to_string();
    if fam.starts_with("hal_") || fam.starts_with("scratch_arena") || fam.starts_with("big_normalize_scratch") || fam.starts_with("ring_ops") {
        crate::c12::replay(run, d);
    } else if fam.starts_with("histories") {
        crate::c11::replay(run, d);
    } else if fam.starts_with("dft_domain") {
        crate::c07::replay(run, d);
    } else {
        crate::c09::replay(run, d);
    }
}

//! C09 - coefficient-domain ring operations match Z[X]/(X^N+1) exactly (engine E1).

use crate::be::{Bk, HalAll};
use crate::big::{BigBuf, big_alloc};
use crate::for_backends;
use crate::util::*;
use poulpy_hal::api::*;
use poulpy_hal::layouts::{GaloisElement, Module, ScalarZnx, VecZnx, ZnxInfos, ZnxView};
use pvc_engine::rng::Rng;
use pvc_engine::{Rec, Run, Tier, fnv, guarded, hash_i64s};
use pvc_model::ring;
use serde::{Deserialize, Serialize};
use serde_json::{Value, json};

#[derive(Clone, Copy, Debug, PartialEq, Eq, Serialize, Deserialize)]
pub enum Op {
    AddInto,
    AddAssign,
    Sub,
    SubAssign,
    SubNegateAssign,
    Negate,
    NegateAssign,
    Copy,
    Zero,
    AddScalarInto,
    AddScalarAssign,
    SubScalar,
    SubScalarAssign,
    Rotate,
    RotateAssign,
    MulXpMinusOne,
    MulXpMinusOneAssign,
    Automorphism,
    AutomorphismAssign,
}

pub const ALL_OPS: [Op; 19] = [
    Op::AddInto,
    Op::AddAssign,
    Op::Sub,
    Op::SubAssign,
    Op::SubNegateAssign,
    Op::Negate,
    Op::NegateAssign,
    Op::Copy,
    Op::Zero,
    Op::AddScalarInto,
    Op::AddScalarAssign,
    Op::SubScalar,
    Op::SubScalarAssign,
    Op::Rotate,
    Op::RotateAssign,
    Op::MulXpMinusOne,
    Op::MulXpMinusOneAssign,
    Op::Automorphism,
    Op::AutomorphismAssign,
];

impl Op {
    pub fn uses_b(self) -> bool {
        matches!(self, Op::AddInto | Op::Sub | Op::AddScalarInto | Op::SubScalar)
    }
    pub fn uses_a(self) -> bool {
        !matches!(self, Op::NegateAssign | Op::Zero | Op::RotateAssign | Op::MulXpMinusOneAssign | Op::AutomorphismAssign)
    }
    /// requires power-of-two n
    pub fn needs_pow2(self) -> bool {
        matches!(
            self,
            Op::Rotate | Op::RotateAssign | Op::MulXpMinusOne | Op::MulXpMinusOneAssign | Op::Automorphism | Op::AutomorphismAssign
        )
    }
    pub fn params(self, n: usize, rs: usize, bs: usize) -> Vec<i64> {
        let n = n as i64;
        match self {
            Op::Rotate | Op::RotateAssign | Op::MulXpMinusOne | Op::MulXpMinusOneAssign => (-4 * n..=4 * n).collect(),
            Op::Automorphism | Op::AutomorphismAssign => (-2 * n..4 * n).filter(|g| g & 1 == 1).collect(),
            Op::AddScalarInto | Op::SubScalar => (0..rs.min(bs) as i64).collect(),
            Op::AddScalarAssign | Op::SubScalarAssign => (0..rs as i64).collect(),
            _ => vec![0],
        }
    }
}

#[derive(Clone, Debug, Serialize, Deserialize)]
pub struct Case {
    pub op: Op,
    pub backend: String,
    pub n: usize,
    pub cols: usize,
    pub rs: usize,
    pub a_s: usize,
    pub bs: usize,
    pub rc: usize,
    pub ac: usize,
    pub bc: usize,
    pub val: Val,
}

/// expected limbs of the result column
pub fn model(op: Op, p: i64, n: usize, rs: usize, r0: &Limbs, a: &Limbs, b: &Limbs, sc: &[i64]) -> Limbs {
    let z = zeros(n);
    let get = |l: &Limbs, j: usize| -> Vec<i64> { if j < l.len() { l[j].clone() } else { z.clone() } };
    (0..rs)
        .map(|j| match op {
            Op::AddInto => ring::add(&get(a, j), &get(b, j)),
            Op::Sub => ring::sub(&get(a, j), &get(b, j)),
            Op::AddAssign => ring::add(&r0[j], &get(a, j)),
            Op::SubAssign => ring::sub(&r0[j], &get(a, j)),
            Op::SubNegateAssign => ring::sub(&get(a, j), &r0[j]),
            Op::Negate => ring::neg(&get(a, j)),
            Op::NegateAssign => ring::neg(&r0[j]),
            Op::Copy => get(a, j),
            Op::Zero => z.clone(),
            Op::AddScalarInto => {
                if j as i64 == p { ring::add(&get(b, j), sc) } else { get(b, j) }
            }
            Op::SubScalar => {
                if j as i64 == p { ring::sub(&get(b, j), sc) } else { get(b, j) }
            }
            Op::AddScalarAssign => {
                if j as i64 == p { ring::add(&r0[j], sc) } else { r0[j].clone() }
            }
            Op::SubScalarAssign => {
                if j as i64 == p { ring::sub(&r0[j], sc) } else { r0[j].clone() }
            }
            Op::Rotate => ring::mul_xk(&get(a, j), p),
            Op::RotateAssign => ring::mul_xk(&r0[j], p),
            Op::MulXpMinusOne => ring::mul_xk_minus_one(&get(a, j), p),
            Op::MulXpMinusOneAssign => ring::mul_xk_minus_one(&r0[j], p),
            Op::Automorphism => ring::automorphism(&get(a, j), p),
            Op::AutomorphismAssign => ring::automorphism(&r0[j], p),
        })
        .collect()
}

/// issues the real call
#[allow(clippy::too_many_arguments)]
pub fn call<B: Bk>(
    m: &Module<B>,
    op: Op,
    p: i64,
    r: &mut VecZnx<Vec<u8>>,
    rc: usize,
    a: &VecZnx<Vec<u8>>,
    ac: usize,
    b: &VecZnx<Vec<u8>>,
    bc: usize,
    sc: &ScalarZnx<Vec<u8>>,
    scc: usize,
) where
    Module<B>: HalAll<B>,
{
    let need = m
        .vec_znx_rotate_assign_tmp_bytes()
        .max(m.vec_znx_automorphism_assign_tmp_bytes())
        .max(m.vec_znx_mul_xp_minus_one_assign_tmp_bytes());
    match op {
        Op::AddInto => m.vec_znx_add_into(r, rc, a, ac, b, bc),
        Op::Sub => m.vec_znx_sub(r, rc, a, ac, b, bc),
        Op::AddAssign => m.vec_znx_add_assign(r, rc, a, ac),
        Op::SubAssign => m.vec_znx_sub_assign(r, rc, a, ac),
        Op::SubNegateAssign => m.vec_znx_sub_negate_assign(r, rc, a, ac),
        Op::Negate => m.vec_znx_negate(r, rc, a, ac),
        Op::NegateAssign => m.vec_znx_negate_assign(r, rc),
        Op::Copy => m.vec_znx_copy(r, rc, a, ac),
        Op::Zero => m.vec_znx_zero(r, rc),
        Op::AddScalarInto => m.vec_znx_add_scalar_into(r, rc, sc, scc, b, bc, p as usize),
        Op::SubScalar => m.vec_znx_sub_scalar(r, rc, sc, scc, b, bc, p as usize),
        Op::AddScalarAssign => m.vec_znx_add_scalar_assign(r, rc, p as usize, sc, scc),
        Op::SubScalarAssign => m.vec_znx_sub_scalar_assign(r, rc, p as usize, sc, scc),
        Op::Rotate => m.vec_znx_rotate(p, r, rc, a, ac),
        Op::MulXpMinusOne => m.vec_znx_mul_xp_minus_one(p, r, rc, a, ac),
        Op::Automorphism => m.vec_znx_automorphism(p, r, rc, a, ac),
        Op::RotateAssign => {
            let mut s = B::scratch(need);
            m.vec_znx_rotate_assign(p, r, rc, B::borrow(&mut s))
        }
        Op::MulXpMinusOneAssign => {
            let mut s = B::scratch(need);
            m.vec_znx_mul_xp_minus_one_assign(p, r, rc, B::borrow(&mut s))
        }
        Op::AutomorphismAssign => {
            let mut s = B::scratch(need);
            m.vec_znx_automorphism_assign(p, r, rc, B::borrow(&mut s))
        }
    }
}

pub fn exec<B: Bk>(c: &Case, only_p: Option<i64>, seed: u64, rec: &mut Rec)
where
    Module<B>: HalAll<B>,
{
    let m = B::module(if c.n.is_power_of_two() { c.n } else { 8 });
    let mut rng = Rng::new(seed, fnv(format!("{:?}", c).as_bytes()));
    let mut a = VecZnx::alloc(c.n, c.cols, c.a_s);
    let mut b = VecZnx::alloc(c.n, c.cols, c.bs);
    let mut r0 = VecZnx::alloc(c.n, c.cols, c.rs);
    let mut sc = ScalarZnx::alloc(c.n, c.cols);
    fill_vec(&mut a, 1, c.val, &mut rng);
    fill_vec(&mut b, 2, c.val, &mut rng);
    fill_vec(&mut r0, 3, c.val, &mut rng);
    fill_scalar(&mut sc, 4, c.val, &mut rng);
    let al = col_limbs(&a, c.ac);
    let bl = col_limbs(&b, c.bc);
    let r0l = col_limbs(&r0, c.rc);
    let scl = sc.at(c.ac, 0).to_vec();
    for p in c.op.params(c.n, c.rs, c.bs) {
        if let Some(q) = only_p {
            if q != p {
                continue;
            }
        }
        let mut r = crate::big::vclone(&r0);
        let res = guarded(|| call::<B>(&m, c.op, p, &mut r, c.rc, &a, c.ac, &b, c.bc, &sc, c.ac));
        rec.evals(1);
        let inner = json!({"p": p});
        if let Err(msg) = res {
            rec.fail(json!({"op": format!("{:?}", c.op), "backend": B::NAME, "kind": "panic", "case": c, "inner": inner, "panic": msg}));
            continue;
        }
        let want = model(c.op, p, c.n, c.rs, &r0l, &al, &bl, &scl);
        let got = col_limbs(&r, c.rc);
        rec.outcome(hash_i64s(&got.concat()));
        if let Some((j, i, g, w)) = first_diff(&got, &want) {
            rec.fail(json!({"op": format!("{:?}", c.op), "backend": B::NAME, "kind": "wrong_value", "case": c, "inner": inner,
                "limb": j, "index": i, "got": g, "want": w}));
        }
    }
    rec.distinct(fnv(format!("{:?}", c).as_bytes()));
    rec.sample(|| serde_json::to_value(c).unwrap());
}

fn cases<B: Bk>(tier: Tier) -> Vec<Case> {
    let mut out = vec![];
    let ns_pow2: Vec<usize> = tier.pick(vec![1, 2, 4, 8, 16, 32, 64], vec![1, 2, 4, 8, 16, 32, 64, 128, 256, 1024, 4096]);
    let ns_odd: Vec<usize> = tier.pick(vec![3, 5, 6, 7, 9, 12, 13], vec![3, 5, 6, 7, 9, 10, 11, 12, 13, 15, 17, 31, 33, 63, 65]);
    let smax = tier.pick(4, 5);
    for &op in ALL_OPS.iter() {
        let mut ns = ns_pow2.clone();
        if !op.needs_pow2() {
            ns.extend(ns_odd.iter());
        }
        for &n in &ns {
            // rotations/automorphisms enumerate O(N) parameters inside: keep shapes smaller at larger N
            let heavy = op.needs_pow2() && n >= 32;
            let very_heavy = op.needs_pow2() && n >= 256;
            let smax_n = if very_heavy {
                1
            } else if heavy {
                2
            } else if n >= 128 {
                2
            } else {
                smax
            };
            for rs in 1..=smax_n {
                for a_s in 1..=(if op.uses_a() { smax_n } else { 1 }) {
                    for bs in 1..=(if op.uses_b() { smax_n } else { 1 }) {
                        for cols in 1..=3usize {
                            // every (target, source) column pair; b's column = (ac+1)%cols to keep the product small
                            for rc in 0..cols {
                                for ac in 0..cols {
                                    if heavy && cols == 3 && (rc + ac) % 2 == 1 {
                                        continue;
                                    }
                                    if (very_heavy || n >= 128) && !(cols == 2 && rc == 1 && ac == 0) {
                                        continue;
                                    }
                                    let vals: &[Val] =
                                        if n <= 8 { &[Val::Tag, Val::Extreme, Val::Random] } else { &[Val::Tag, Val::Extreme] };
                                    for &val in vals {
                                        out.push(Case {
                                            op,
                                            backend: B::NAME.into(),
                                            n,
                                            cols,
                                            rs,
                                            a_s,
                                            bs,
                                            rc,
                                            ac,
                                            bc: (ac + 1) % cols,
                                            val,
                                        });
                                    }
                                }
                            }
                        }
                    }
                }
            }
        }
    }
    out
}

pub fn fam_vec<B: Bk>(run: &mut Run)
where
    Module<B>: HalAll<B>,
{
    let seed = run.seed;
    let cs = cases::<B>(run.tier);
    run.family(
        &format!("vec_znx/{}", B::NAME),
        "outer = (op, n, cols, res/a/b sizes, res/a/b column, value class); inner = every k in [-4N,4N] / every odd g in [-2N,4N) / every limb index; distinct = outer cases; oracle = index-level ring model, limb-exact",
        cs,
        |c, rec| exec::<B>(c, None, seed, rec),
    );
}

// ---------------------------------------------------------------------------------------------
// ring switching / split / merge
// ---------------------------------------------------------------------------------------------

#[derive(Clone, Debug, Serialize, Deserialize)]
pub struct RingCase {
    pub op: String, // switch | split | merge | split_merge
    pub backend: String,
    pub n_big: usize,
    pub n_small: usize,
    pub dir_up: bool,
    pub cols: usize,
    pub rs: usize,
    pub a_s: usize,
    pub rc: usize,
    pub ac: usize,
    pub val: Val,
    /// merge_rings only: part i holds a_s - (i % 2) limbs (at least 1) instead of a_s (the missing limbs count as zero)
    #[serde(default)]
    pub uneven: bool,
}

pub fn exec_ring<B: Bk>(c: &RingCase, seed: u64, rec: &mut Rec)
where
    Module<B>: HalAll<B>,
{
    let mut rng = Rng::new(seed, fnv(format!("{:?}", c).as_bytes()));
    let desc = |kind: &str, extra: Value| json!({"op": format!("vec_znx_{}", c.op), "backend": B::NAME, "kind": kind, "case": c, "detail": extra});
    rec.distinct(fnv(format!("{:?}", c).as_bytes()));
    rec.sample(|| serde_json::to_value(c).unwrap());
    match c.op.as_str() {
        "switch_ring" => {
            let (n_in, n_out) = if c.dir_up { (c.n_small, c.n_big) } else { (c.n_big, c.n_small) };
            let m = B::module(n_out.max(8));
            let mut a = VecZnx::alloc(n_in, c.cols, c.a_s);
            fill_vec(&mut a, 1, c.val, &mut rng);
            let mut r = garbage_vec(n_out, c.cols, c.rs, 0);
            let res = guarded(|| m.vec_znx_switch_ring(&mut r, c.rc, &a, c.ac));
            rec.evals(1);
            if let Err(msg) = res {
                rec.fail(desc("panic", json!(msg)));
                return;
            }
            let al = col_limbs(&a, c.ac);
            let want: Limbs = (0..c.rs).map(|j| if j < al.len() { ring::switch_ring(&al[j], n_out) } else { zeros(n_out) }).collect();
            let got = col_limbs(&r, c.rc);
            rec.outcome(hash_i64s(&got.concat()));
            if let Some((j, i, g, w)) = first_diff(&got, &want) {
                rec.fail(desc("wrong_value", json!({"limb": j, "index": i, "got": g, "want": w})));
            }
        }
        "split_ring" | "merge_rings" | "split_merge" => {
            let parts = c.n_big / c.n_small;
            let m_big = B::module(c.n_big);
            let mut s = B::scratch(m_big.vec_znx_split_ring_tmp_bytes().max(m_big.vec_znx_merge_rings_tmp_bytes()) + 64);
            if c.op == "split_ring" || c.op == "split_merge" {
                let mut a = VecZnx::alloc(c.n_big, c.cols, c.a_s);
                fill_vec(&mut a, 1, c.val, &mut rng);
                let mut rs: Vec<VecZnx<Vec<u8>>> = (0..parts).map(|_| garbage_vec(c.n_small, c.cols, c.rs, 0)).collect();
                let res = guarded(|| m_big.vec_znx_split_ring(&mut rs, c.rc, &a, c.ac, B::borrow(&mut s)));
                rec.evals(1);
                if let Err(msg) = res {
                    rec.fail(desc("panic", json!(msg)));
                    return;
                }
                let al = col_limbs(&a, c.ac);
                for j in 0..c.rs {
                    let want: Vec<Vec<i64>> =
                        if j < al.len() { ring::split_ring(&al[j], c.n_small) } else { vec![zeros(c.n_small); parts] };
                    for (i, w) in want.iter().enumerate() {
                        if rs[i].at(c.rc, j) != &w[..] {
                            rec.fail(desc(
                                "wrong_value",
                                json!({"stage":"split","part": i, "limb": j, "got": rs[i].at(c.rc, j), "want": w}),
                            ));
                            return;
                        }
                    }
                }
                if c.op == "split_merge" {
                    // law: merge(split(a)) == a on the limbs both hold
                    let mut back = garbage_vec(c.n_big, c.cols, c.rs, 1);
                    let res = guarded(|| m_big.vec_znx_merge_rings(&mut back, c.rc, &rs, c.rc, B::borrow(&mut s)));
                    rec.evals(1);
                    if let Err(msg) = res {
                        rec.fail(desc("panic", json!(msg)));
                        return;
                    }
                    for j in 0..c.rs {
                        let want = if j < al.len() { al[j].clone() } else { zeros(c.n_big) };
                        if back.at(c.rc, j) != &want[..] {
                            rec.fail(desc(
                                "wrong_value",
                                json!({"stage":"merge_of_split","limb": j, "got": back.at(c.rc, j), "want": want}),
                            ));
                            return;
                        }
                    }
                }
            } else {
                let part_size = |i: usize| if c.uneven { (c.a_s - (i % 2)).max(1) } else { c.a_s };
                let mut parts_v: Vec<VecZnx<Vec<u8>>> = (0..parts)
                    .map(|i| {
                        let mut v = VecZnx::alloc(c.n_small, c.cols, part_size(i));
                        fill_vec(&mut v, 10 + i as u64, c.val, &mut rng);
                        v
                    })
                    .collect();
                let _ = &mut parts_v;
                let mut r = garbage_vec(c.n_big, c.cols, c.rs, 0);
                let res = guarded(|| m_big.vec_znx_merge_rings(&mut r, c.rc, &parts_v, c.ac, B::borrow(&mut s)));
                rec.evals(1);
                if let Err(msg) = res {
                    rec.fail(desc("panic", json!(msg)));
                    return;
                }
                for j in 0..c.rs {
                    let want = if j < c.a_s {
                        let ps: Vec<Vec<i64>> =
                            parts_v.iter().enumerate().map(|(i, p)| if j < part_size(i) { p.at(c.ac, j).to_vec() } else { zeros(c.n_small) }).collect();
                        ring::merge_rings(&ps)
                    } else {
                        zeros(c.n_big)
                    };
                    if r.at(c.rc, j) != &want[..] {
                        rec.fail(desc("wrong_value", json!({"stage":"merge","limb": j, "got": r.at(c.rc, j), "want": want})));
                        return;
                    }
                }
                rec.outcome(hash_i64s(r.raw()));
            }
        }
        _ => unreachable!(),
    }
}

fn ring_cases<B: Bk>(tier: Tier) -> Vec<RingCase> {
    let mut out = vec![];
    let bigs: Vec<usize> = tier.pick(vec![2, 4, 8, 16, 32, 64], vec![2, 4, 8, 16, 32, 64, 128, 256, 1024, 4096]);
    for &n_big in &bigs {
        for ratio in [2usize, 4, 8, 16] {
            if n_big / ratio < 1 || n_big % ratio != 0 {
                continue;
            }
            let n_small = n_big / ratio;
            for op in ["switch_ring", "split_ring", "merge_rings", "split_merge"] {
                for dir_up in [false, true] {
                    if op != "switch_ring" && dir_up {
                        continue;
                    }
                    for rs in 1..=3usize {
                        for a_s in 1..=3usize {
                            for cols in 1..=2usize {
                                for rc in 0..cols {
                                    for ac in 0..cols {
                                        for val in [Val::Tag, Val::Extreme] {
                                            out.push(RingCase {
                                                op: op.into(),
                                                backend: B::NAME.into(),
                                                n_big,
                                                n_small,
                                                dir_up,
                                                cols,
                                                rs,
                                                a_s,
                                                rc,
                                                ac,
                                                val,
                                                uneven: false,
                                            });
                                        }
                                    }
                                }
                            }
                        }
                    }
                }
            }
        }
    }
    // same-degree switch (documented as a copy)
    for &n in &bigs {
        for rs in 1..=3usize {
            for a_s in 1..=3usize {
                out.push(RingCase {
                    op: "switch_ring".into(),
                    backend: B::NAME.into(),
                    n_big: n,
                    n_small: n,
                    dir_up: false,
                    cols: 2,
                    rs,
                    a_s,
                    rc: 1,
                    ac: 0,
                    val: Val::Tag,
                    uneven: false,
                });
            }
        }
    }
    // merge of parts with unequal limb counts
    let mut extra = vec![];
    for c in out.iter() {
        if c.op == "merge_rings" && c.a_s >= 2 && c.val == Val::Tag {
            let mut d = c.clone();
            d.uneven = true;
            extra.push(d);
        }
    }
    out.extend(extra);
    out
}

pub fn fam_ring<B: Bk>(run: &mut Run)
where
    Module<B>: HalAll<B>,
{
    let seed = run.seed;
    let cs = ring_cases::<B>(run.tier);
    run.family(
        &format!("ring_switch/{}", B::NAME),
        "outer = (switch|split|merge|merge-after-split, n_big, ratio 2..16, direction, cols, sizes, columns, value class); oracle = index definition; law merge(split(a)) = a",
        cs,
        |c, rec| exec_ring::<B>(c, seed, rec),
    );
}

// ---------------------------------------------------------------------------------------------
// group laws (pairs)
// ---------------------------------------------------------------------------------------------

#[derive(Clone, Debug, Serialize, Deserialize)]
pub struct LawCase {
    pub law: String,
    pub backend: String,
    pub n: usize,
}

pub fn exec_law<B: Bk>(c: &LawCase, seed: u64, rec: &mut Rec)
where
    Module<B>: HalAll<B>,
{
    let n = c.n;
    let m = B::module(n);
    let mut rng = Rng::new(seed, n as u64);
    let mut a = VecZnx::alloc(n, 1, 2);
    fill_vec(&mut a, 1, Val::Tag, &mut rng);
    let desc = |kind: &str, extra: Value| json!({"op": format!("law_{}", c.law), "backend": B::NAME, "kind": kind, "case": c, "detail": extra});
    rec.distinct(fnv(format!("{:?}", c).as_bytes()));
    let two_n = 2 * n as i64;
    match c.law.as_str() {
        "rotate_compose" => {
            // rotate(j) after rotate(k) == rotate(j+k); rotate(2N) = id; rotate(N) = negate
            for k in -two_n..=two_n {
                let mut t = VecZnx::alloc(n, 1, 2);
                m.vec_znx_rotate(k, &mut t, 0, &a, 0);
                for j in -two_n..=two_n {
                    let mut u = VecZnx::alloc(n, 1, 2);
                    let mut w = VecZnx::alloc(n, 1, 2);
                    m.vec_znx_rotate(j, &mut u, 0, &t, 0);
                    m.vec_znx_rotate(j + k, &mut w, 0, &a, 0);
                    rec.evals(1);
                    if u.raw() != w.raw() {
                        rec.fail(desc("law_violation", json!({"k": k, "j": j})));
                        return;
                    }
                }
            }
            let mut u = VecZnx::alloc(n, 1, 2);
            m.vec_znx_rotate(two_n, &mut u, 0, &a, 0);
            if u.raw() != a.raw() {
                rec.fail(desc("law_violation", json!("rotate(2N) != id")));
            }
            let mut w = VecZnx::alloc(n, 1, 2);
            m.vec_znx_rotate(n as i64, &mut u, 0, &a, 0);
            m.vec_znx_negate(&mut w, 0, &a, 0);
            if u.raw() != w.raw() {
                rec.fail(desc("law_violation", json!("rotate(N) != negate")));
            }
        }
        "automorphism_compose" => {
            for g in (1..two_n).step_by(2) {
                let mut t = VecZnx::alloc(n, 1, 2);
                m.vec_znx_automorphism(g, &mut t, 0, &a, 0);
                for h in (1..two_n).step_by(2) {
                    let mut u = VecZnx::alloc(n, 1, 2);
                    let mut w = VecZnx::alloc(n, 1, 2);
                    m.vec_znx_automorphism(h, &mut u, 0, &t, 0);
                    m.vec_znx_automorphism((g * h) % two_n, &mut w, 0, &a, 0);
                    rec.evals(1);
                    if u.raw() != w.raw() {
                        rec.fail(desc("law_violation", json!({"g": g, "h": h})));
                        return;
                    }
                }
                // inverse through the library's own galois_element_inv
                let gi = m.galois_element_inv(g);
                let mut u = VecZnx::alloc(n, 1, 2);
                m.vec_znx_automorphism(gi, &mut u, 0, &t, 0);
                rec.evals(1);
                if u.raw() != a.raw() {
                    rec.fail(desc("law_violation", json!({"g": g, "galois_element_inv": gi, "what": "auto(g_inv) o auto(g) != id"})));
                    return;
                }
                if (gi.rem_euclid(two_n) * g) % two_n != 1 {
                    rec.fail(desc("wrong_value", json!({"g": g, "galois_element_inv": gi})));
                    return;
                }
            }
        }
        "galois_element" => {
            // galois_element(e) == sign(e) * 5^|e| mod 2N for every exponent in [-2N, 2N]; inverse law on negatives too
            for e in -two_n..=two_n {
                let got = m.galois_element(e);
                let mut want: i64 = 1;
                for _ in 0..e.unsigned_abs() {
                    want = (want * 5) % two_n;
                }
                if e < 0 {
                    want = -want;
                }
                if e == 0 {
                    want = 1;
                }
                rec.evals(1);
                if got != want {
                    rec.fail(desc("wrong_value", json!({"exponent": e, "got": got, "want": want})));
                    return;
                }
                // signed convention: automorphism with a negative element g behaves as g mod 2N
                let gi = m.galois_element_inv(got);
                let mut t = VecZnx::alloc(n, 1, 2);
                let mut u = VecZnx::alloc(n, 1, 2);
                m.vec_znx_automorphism(got, &mut t, 0, &a, 0);
                m.vec_znx_automorphism(gi, &mut u, 0, &t, 0);
                rec.evals(1);
                if u.raw() != a.raw() {
                    rec.fail(desc("law_violation", json!({"exponent": e, "g": got, "g_inv": gi})));
                    return;
                }
            }
        }
        _ => unreachable!(),
    }
}

fn fam_laws<B: Bk>(run: &mut Run)
where
    Module<B>: HalAll<B>,
{
    let seed = run.seed;
    let mut cs = vec![];
    for n in run.tier.pick(vec![8usize, 16, 32, 64], vec![8usize, 16, 32, 64, 128, 256]) {
        for law in ["rotate_compose", "automorphism_compose", "galois_element"] {
            cs.push(LawCase {
                law: law.into(),
                backend: B::NAME.into(),
                n,
            });
        }
    }
    run.family(
        &format!("laws/{}", B::NAME),
        "all pairs (j,k) in [-2N,2N]^2 for rotations, all pairs of odd (g,h) mod 2N for automorphisms, every exponent in [-2N,2N] for galois_element / galois_element_inv",
        cs,
        |c, rec| exec_law::<B>(c, seed, rec),
    );
}

// ---------------------------------------------------------------------------------------------
// big accumulators
// ---------------------------------------------------------------------------------------------

#[derive(Clone, Copy, Debug, PartialEq, Eq, Serialize, Deserialize)]
pub enum BigOp {
    AddInto,
    AddAssign,
    AddSmallInto,
    AddSmallAssign,
    Sub,
    SubAssign,
    SubNegateAssign,
    SubSmallA,
    SubSmallB,
    SubSmallAssign,
    SubSmallNegateAssign,
    Negate,
    NegateAssign,
    FromSmall,
    Automorphism,
    AutomorphismAssign,
}

pub const BIG_OPS: [BigOp; 16] = [
    BigOp::AddInto,
    BigOp::AddAssign,
    BigOp::AddSmallInto,
    BigOp::AddSmallAssign,
    BigOp::Sub,
    BigOp::SubAssign,
    BigOp::SubNegateAssign,
    BigOp::SubSmallA,
    BigOp::SubSmallB,
    BigOp::SubSmallAssign,
    BigOp::SubSmallNegateAssign,
    BigOp::Negate,
    BigOp::NegateAssign,
    BigOp::FromSmall,
    BigOp::Automorphism,
    BigOp::AutomorphismAssign,
];

#[derive(Clone, Debug, Serialize, Deserialize)]
pub struct BigCase {
    pub op: BigOp,
    pub backend: String,
    pub n: usize,
    pub cols: usize,
    pub rs: usize,
    pub a_s: usize,
    pub bs: usize,
    pub rc: usize,
    pub ac: usize,
    pub bc: usize,
    pub val: Val,
}

fn big_fill<B: Bk>(v: &mut BigBuf<B>, operand: u64, val: Val, rng: &mut Rng) {
    let wide = B::size_of_scalar_big() == 16;
    for c in 0..v.cols() {
        for j in 0..v.size() {
            let xs: Vec<i128> = (0..v.n())
                .map(|i| match val {
                    Val::Tag => {
                        let t = ((operand * 8 + c as u64) << 44 | (j as u64) << 36 | (i as u64 + 1)) as i128;
                        let t = if wide { t << 40 } else { t };
                        if (i + j + c) % 3 == 1 { -t } else { t }
                    }
                    Val::Extreme => {
                        if wide {
                            const M: i128 = (1 << 126) - 1;
                            const E: [i128; 6] = [-M, M, -1, 1, -M + 1, 1 << 125];
                            E[(i + 3 * j + 5 * c + operand as usize) % 6]
                        } else {
                            const M: i64 = (1 << 62) - 1;
                            const E: [i64; 6] = [-M, M, -1, 1, -M + 1, 1 << 61];
                            E[(i + 3 * j + 5 * c + operand as usize) % 6] as i128
                        }
                    }
                    Val::Random => {
                        if wide {
                            (((rng.next() as u128) << 64 | rng.next() as u128) as i128) >> 2
                        } else {
                            ((rng.next() as i64) >> 2) as i128
                        }
                    }
                })
                .collect();
            v.set(c, j, &xs);
        }
    }
}

fn wrap<B: Bk>(x: i128) -> i128 {
    if B::size_of_scalar_big() == 16 { x } else { x as i64 as i128 }
}

pub fn exec_big<B: Bk>(c: &BigCase, only_p: Option<i64>, seed: u64, rec: &mut Rec)
where
    Module<B>: HalAll<B>,
{
    let n = c.n;
    let m = B::module(n);
    let mut rng = Rng::new(seed, fnv(format!("{:?}", c).as_bytes()));
    let mut a = big_alloc::<B>(&m, c.cols, c.a_s);
    let mut b = big_alloc::<B>(&m, c.cols, c.bs);
    let mut r0 = big_alloc::<B>(&m, c.cols, c.rs);
    big_fill::<B>(&mut a, 1, c.val, &mut rng);
    big_fill::<B>(&mut b, 2, c.val, &mut rng);
    big_fill::<B>(&mut r0, 3, c.val, &mut rng);
    let mut sa = VecZnx::alloc(n, c.cols, c.a_s);
    let mut sb = VecZnx::alloc(n, c.cols, c.bs);
    fill_vec(&mut sa, 5, c.val, &mut rng);
    fill_vec(&mut sb, 6, c.val, &mut rng);
    let z = vec![0i128; n];
    let bigl = |v: &BigBuf<B>, col: usize, j: usize| -> Vec<i128> { if j < v.size() { v.get(col, j) } else { z.clone() } };
    let sml = |v: &VecZnx<Vec<u8>>, col: usize, j: usize| -> Vec<i128> {
        if j < v.size() { v.at(col, j).iter().map(|x| *x as i128).collect() } else { z.clone() }
    };
    let params: Vec<i64> = match c.op {
        BigOp::Automorphism | BigOp::AutomorphismAssign => (-2 * n as i64..4 * n as i64).filter(|g| g & 1 == 1).collect(),
        _ => vec![0],
    };
    rec.distinct(fnv(format!("{:?}", c).as_bytes()));
    rec.sample(|| serde_json::to_value(c).unwrap());
    for p in params {
        if let Some(q) = only_p {
            if q != p {
                continue;
            }
        }
        let mut r = r0.clone_buf();
        let (rc, ac, bc) = (c.rc, c.ac, c.bc);
        let res = guarded(|| {
            let mut s = B::scratch(m.vec_znx_big_automorphism_assign_tmp_bytes() + 64);
            match c.op {
                BigOp::AddInto => m.vec_znx_big_add_into(&mut r.v, rc, &a.v, ac, &b.v, bc),
                BigOp::AddAssign => m.vec_znx_big_add_assign(&mut r.v, rc, &a.v, ac),
                BigOp::AddSmallInto => m.vec_znx_big_add_small_into(&mut r.v, rc, &a.v, ac, &sb, bc),
                BigOp::AddSmallAssign => m.vec_znx_big_add_small_assign(&mut r.v, rc, &sa, ac),
                BigOp::Sub => m.vec_znx_big_sub(&mut r.v, rc, &a.v, ac, &b.v, bc),
                BigOp::SubAssign => m.vec_znx_big_sub_assign(&mut r.v, rc, &a.v, ac),
                BigOp::SubNegateAssign => m.vec_znx_big_sub_negate_assign(&mut r.v, rc, &a.v, ac),
                BigOp::SubSmallA => m.vec_znx_big_sub_small_a(&mut r.v, rc, &sa, ac, &b.v, bc),
                BigOp::SubSmallB => m.vec_znx_big_sub_small_b(&mut r.v, rc, &a.v, ac, &sb, bc),
                BigOp::SubSmallAssign => m.vec_znx_big_sub_small_assign(&mut r.v, rc, &sa, ac),
                BigOp::SubSmallNegateAssign => m.vec_znx_big_sub_small_negate_assign(&mut r.v, rc, &sa, ac),
                BigOp::Negate => m.vec_znx_big_negate(&mut r.v, rc, &a.v, ac),
                BigOp::NegateAssign => m.vec_znx_big_negate_assign(&mut r.v, rc),
                BigOp::FromSmall => m.vec_znx_big_from_small(&mut r.v, rc, &sa, ac),
                BigOp::Automorphism => m.vec_znx_big_automorphism(p, &mut r.v, rc, &a.v, ac),
                BigOp::AutomorphismAssign => m.vec_znx_big_automorphism_assign(p, &mut r.v, rc, B::borrow(&mut s)),
            }
        });
        rec.evals(1);
        let inner = json!({"p": p});
        if let Err(msg) = res {
            rec.fail(json!({"op": format!("big_{:?}", c.op), "backend": B::NAME, "kind": "panic", "case": c, "inner": inner, "panic": msg}));
            continue;
        }
        for j in 0..c.rs {
            let r0j = r0.get(rc, j);
            let zip2 = |x: &[i128], y: &[i128], f: &dyn Fn(i128, i128) -> i128| -> Vec<i128> {
                x.iter().zip(y).map(|(p, q)| wrap::<B>(f(*p, *q))).collect()
            };
            let addf = |x: i128, y: i128| x.wrapping_add(y);
            let subf = |x: i128, y: i128| x.wrapping_sub(y);
            let auto = |x: &[i128]| -> Vec<i128> {
                let two_n = 2 * n as i64;
                let gg = p.rem_euclid(two_n);
                let mut out = vec![0i128; n];
                for (i, &cf) in x.iter().enumerate() {
                    let e = (i as i64 * gg) % two_n;
                    if e < n as i64 { out[e as usize] = cf } else { out[(e - n as i64) as usize] = wrap::<B>(cf.wrapping_neg()) }
                }
                out
            };
            let want: Vec<i128> = match c.op {
                BigOp::AddInto => zip2(&bigl(&a, ac, j), &bigl(&b, bc, j), &addf),
                BigOp::AddAssign => zip2(&r0j, &bigl(&a, ac, j), &addf),
                BigOp::AddSmallInto => zip2(&bigl(&a, ac, j), &sml(&sb, bc, j), &addf),
                BigOp::AddSmallAssign => zip2(&r0j, &sml(&sa, ac, j), &addf),
                BigOp::Sub => zip2(&bigl(&a, ac, j), &bigl(&b, bc, j), &subf),
                BigOp::SubAssign => zip2(&r0j, &bigl(&a, ac, j), &subf),
                BigOp::SubNegateAssign => zip2(&bigl(&a, ac, j), &r0j, &subf),
                BigOp::SubSmallA => zip2(&sml(&sa, ac, j), &bigl(&b, bc, j), &subf),
                BigOp::SubSmallB => zip2(&bigl(&a, ac, j), &sml(&sb, bc, j), &subf),
                BigOp::SubSmallAssign => zip2(&r0j, &sml(&sa, ac, j), &subf),
                BigOp::SubSmallNegateAssign => zip2(&sml(&sa, ac, j), &r0j, &subf),
                BigOp::Negate => bigl(&a, ac, j).iter().map(|x| wrap::<B>(x.wrapping_neg())).collect(),
                BigOp::NegateAssign => r0j.iter().map(|x| wrap::<B>(x.wrapping_neg())).collect(),
                BigOp::FromSmall => sml(&sa, ac, j),
                BigOp::Automorphism => auto(&bigl(&a, ac, j)),
                BigOp::AutomorphismAssign => auto(&r0j),
            };
            let got = r.get(rc, j);
            if got != want {
                let i = got.iter().zip(&want).position(|(x, y)| x != y).unwrap();
                rec.fail(json!({"op": format!("big_{:?}", c.op), "backend": B::NAME, "kind": "wrong_value", "case": c, "inner": inner,
                    "limb": j, "index": i, "got": got[i].to_string(), "want": want[i].to_string()}));
                break;
            }
        }
    }
}

fn big_cases<B: Bk>(tier: Tier) -> Vec<BigCase> {
    let mut out = vec![];
    let smax = tier.pick(3, 4);
    for &op in BIG_OPS.iter() {
        let uses_b = matches!(op, BigOp::AddInto | BigOp::AddSmallInto | BigOp::Sub | BigOp::SubSmallA | BigOp::SubSmallB);
        let uses_a = !matches!(op, BigOp::NegateAssign | BigOp::AutomorphismAssign);
        for &n in tier.pick(&[1usize, 2, 4, 8, 16, 32][..], &[1usize, 2, 4, 8, 16, 32, 64, 128, 256][..]) {
            for rs in 1..=smax {
                for a_s in 1..=(if uses_a { smax } else { 1 }) {
                    for bs in 1..=(if uses_b { smax } else { 1 }) {
                        for cols in 1..=2usize {
                            for rc in 0..cols {
                                for ac in 0..cols {
                                    for val in [Val::Tag, Val::Extreme] {
                                        out.push(BigCase {
                                            op,
                                            backend: B::NAME.into(),
                                            n,
                                            cols,
                                            rs,
                                            a_s,
                                            bs,
                                            rc,
                                            ac,
                                            bc: (ac + 1) % cols,
                                            val,
                                        });
                                    }
                                }
                            }
                        }
                    }
                }
            }
        }
    }
    out
}

pub fn fam_big<B: Bk>(run: &mut Run)
where
    Module<B>: HalAll<B>,
{
    let seed = run.seed;
    let cs = big_cases::<B>(run.tier);
    run.family(
        &format!("vec_znx_big/{}", B::NAME),
        "outer = (op, n, cols, sizes, columns, value class) on i64 (FFT64) / i128 (NTT120) accumulators; inner = every odd g for automorphisms; oracle = limb-wise wrapping model",
        cs,
        |c, rec| exec_big::<B>(c, None, seed, rec),
    );
}

pub fn run(run: &mut Run) {
    run.assume("operand digits are bounded by 2^62-1 (2^126-1 on i128 accumulators) so that no limb-wise sum, difference or negation overflows: the reference kernels use plain +/- and overflow is outside the admissible domain; operands share the ring degree");
    run.assume("coefficient-domain operations at N<8 run on a handle-less Module::new_marker (public API); DFT tables are not involved");
    for_backends!(fam_vec(run));
    for_backends!(fam_ring(run));
    for_backends!(fam_laws(run));
    for_backends!(fam_big(run));
}

pub fn replay(run: &mut Run, d: &Value) {
    let backend = d["backend"].as_str().unwrap_or("").to_string();
    let fam = d["family"].as_str().unwrap_or("").to_string();
    let seed = d["seed"].as_u64().unwrap_or(0);
    let p = d.get("inner").and_then(|i| i.get("p")).and_then(|p| p.as_i64());
    macro_rules! go {
        ($B:ty) => {{
            if fam.starts_with("vec_znx_big") {
                let c: BigCase = serde_json::from_value(d["case"].clone()).unwrap();
                run.single(&fam, "replay", |rec| exec_big::<$B>(&c, p, seed, rec));
            } else if fam.starts_with("vec_znx") {
                let c: Case = serde_json::from_value(d["case"].clone()).unwrap();
                run.single(&fam, "replay", |rec| exec::<$B>(&c, p, seed, rec));
            } else if fam.starts_with("ring_switch") {
                let c: RingCase = serde_json::from_value(d["case"].clone()).unwrap();
                run.single(&fam, "replay", |rec| exec_ring::<$B>(&c, seed, rec));
            } else {
                let c: LawCase = serde_json::from_value(d["case"].clone()).unwrap();
                run.single(&fam, "replay", |rec| exec_law::<$B>(&c, seed, rec));
            }
        }};
    }
    match backend.as_str() {
        "fft64-ref" => go!(crate::be::FFT64Ref),
        "ntt120-ref" => go!(crate::be::NTT120Ref),
        "fft64-avx" => go!(crate::be::FFT64Avx),
        "ntt120-avx" => go!(crate::be::NTT120Avx),
        o => panic!("unknown backend {o}"),
    }
}

//! Generic driver for DFT-domain HAL operations (transforms, transform-domain arithmetic, scalar-vector,
//! vector-matrix and convolution products, sampling).  One case descriptor, one executor; the executor
//! reports the raw bytes of the selected output column (native domain), a canonical coefficient-domain
//! value of it (exact integers obtained through the library's own inverse transform), every write
//! outside the selected output, every modification of a read-only operand and the state of the
//! canaries around exact-size scratch windows.  C07 (values), C10 (cross backend), C11 (metamorphic),
//! C12 (scratch) and C17 (ASan) all drive this executor.

use crate::be::{Bk, Family, HalAll};
use crate::big::aligned_copy;
use poulpy_hal::alloc_aligned;
use poulpy_hal::api::*;
use poulpy_hal::layouts::{
    CnvPVecL, CnvPVecR, DataView, DataViewMut, MatZnx, Module, ScalarZnx, Scratch, SvpPPol, VecZnx, VecZnxBig, VecZnxDft, VmpPMat, ZnxInfos, ZnxView,
    ZnxViewMut,
};
use pvc_engine::guarded;
use pvc_engine::rng::{Rng, garbage};
use serde::{Deserialize, Serialize};

#[derive(Clone, Debug, Serialize, Deserialize, PartialEq, Eq, Hash)]
pub struct OpCase {
    pub op: String,
    pub n: usize,
    /// limb radix of the operand digits
    pub b: usize,
    pub cols: usize,
    pub rs: usize,
    pub a_s: usize,
    pub bs: usize,
    pub rc: usize,
    pub ac: usize,
    pub bc: usize,
    /// first parameter (step / limb_offset / cnv_offset / a_scale / pairwise i)
    pub p: i64,
    /// second parameter (offset / pairwise j / mask bits cleared)
    pub q: i64,
    /// matrix rows / cols_in / cols_out / size (vmp only)
    pub rows: usize,
    pub cin: usize,
    pub cout: usize,
    pub ms: usize,
    /// value class: 0 random, 1 all digits +max (aligned signs), 2 all digits -min, 3 alternating extremes, 4 sparse units, 5 zero
    pub val: u8,
    /// convolutions only: extra columns of the left / right prepared operand (and of the vector it is prepared from)
    /// beyond `cols`, and signed difference between the prepared size and the size of the vector it is prepared from
    /// (negative: the preparation truncates; positive: it zero-pads). `cnv_self` uses `xl` / `el` for both sides.
    #[serde(default)]
    pub xl: u8,
    #[serde(default)]
    pub xr: u8,
    #[serde(default)]
    pub el: i8,
    #[serde(default)]
    pub er: i8,
}

/// (prepared size left, prepared size right, limbs of a that take part, limbs of b that take part)
pub fn cnv_sizes(c: &OpCase) -> (usize, usize, usize, usize) {
    let is_self = c.op == "cnv_self_apply_dft";
    let r_size = if is_self { c.a_s } else { c.bs };
    let pls = (c.a_s as i64 + c.el as i64).max(1) as usize;
    let prs = if is_self { pls } else { (r_size as i64 + c.er as i64).max(1) as usize };
    (pls, prs, pls.min(c.a_s), prs.min(r_size))
}

impl OpCase {
    pub fn base(op: &str, n: usize, b: usize) -> OpCase {
        OpCase {
            op: op.into(),
            n,
            b,
            cols: 1,
            rs: 1,
            a_s: 1,
            bs: 1,
            rc: 0,
            ac: 0,
            bc: 0,
            p: 0,
            q: 0,
            rows: 1,
            cin: 1,
            cout: 1,
            ms: 1,
            val: 0,
            xl: 0,
            xr: 0,
            el: 0,
            er: 0,
        }
    }
}

#[derive(Clone, Copy, Debug, PartialEq, Eq)]
pub enum ScratchMode {
    /// ScratchOwned::alloc(tmp_bytes) (rounded up to 64 bytes by the library)
    Owned,
    /// exact-size window of `tmp_bytes` bytes between canaries, pre-filled with garbage pattern `fill`
    Exact(usize),
}

#[derive(Clone, Copy, Debug)]
pub struct Opts {
    pub garbage: usize,
    pub scratch: ScratchMode,
    pub seed: u64,
}

#[derive(Default, Debug)]
pub struct OpOut {
    pub panic: Option<String>,
    /// bytes of the selected output column, active limbs only, native domain
    pub raw: Vec<u8>,
    /// exact coefficient-domain value of the selected output column: [limb][coeff]
    pub canon: Vec<Vec<i128>>,
    /// writes outside the selected output / modified read-only operands / scratch canary damage
    pub issues: Vec<String>,
    /// bytes of scratch requested by the companion query (sum over stages)
    pub tmp_bytes: usize,
}

// ---------------------------------------------------------------------------------------------
// inputs
// ---------------------------------------------------------------------------------------------

pub struct Inputs {
    pub a: VecZnx<Vec<u8>>,
    pub b: VecZnx<Vec<u8>>,
    pub r0: VecZnx<Vec<u8>>,
    pub sc: ScalarZnx<Vec<u8>>,
    pub mat: MatZnx<Vec<u8>>,
    pub cst: Vec<i64>,
}

fn digit_of(class: u8, b: usize, idx: usize, rng: &mut Rng) -> i64 {
    let hi = (1i64 << (b - 1)) - 1;
    let lo = -(1i64 << (b - 1));
    match class {
        0 => rng.digit(b),
        1 => hi,
        2 => lo,
        3 => {
            if idx % 2 == 0 { hi } else { lo }
        }
        4 => {
            if idx % 5 == 1 { 1 } else { 0 }
        }
        _ => 0,
    }
}

fn fill_digits(v: &mut VecZnx<Vec<u8>>, class: u8, b: usize, rng: &mut Rng) {
    for x in v.raw_mut().iter_mut().enumerate() {
        *x.1 = digit_of(class, b, x.0, rng);
    }
}

pub fn build_inputs(c: &OpCase, seed: u64) -> Inputs {
    let mut rng = Rng::new(seed, pvc_engine::fnv(format!("{:?}", c).as_bytes()));
    let mut a = VecZnx::alloc(c.n, c.cols.max(c.cin), c.a_s);
    let mut b = VecZnx::alloc(c.n, c.cols, c.bs);
    let mut r0 = VecZnx::alloc(c.n, c.cols.max(c.cout), c.rs);
    let mut sc = ScalarZnx::alloc(c.n, c.cols);
    let mut mat = MatZnx::alloc(c.n, c.rows, c.cin, c.cout, c.ms);
    fill_digits(&mut a, c.val, c.b, &mut rng);
    // the second operand uses the same class except for "sparse" where a dense partner is more telling
    fill_digits(&mut b, if c.val == 4 { 0 } else { c.val }, c.b, &mut rng);
    fill_digits(&mut r0, if c.val == 5 { 5 } else { 0 }, c.b, &mut rng);
    for (i, x) in sc.raw_mut().iter_mut().enumerate() {
        // scalar operands are small polynomials (secret keys, monomials): ternary, or extreme when the class asks for it
        *x = match c.val {
            1 => 1,
            2 => -1,
            3 => {
                if i % 2 == 0 { 1 } else { -1 }
            }
            4 => {
                if i % 7 == 2 { 1 } else { 0 }
            }
            5 => 0,
            _ => rng.range_i64(-1, 1),
        };
    }
    {
        let cls = if c.val == 4 { 0 } else { c.val };
        for r in 0..c.rows {
            for ci in 0..c.cin {
                let mut v = mat.at_mut(r, ci);
                for (i, x) in v.raw_mut().iter_mut().enumerate() {
                    *x = digit_of(cls, c.b, i, &mut rng);
                }
            }
        }
    }
    let cst: Vec<i64> = (0..c.bs).map(|i| digit_of(if c.val == 4 { 0 } else { c.val }, c.b, i, &mut rng)).collect();
    Inputs { a, b, r0, sc, mat, cst }
}

// ---------------------------------------------------------------------------------------------
// buffers with layout knowledge
// ---------------------------------------------------------------------------------------------

#[derive(Clone, Copy)]
pub struct Lay {
    pub n: usize,
    pub cols: usize,
    pub w: usize,
}

impl Lay {
    pub fn range(&self, col: usize, limb: usize) -> std::ops::Range<usize> {
        let s = self.n * (limb * self.cols + col) * self.w;
        s..s + self.n * self.w
    }
}

/// differences outside the selected (col, limbs < active) region
pub fn stray_writes(before: &[u8], after: &[u8], lay: Lay, col: usize, active: usize, what: &str) -> Option<String> {
    let mut allowed = vec![false; before.len()];
    for j in 0..active {
        let r = lay.range(col, j);
        if r.end <= allowed.len() {
            for x in &mut allowed[r] {
                *x = true;
            }
        }
    }
    for i in 0..before.len() {
        if !allowed[i] && before[i] != after[i] {
            let poly = i / (lay.n * lay.w);
            return Some(format!(
                "{what}: byte {i} modified outside the selected output (limb {}, column {}, coefficient {})",
                poly / lay.cols,
                poly % lay.cols,
                (i % (lay.n * lay.w)) / lay.w
            ));
        }
    }
    None
}

fn dft_buf<B: Bk>(n: usize, cols: usize, size: usize, extra: usize, fill: usize) -> VecZnxDft<Vec<u8>, B> {
    let bytes = B::bytes_of_vec_znx_dft(n, cols, size + extra);
    let mut data = alloc_aligned::<u8>(bytes);
    garbage(&mut data, fill);
    let mut v = VecZnxDft::from_data(data, n, cols, size + extra);
    v.size = size;
    v
}

fn big_buf<B: Bk>(n: usize, cols: usize, size: usize, extra: usize, fill: usize) -> VecZnxBig<Vec<u8>, B> {
    let bytes = B::bytes_of_vec_znx_big(n, cols, size + extra);
    let mut data = alloc_aligned::<u8>(bytes);
    garbage(&mut data, fill);
    let mut v = VecZnxBig::from_data(data, n, cols, size + extra);
    v.size = size;
    v
}

#[allow(dead_code)]
fn vec_buf(n: usize, cols: usize, size: usize, extra: usize, fill: usize) -> VecZnx<Vec<u8>> {
    let mut v = VecZnx::alloc(n, cols, size + extra);
    garbage(&mut v.data, fill);
    v.size = size;
    v
}

pub fn big_limb<B: Bk>(v: &VecZnxBig<Vec<u8>, B>, col: usize, limb: usize) -> Vec<i128> {
    let w = B::size_of_scalar_big();
    let o = v.n * (limb * v.cols + col) * w;
    (0..v.n)
        .map(|i| {
            let s = &v.data[o + i * w..o + (i + 1) * w];
            if w == 16 { i128::from_le_bytes(s.try_into().unwrap()) } else { i64::from_le_bytes(s.try_into().unwrap()) as i128 }
        })
        .collect()
}

// ---------------------------------------------------------------------------------------------
// scratch
// ---------------------------------------------------------------------------------------------

const CANARY: u8 = 0xC5;

/// Runs `f` with a scratch of `bytes` bytes prepared according to `mode`; reports canary damage into `issues`.
pub fn with_scratch<B: Bk, T>(bytes: usize, o: &Opts, issues: &mut Vec<String>, f: impl FnOnce(&mut Scratch<B>) -> T) -> T {
    match o.scratch {
        ScratchMode::Owned => {
            let mut s = B::scratch(bytes);
            f(B::borrow(&mut s))
        }
        ScratchMode::Exact(fill) => {
            let pad = 128usize;
            let mut buf = alloc_aligned::<u8>(pad + bytes + pad + 64);
            buf.fill(CANARY);
            garbage(&mut buf[pad..pad + bytes], fill);
            let r = {
                let window = &mut buf[pad..pad + bytes];
                f(B::scratch_from_bytes(window))
            };
            if buf[..pad].iter().any(|x| *x != CANARY) {
                issues.push(format!("scratch: bytes before the {bytes}-byte window were modified"));
            }
            if buf[pad + bytes..].iter().any(|x| *x != CANARY) {
                issues.push(format!("scratch: bytes after the {bytes}-byte window were modified"));
            }
            r
        }
    }
}

// ---------------------------------------------------------------------------------------------
// executor
// ---------------------------------------------------------------------------------------------

fn digest(bytes: &[u8]) -> u64 {
    pvc_engine::fnv(bytes)
}

/// inverse transform of one column of a DFT vector into exact integers (uses the library's idft on a copy)
pub fn canon_of_dft<B: Bk>(m: &Module<B>, v: &VecZnxDft<Vec<u8>, B>, col: usize) -> Vec<Vec<i128>>
where
    Module<B>: HalAll<B>,
{
    let size = v.size;
    if size == 0 {
        return vec![];
    }
    let mut big = big_buf::<B>(v.n, 1, size, 0, 2);
    let mut s = B::scratch(m.vec_znx_idft_apply_tmp_bytes() + 64);
    m.vec_znx_idft_apply(&mut big, 0, v, col, B::borrow(&mut s));
    (0..size).map(|j| big_limb::<B>(&big, 0, j)).collect()
}

fn col_bytes(data: &[u8], lay: Lay, col: usize, active: usize) -> Vec<u8> {
    let mut out = Vec::with_capacity(active * lay.n * lay.w);
    for j in 0..active {
        out.extend_from_slice(&data[lay.range(col, j)]);
    }
    out
}

pub const DFT_OPS: [&str; 12] = [
    "dft_apply",
    "dft_copy",
    "dft_add_into",
    "dft_add_assign",
    "dft_add_scaled_assign",
    "dft_sub",
    "dft_sub_assign",
    "dft_sub_negate_assign",
    "dft_zero",
    "idft_apply",
    "idft_apply_tmpa",
    "idft_apply_consume",
];
pub const SVP_OPS: [&str; 3] = ["svp_apply_dft", "svp_apply_dft_to_dft", "svp_apply_dft_to_dft_assign"];
pub const VMP_OPS: [&str; 2] = ["vmp_apply_dft", "vmp_apply_dft_to_dft"];
pub const CNV_OPS: [&str; 4] = ["cnv_apply_dft", "cnv_pairwise_apply_dft", "cnv_by_const_apply", "cnv_self_apply_dft"];
pub const CHAIN_OPS: [&str; 1] = ["dft_chain"];

/// Executes one case against backend B.
pub fn run_op<B: Bk>(c: &OpCase, o: &Opts) -> OpOut
where
    Module<B>: HalAll<B>,
{
    let inp = build_inputs(c, o.seed);
    let m = B::module(c.n);
    let mut out = OpOut::default();
    let wp = B::size_of_scalar_prep();
    let wb = B::size_of_scalar_big();
    let n = c.n;
    let a_dig = digest(&inp.a.data);
    let b_dig = digest(&inp.b.data);
    let sc_dig = digest(&inp.sc.data);
    let mat_dig = digest(inp.mat.data());
    let extra = 1usize; // unused capacity beyond the active size of every result buffer

    // forward transforms of operands (library's own, validated separately by the dft/idft identity family)
    let fwd = |v: &VecZnx<Vec<u8>>| -> VecZnxDft<Vec<u8>, B> {
        let mut d = dft_buf::<B>(n, v.cols(), v.size(), 0, 2);
        for col in 0..v.cols() {
            m.vec_znx_dft_apply(1, 0, &mut d, col, v, col);
        }
        d
    };

    let mut issues: Vec<String> = vec![];
    let op = c.op.as_str();
    let r = guarded(|| -> (Vec<u8>, Vec<Vec<i128>>, usize) {
        match op {
            // ------------------------------------------------------------------ transforms
            "dft_apply" => {
                let mut res = dft_buf::<B>(n, c.cols, c.rs, extra, o.garbage);
                let before = aligned_copy(&res.data);
                m.vec_znx_dft_apply(c.p as usize, c.q as usize, &mut res, c.rc, &inp.a, c.ac);
                let lay = Lay { n, cols: c.cols, w: wp };
                if let Some(s) = stray_writes(&before, &res.data, lay, c.rc, c.rs, "result") {
                    issues.push(s);
                }
                (col_bytes(&res.data, lay, c.rc, c.rs), canon_of_dft::<B>(&m, &res, c.rc), 0)
            }
            "dft_copy" | "dft_add_into" | "dft_sub" | "dft_add_assign" | "dft_sub_assign" | "dft_sub_negate_assign"
            | "dft_add_scaled_assign" | "dft_zero" => {
                let ad = fwd(&inp.a);
                let bd = fwd(&inp.b);
                let ad_dig = digest(&ad.data);
                let bd_dig = digest(&bd.data);
                let mut res = dft_buf::<B>(n, c.cols, c.rs, extra, o.garbage);
                let in_place = matches!(op, "dft_add_assign" | "dft_sub_assign" | "dft_sub_negate_assign" | "dft_add_scaled_assign");
                if in_place {
                    // prior content of the selected column = transform of r0 (so that its value is known)
                    m.vec_znx_dft_apply(1, 0, &mut res, c.rc, &inp.r0, c.rc);
                }
                let before = aligned_copy(&res.data);
                match op {
                    "dft_copy" => m.vec_znx_dft_copy(c.p as usize, c.q as usize, &mut res, c.rc, &ad, c.ac),
                    "dft_add_into" => m.vec_znx_dft_add_into(&mut res, c.rc, &ad, c.ac, &bd, c.bc),
                    "dft_sub" => m.vec_znx_dft_sub(&mut res, c.rc, &ad, c.ac, &bd, c.bc),
                    "dft_add_assign" => m.vec_znx_dft_add_assign(&mut res, c.rc, &ad, c.ac),
                    "dft_sub_assign" => m.vec_znx_dft_sub_assign(&mut res, c.rc, &ad, c.ac),
                    "dft_sub_negate_assign" => m.vec_znx_dft_sub_negate_assign(&mut res, c.rc, &ad, c.ac),
                    "dft_add_scaled_assign" => m.vec_znx_dft_add_scaled_assign(&mut res, c.rc, &ad, c.ac, c.p),
                    "dft_zero" => m.vec_znx_dft_zero(&mut res, c.rc),
                    _ => unreachable!(),
                }
                let lay = Lay { n, cols: c.cols, w: wp };
                if let Some(s) = stray_writes(&before, &res.data, lay, c.rc, c.rs, "result") {
                    issues.push(s);
                }
                if digest(&ad.data) != ad_dig || digest(&bd.data) != bd_dig {
                    issues.push("read-only DFT operand modified".into());
                }
                (col_bytes(&res.data, lay, c.rc, c.rs), canon_of_dft::<B>(&m, &res, c.rc), 0)
            }
            "idft_apply" | "idft_apply_tmpa" | "idft_apply_consume" => {
                let mut ad = fwd(&inp.a);
                let ad_dig = digest(&ad.data);
                let lay = Lay { n, cols: c.cols, w: wb };
                match op {
                    "idft_apply" => {
                        let mut res = big_buf::<B>(n, c.cols, c.rs, extra, o.garbage);
                        let before = aligned_copy(&res.data);
                        let tb = m.vec_znx_idft_apply_tmp_bytes();
                        with_scratch::<B, _>(tb, o, &mut issues, |s| m.vec_znx_idft_apply(&mut res, c.rc, &ad, c.ac, s));
                        if let Some(s) = stray_writes(&before, &res.data, lay, c.rc, c.rs, "result") {
                            issues.push(s);
                        }
                        if digest(&ad.data) != ad_dig {
                            issues.push("read-only DFT operand modified".into());
                        }
                        let canon = (0..c.rs).map(|j| big_limb::<B>(&res, c.rc, j)).collect();
                        (col_bytes(&res.data, lay, c.rc, c.rs), canon, tb)
                    }
                    "idft_apply_tmpa" => {
                        let mut res = big_buf::<B>(n, c.cols, c.rs, extra, o.garbage);
                        let before = aligned_copy(&res.data);
                        m.vec_znx_idft_apply_tmpa(&mut res, c.rc, &mut ad, c.ac);
                        if let Some(s) = stray_writes(&before, &res.data, lay, c.rc, c.rs, "result") {
                            issues.push(s);
                        }
                        let canon = (0..c.rs).map(|j| big_limb::<B>(&res, c.rc, j)).collect();
                        (col_bytes(&res.data, lay, c.rc, c.rs), canon, 0)
                    }
                    _ => {
                        // consume: the whole DFT vector becomes the big vector (all columns, a's size)
                        let big = m.vec_znx_idft_apply_consume(ad);
                        let sz = big.size();
                        let lay2 = Lay { n, cols: big.cols(), w: wb };
                        let canon = (0..sz).map(|j| big_limb::<B>(&big, c.ac, j)).collect();
                        (col_bytes(&big.data, lay2, c.ac, sz), canon, 0)
                    }
                }
            }
            // ------------------------------------------------------------------ chains of transform-domain steps on one accumulator
            "dft_chain" => {
                let ad = fwd(&inp.a);
                let bd = fwd(&inp.b);
                let mut pp: SvpPPol<Vec<u8>, B> = SvpPPol::from_data(alloc_aligned::<u8>(m.bytes_of_svp_ppol(c.cols)), n, c.cols);
                for col in 0..c.cols {
                    m.svp_prepare(&mut pp, col, &inp.sc, col);
                }
                let mut res = dft_buf::<B>(n, c.cols, c.rs, extra, o.garbage);
                m.vec_znx_dft_apply(1, 0, &mut res, c.rc, &inp.r0, c.rc);
                let before = aligned_copy(&res.data);
                let mut code = c.p as usize;
                for _ in 0..c.q as usize {
                    match code % 5 {
                        0 => m.vec_znx_dft_add_assign(&mut res, c.rc, &ad, c.ac),
                        1 => m.vec_znx_dft_sub_assign(&mut res, c.rc, &ad, c.ac),
                        2 => m.vec_znx_dft_sub_negate_assign(&mut res, c.rc, &ad, c.ac),
                        3 => m.vec_znx_dft_sub_negate_assign(&mut res, c.rc, &bd, c.bc),
                        _ => m.svp_apply_dft_to_dft_assign(&mut res, c.rc, &pp, c.ac),
                    }
                    code /= 5;
                }
                let lay = Lay { n, cols: c.cols, w: wp };
                if let Some(s) = stray_writes(&before, &res.data, lay, c.rc, c.rs, "result") {
                    issues.push(s);
                }
                (col_bytes(&res.data, lay, c.rc, c.rs), canon_of_dft::<B>(&m, &res, c.rc), 0)
            }
            // ------------------------------------------------------------------ scalar-vector products
            "svp_apply_dft" | "svp_apply_dft_to_dft" | "svp_apply_dft_to_dft_assign" => {
                let mut pp: SvpPPol<Vec<u8>, B> = SvpPPol::from_data(alloc_aligned::<u8>(m.bytes_of_svp_ppol(c.cols)), n, c.cols);
                garbage(&mut pp.data, o.garbage);
                for col in 0..c.cols {
                    m.svp_prepare(&mut pp, col, &inp.sc, col);
                }
                let pp_dig = digest(&pp.data);
                let mut res = dft_buf::<B>(n, c.cols, c.rs, extra, o.garbage);
                let bd = fwd(&inp.b);
                if op == "svp_apply_dft_to_dft_assign" {
                    m.vec_znx_dft_apply(1, 0, &mut res, c.rc, &inp.r0, c.rc);
                }
                let before = aligned_copy(&res.data);
                match op {
                    "svp_apply_dft" => m.svp_apply_dft(&mut res, c.rc, &pp, c.ac, &inp.b, c.bc),
                    "svp_apply_dft_to_dft" => m.svp_apply_dft_to_dft(&mut res, c.rc, &pp, c.ac, &bd, c.bc),
                    _ => m.svp_apply_dft_to_dft_assign(&mut res, c.rc, &pp, c.ac),
                }
                let lay = Lay { n, cols: c.cols, w: wp };
                if let Some(s) = stray_writes(&before, &res.data, lay, c.rc, c.rs, "result") {
                    issues.push(s);
                }
                if digest(&pp.data) != pp_dig {
                    issues.push("prepared scalar modified".into());
                }
                (col_bytes(&res.data, lay, c.rc, c.rs), canon_of_dft::<B>(&m, &res, c.rc), 0)
            }
            // ------------------------------------------------------------------ vector-matrix products
            "vmp_apply_dft" | "vmp_apply_dft_to_dft" => {
                let mut pm: VmpPMat<Vec<u8>, B> = VmpPMat::from_data(
                    alloc_aligned::<u8>(m.bytes_of_vmp_pmat(c.rows, c.cin, c.cout, c.ms)),
                    n,
                    c.rows,
                    c.cin,
                    c.cout,
                    c.ms,
                );
                garbage(pm.data_mut(), o.garbage);
                let tb0 = m.vmp_prepare_tmp_bytes(c.rows, c.cin, c.cout, c.ms);
                with_scratch::<B, _>(tb0, o, &mut issues, |s| m.vmp_prepare(&mut pm, &inp.mat, s));
                let pm_dig = digest(pm.data());
                // the input vector has cin columns (a is allocated with max(cols, cin) columns; build the exact shape)
                let mut av = VecZnx::alloc(n, c.cin, c.a_s);
                for col in 0..c.cin {
                    for j in 0..c.a_s {
                        av.at_mut(col, j).copy_from_slice(inp.a.at(col, j));
                    }
                }
                let mut res = dft_buf::<B>(n, c.cout, c.rs, extra, o.garbage);
                let before = aligned_copy(&res.data);
                let tb;
                if op == "vmp_apply_dft" {
                    tb = m.vmp_apply_dft_tmp_bytes(c.rs, c.a_s, c.rows, c.cin, c.cout, c.ms);
                    with_scratch::<B, _>(tb, o, &mut issues, |s| m.vmp_apply_dft(&mut res, &av, &pm, s));
                } else {
                    let ad = fwd(&av);
                    tb = m.vmp_apply_dft_to_dft_tmp_bytes(c.rs, c.a_s, c.rows, c.cin, c.cout, c.ms);
                    with_scratch::<B, _>(tb, o, &mut issues, |s| m.vmp_apply_dft_to_dft(&mut res, &ad, &pm, c.p as usize, s));
                }
                let lay = Lay { n, cols: c.cout, w: wp };
                // the product writes every column of the result: the "selected output" is all columns, active limbs
                let mut strays = None;
                {
                    let mut allowed_before = before.clone();
                    let mut after = res.data.clone();
                    for col in 0..c.cout {
                        for j in 0..c.rs {
                            let r = lay.range(col, j);
                            allowed_before[r.clone()].fill(0);
                            after[r].fill(0);
                        }
                    }
                    if allowed_before != after {
                        strays = Some("result: bytes beyond the active limbs were modified".to_string());
                    }
                }
                if let Some(s) = strays {
                    issues.push(s);
                }
                if digest(pm.data()) != pm_dig {
                    issues.push("prepared matrix modified".into());
                }
                let mut raw = vec![];
                let mut canon = vec![];
                for col in 0..c.cout {
                    raw.extend(col_bytes(&res.data, lay, col, c.rs));
                    canon.extend(canon_of_dft::<B>(&m, &res, col));
                }
                (raw, canon, tb0 + tb)
            }
            // ------------------------------------------------------------------ convolutions
            "cnv_apply_dft" | "cnv_pairwise_apply_dft" | "cnv_self_apply_dft" => {
                let mask: i64 = !0i64 << (c.q.max(0) as u32);
                let is_self = op == "cnv_self_apply_dft";
                let (pls, prs, _, _) = cnv_sizes(c);
                let lc = c.cols + c.xl as usize;
                let rcn = c.cols + if is_self { c.xl } else { c.xr } as usize;
                let mut pl: CnvPVecL<Vec<u8>, B> = CnvPVecL::from_data(alloc_aligned::<u8>(m.bytes_of_cnv_pvec_left(lc, pls)), n, lc, pls);
                let (r_src, r_size) = if is_self { (&inp.a, c.a_s) } else { (&inp.b, c.bs) };
                let mut pr: CnvPVecR<Vec<u8>, B> = CnvPVecR::from_data(alloc_aligned::<u8>(m.bytes_of_cnv_pvec_right(rcn, prs)), n, rcn, prs);
                garbage(pl.data_mut(), o.garbage);
                garbage(pr.data_mut(), o.garbage);
                let mut tbs = 0usize;
                // operands with exactly the column count of their prepared form; columns beyond `cols` hold the negated
                // digits of the first columns (they never take part in the product)
                let widen = |src: &VecZnx<Vec<u8>>, ncols: usize, size: usize| -> VecZnx<Vec<u8>> {
                    let mut v = VecZnx::alloc(n, ncols, size);
                    for col in 0..ncols {
                        for j in 0..size {
                            let s = src.at(col % c.cols, j);
                            let d = v.at_mut(col, j);
                            for i in 0..n {
                                d[i] = if col < c.cols { s[i] } else { -s[i] };
                            }
                        }
                    }
                    v
                };
                let av = widen(&inp.a, lc, c.a_s);
                if is_self {
                    let tb = m.cnv_prepare_self_tmp_bytes(pls, c.a_s);
                    tbs += tb;
                    with_scratch::<B, _>(tb, o, &mut issues, |s| m.cnv_prepare_self(&mut pl, &mut pr, &av, mask, s));
                } else {
                    let bv = widen(r_src, rcn, r_size);
                    let tb = m.cnv_prepare_left_tmp_bytes(pls, c.a_s);
                    tbs += tb;
                    with_scratch::<B, _>(tb, o, &mut issues, |s| m.cnv_prepare_left(&mut pl, &av, mask, s));
                    let tb = m.cnv_prepare_right_tmp_bytes(prs, r_size);
                    tbs += tb;
                    with_scratch::<B, _>(tb, o, &mut issues, |s| m.cnv_prepare_right(&mut pr, &bv, mask, s));
                }
                let (pl_dig, pr_dig) = (digest(pl.data()), digest(pr.data()));
                let mut res = dft_buf::<B>(n, c.cols, c.rs, extra, o.garbage);
                let before = aligned_copy(&res.data);
                if op == "cnv_pairwise_apply_dft" {
                    // documented argument order: (cnv_offset, res_size, a_size, b_size). The delegate forwards the
                    // first two swapped (known finding KF-C12-1), so only the exact-window mode of C12 relies on the
                    // documented order; the other checks take the larger of the two readings.
                    let tb = match o.scratch {
                        ScratchMode::Exact(_) => m.cnv_pairwise_apply_dft_tmp_bytes(c.p as usize, c.rs, pls, prs),
                        ScratchMode::Owned => m
                            .cnv_pairwise_apply_dft_tmp_bytes(c.p as usize, c.rs, pls, prs)
                            .max(m.cnv_pairwise_apply_dft_tmp_bytes(c.rs, c.p as usize, pls, prs)),
                    };
                    tbs += tb;
                    with_scratch::<B, _>(tb, o, &mut issues, |s| {
                        m.cnv_pairwise_apply_dft(c.p as usize, &mut res, c.rc, &pl, &pr, c.ac, c.bc, s)
                    });
                } else {
                    let tb = m.cnv_apply_dft_tmp_bytes(c.p as usize, c.rs, pls, prs);
                    tbs += tb;
                    with_scratch::<B, _>(tb, o, &mut issues, |s| m.cnv_apply_dft(c.p as usize, &mut res, c.rc, &pl, c.ac, &pr, c.bc, s));
                }
                let lay = Lay { n, cols: c.cols, w: wp };
                if let Some(s) = stray_writes(&before, &res.data, lay, c.rc, c.rs, "result") {
                    issues.push(s);
                }
                if digest(pl.data()) != pl_dig || digest(pr.data()) != pr_dig {
                    issues.push("prepared convolution operand modified".into());
                }
                (col_bytes(&res.data, lay, c.rc, c.rs), canon_of_dft::<B>(&m, &res, c.rc), tbs)
            }
            "cnv_by_const_apply" => {
                let mut res = big_buf::<B>(n, c.cols, c.rs, extra, o.garbage);
                let before = aligned_copy(&res.data);
                let mut av = VecZnx::alloc(n, c.cols, c.a_s);
                for col in 0..c.cols {
                    for j in 0..c.a_s {
                        av.at_mut(col, j).copy_from_slice(inp.a.at(col, j));
                    }
                }
                let tb = m.cnv_by_const_apply_tmp_bytes(c.p as usize, c.rs, c.a_s, c.bs);
                with_scratch::<B, _>(tb, o, &mut issues, |s| m.cnv_by_const_apply(c.p as usize, &mut res, c.rc, &av, c.ac, &inp.cst, s));
                let lay = Lay { n, cols: c.cols, w: wb };
                if let Some(s) = stray_writes(&before, &res.data, lay, c.rc, c.rs, "result") {
                    issues.push(s);
                }
                let canon = (0..c.rs).map(|j| big_limb::<B>(&res, c.rc, j)).collect();
                (col_bytes(&res.data, lay, c.rc, c.rs), canon, tb)
            }
            o => panic!("ops::run_op: unknown op {o}"),
        }
    });
    match r {
        Ok((raw, canon, tb)) => {
            out.raw = raw;
            out.canon = canon;
            out.tmp_bytes = tb;
        }
        Err(msg) => out.panic = Some(msg),
    }
    if digest(&inp.a.data) != a_dig || digest(&inp.b.data) != b_dig || digest(&inp.sc.data) != sc_dig || digest(inp.mat.data()) != mat_dig {
        issues.push("read-only coefficient-domain operand modified".into());
    }
    out.issues = issues;
    out
}

/// magnitude domain used by the harness (a conservative sub-domain of what the backends document):
/// FFT64: n * terms * 2^(2b) <= 2^50 ; NTT120: result below 2^118 (always true for b <= 52 here).
pub fn in_domain(family: Family, n: usize, terms: usize, b_left: usize, b_right: usize) -> bool {
    let bits = (n * terms.max(1)).next_power_of_two().trailing_zeros() as usize + b_left + b_right;
    match family {
        Family::Fft64 => bits <= 50,
        Family::Ntt120 => bits <= 116,
    }
}

//! pvc-hal: HAL-level checks (C07-C12, C17 drivers).  usage: pvc-hal <Cxx> --tier quick|thorough [--replay f] [--only family]

pub mod be;
pub mod big;
pub mod c08;
pub mod c09;
pub mod util;

use pvc_engine::{Run, load_replay, parse_args};

fn main() {
    let args = parse_args();
    let code = match args.property.as_str() {
        "C08" => {
            let mut run = Run::new(&args, "exploration");
            match &args.replay {
                Some(p) => c08::replay(&mut run, &load_replay(p)),
                None => c08::run(&mut run),
            }
            run.finish()
        }
        "C09" => {
            let mut run = Run::new(&args, "exploration");
            match &args.replay {
                Some(p) => c09::replay(&mut run, &load_replay(p)),
                None => c09::run(&mut run),
            }
            run.finish()
        }
        o => {
            eprintln!("pvc-hal: unknown property {o}");
            2
        }
    };
    std::process::exit(code);
}

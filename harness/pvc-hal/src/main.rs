#![feature(linkage)]
//! pvc-hal: HAL-level checks (C07-C12, C17 drivers).  usage: pvc-hal <Cxx> --tier quick|thorough [--replay f] [--only family]

pub mod be;
pub mod big;
pub mod c07;
pub mod c08;
pub mod c09;
pub mod c10;
pub mod c11;
pub mod c12;
pub mod c17;
pub mod ops;
pub mod util;

use pvc_engine::{Run, load_replay, parse_args};

fn main() {
    let args = parse_args();
    macro_rules! check {
        ($level:expr, $run:path, $replay:path) => {{
            let mut run = Run::new(&args, $level);
            match &args.replay {
                Some(p) => $replay(&mut run, &load_replay(p)),
                None => $run(&mut run),
            }
            run.finish()
        }};
    }
    let code = match args.property.as_str() {
        "C07" => check!("exploration", c07::run, c07::replay),
        "C08" => check!("exploration", c08::run, c08::replay),
        "C09" => check!("exploration", c09::run, c09::replay),
        "C11" => check!("model_checking", c11::run, c11::replay),
        "C10" => {
            let mut run = Run::new(&args, "exploration");
            match &args.replay {
                Some(p) => {
                    c10::replay(&mut run, &load_replay(p));
                }
                None => c10::run_hal(&mut run),
            }
            run.finish()
        }
        "C17" => check!("exploration", c17::run, c17::replay),
        "C12" => {
            let mut run = Run::new(&args, "exploration");
            match &args.replay {
                Some(p) => {
                    c12::replay(&mut run, &load_replay(p));
                }
                None => c12::run_hal(&mut run),
            }
            run.finish()
        }
        o => {
            eprintln!("pvc-hal: unknown property {o}");
            2
        }
    };
    std::process::exit(code);
}

//! C12 (HAL part) - the declared scratch size suffices and scratch contents never matter.
//! Every scratch-taking HAL operation is run with an exact-size window (`Scratch::from_bytes` over exactly
//! `tmp_bytes` bytes between canaries) pre-filled with 0x00, 0x11.. and the NaN/huge pattern.

use crate::be::{Bk, HalAll};
use crate::c11::{self, VCase};
use crate::for_backends;
use crate::ops::{self, OpCase, Opts, ScratchMode};
use poulpy_hal::layouts::Module;
use pvc_engine::{Rec, Run, fnv};
use serde_json::{Value, json};

const FILLS: [usize; 3] = [2, 3, 0]; // zeros, 0x11.., NaN/huge

fn judge(op: &str, backend: &str, case: Value, outs: Vec<(Option<String>, Vec<u8>, Vec<String>, usize)>, rec: &mut Rec) {
    let tmp = outs[0].3;
    for (k, (panic, _, issues, _)) in outs.iter().enumerate() {
        rec.evals(1);
        let base = |kind: &str| json!({"op": op, "backend": backend, "kind": kind, "case": case, "inner": {"scratch_fill": FILLS[k]}, "tmp_bytes": tmp});
        if let Some(p) = panic {
            let mut d = base(if p.contains("scratch") { "scratch_too_small" } else { "panic" });
            d["panic"] = json!(p);
            rec.fail(d);
            return;
        }
        for i in issues.iter().filter(|i| i.starts_with("scratch")) {
            let mut d = base("scratch_overrun");
            d["why"] = json!(i);
            rec.fail(d);
            return;
        }
    }
    if outs[0].1 != outs[1].1 || outs[0].1 != outs[2].1 {
        rec.fail(json!({"op": op, "backend": backend, "kind": "scratch_dependent_result", "case": case, "tmp_bytes": tmp,
            "why": "result differs between scratch pre-filled with zeros, 0x11 and the NaN/huge pattern"}));
    }
    rec.add("scratch_bytes_total", tmp as u64);
}

fn exec_v<B: Bk>(c: &VCase, seed: u64, rec: &mut Rec)
where
    Module<B>: HalAll<B>,
{
    let outs = FILLS
        .iter()
        .map(|&f| {
            let o = c11::run_v::<B>(
                c,
                &Opts {
                    garbage: 0,
                    scratch: ScratchMode::Exact(f),
                    seed,
                },
            );
            (o.panic, o.raw, o.issues, o.tmp_bytes)
        })
        .collect();
    judge(&c.op, B::NAME, serde_json::to_value(c).unwrap(), outs, rec);
    rec.distinct(fnv(format!("{:?}{}", c, B::NAME).as_bytes()));
    rec.sample(|| serde_json::to_value(c).unwrap());
}

fn exec_d<B: Bk>(c: &OpCase, seed: u64, rec: &mut Rec)
where
    Module<B>: HalAll<B>,
{
    if !crate::c07::admissible::<B>(c) {
        return;
    }
    let outs = FILLS
        .iter()
        .map(|&f| {
            let o = ops::run_op::<B>(
                c,
                &Opts {
                    garbage: 0,
                    scratch: ScratchMode::Exact(f),
                    seed,
                },
            );
            (o.panic, o.raw, o.issues, o.tmp_bytes)
        })
        .collect();
    judge(&c.op, B::NAME, serde_json::to_value(c).unwrap(), outs, rec);
    rec.distinct(fnv(format!("{:?}{}", c, B::NAME).as_bytes()));
    rec.sample(|| serde_json::to_value(c).unwrap());
}

fn uses_scratch_v(op: &str) -> bool {
    c11::NORM_OPS.contains(&op) || matches!(op, "RotateAssign" | "MulXpMinusOneAssign" | "AutomorphismAssign")
}

fn uses_scratch_d(op: &str) -> bool {
    matches!(op, "idft_apply") || op.starts_with("vmp_") || op.starts_with("cnv_")
}

pub fn fam_v<B: Bk>(run: &mut Run)
where
    Module<B>: HalAll<B>,
{
    let seed = run.seed;
    let cs: Vec<VCase> = c11::v_cases(run.tier).into_iter().filter(|c| uses_scratch_v(&c.op)).collect();
    run.family(
        &format!("hal_coefficient_scratch/{}", B::NAME),
        "every scratch-taking coefficient-domain operation (normalise, 8 shift forms, rotate/mul_xp_minus_one/automorphism assign) over the C11 shape grid, scratch = exact-size window between canaries, three pre-fills",
        cs,
        |c, rec| exec_v::<B>(c, seed, rec),
    );
}

pub fn fam_d<B: Bk>(run: &mut Run)
where
    Module<B>: HalAll<B>,
{
    let seed = run.seed;
    let tier = run.tier;
    let mut cs = vec![];
    for &n in &[8usize, 16] {
        let b = crate::c07::radices(B::FAMILY, tier)[1];
        for op in crate::c07::all_ops() {
            if uses_scratch_d(op) {
                cs.extend(crate::c07::cases_for(op, n, b, tier).into_iter().filter(|c| c.val == 0));
            }
        }
    }
    run.family(
        &format!("hal_dft_scratch/{}", B::NAME),
        "idft_apply, vmp_prepare + vmp_apply_dft(_to_dft), cnv_prepare_left/right/self + cnv_apply_dft / pairwise / by_const over the C07 shape grid at N=8,16: every stage gets an exact-size window of its own companion query, three pre-fills",
        cs,
        |c, rec| exec_d::<B>(c, seed, rec),
    );
}

pub fn run_hal(run: &mut Run) {
    for_backends!(fam_v(run));
    for_backends!(fam_d(run));
}

pub fn replay(run: &mut Run, d: &Value) -> bool {
    let backend = d["backend"].as_str().unwrap_or("").to_string();
    let fam = d["family"].as_str().unwrap_or("").to_string();
    let seed = d["seed"].as_u64().unwrap_or(0);
    if !fam.starts_with("hal_") {
        return false;
    }
    macro_rules! go {
        ($B:ty) => {{
            if fam.starts_with("hal_coefficient_scratch") {
                let c: VCase = serde_json::from_value(d["case"].clone()).unwrap();
                run.single(&fam, "replay", |rec| exec_v::<$B>(&c, seed, rec));
            } else {
                let c: OpCase = serde_json::from_value(d["case"].clone()).unwrap();
                run.single(&fam, "replay", |rec| exec_d::<$B>(&c, seed, rec));
            }
        }};
    }
    match backend.as_str() {
        "fft64-ref" => go!(crate::be::FFT64Ref),
        "ntt120-ref" => go!(crate::be::NTT120Ref),
        "fft64-avx" => go!(crate::be::FFT64Avx),
        "ntt120-avx" => go!(crate::be::NTT120Avx),
        o => panic!("unknown backend {o}"),
    }
    true
}

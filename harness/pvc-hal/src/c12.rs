//! C12 (HAL part) - the declared scratch size suffices and scratch contents never matter.
//! Every scratch-taking HAL operation is run with an exact-size window (`Scratch::from_bytes` over exactly
//! `tmp_bytes` bytes between canaries) pre-filled with 0x00, 0x11.. and the NaN/huge pattern.

use crate::be::{Bk, HalAll};
use crate::c11::{self, VCase};
use crate::c08::fam_big_scratch;
use crate::c11::fam_ringv;
use crate::for_backends;
use crate::ops::{self, OpCase, Opts, ScratchMode};
use poulpy_hal::layouts::Module;
use pvc_engine::{Rec, Run, fnv};
use serde_json::{Value, json};

const FILLS: [usize; 3] = [2, 3, 0]; // zeros, 0x11.., NaN/huge

fn judge(op: &str, backend: &str, case: Value, outs: Vec<(Option<String>, Vec<u8>, Vec<String>, usize)>, rec: &mut Rec) {
    let tmp = outs[0].3;
    for (k, (panic, _, issues, _)) in outs.iter().enumerate() {
        rec.evals(1);
        let base = |kind: &str| json!({"op": op, "backend": backend, "kind": kind, "case": case, "inner": {"scratch_fill": FILLS[k]}, "tmp_bytes": tmp});
        if let Some(p) = panic {
            let mut d = base(if p.contains("scratch") { "scratch_too_small" } else { "panic" });
            d["panic"] = json!(p);
            rec.fail(d);
            return;
        }
        for i in issues.iter().filter(|i| i.starts_with("scratch")) {
            let mut d = base("scratch_overrun");
            d["why"] = json!(i);
            rec.fail(d);
            return;
        }
    }
    if outs[0].1 != outs[1].1 || outs[0].1 != outs[2].1 {
        rec.fail(json!({"op": op, "backend": backend, "kind": "scratch_dependent_result", "case": case, "tmp_bytes": tmp,
            "why": "result differs between scratch pre-filled with zeros, 0x11 and the NaN/huge pattern"}));
    }
    rec.add("scratch_bytes_total", tmp as u64);
}

fn exec_v<B: Bk>(c: &VCase, seed: u64, rec: &mut Rec)
where
    Module<B>: HalAll<B>,
{
    let outs = FILLS
        .iter()
        .map(|&f| {
            let o = c11::run_v::<B>(
                c,
                &Opts {
                    garbage: 0,
                    scratch: ScratchMode::Exact(f),
                    seed,
                },
            );
            (o.panic, o.raw, o.issues, o.tmp_bytes)
        })
        .collect();
    judge(&c.op, B::NAME, serde_json::to_value(c).unwrap(), outs, rec);
    rec.distinct(fnv(format!("{:?}{}", c, B::NAME).as_bytes()));
    rec.sample(|| serde_json::to_value(c).unwrap());
}

fn exec_d<B: Bk>(c: &OpCase, seed: u64, rec: &mut Rec)
where
    Module<B>: HalAll<B>,
{
    if !crate::c07::admissible::<B>(c) {
        return;
    }
    let outs = FILLS
        .iter()
        .map(|&f| {
            let o = ops::run_op::<B>(
                c,
                &Opts {
                    garbage: 0,
                    scratch: ScratchMode::Exact(f),
                    seed,
                },
            );
            (o.panic, o.raw, o.issues, o.tmp_bytes)
        })
        .collect();
    judge(&c.op, B::NAME, serde_json::to_value(c).unwrap(), outs, rec);
    rec.distinct(fnv(format!("{:?}{}", c, B::NAME).as_bytes()));
    rec.sample(|| serde_json::to_value(c).unwrap());
}

fn uses_scratch_v(op: &str) -> bool {
    c11::NORM_OPS.contains(&op) || matches!(op, "RotateAssign" | "MulXpMinusOneAssign" | "AutomorphismAssign")
}

fn uses_scratch_d(op: &str) -> bool {
    matches!(op, "idft_apply") || op.starts_with("vmp_") || op.starts_with("cnv_")
}

pub fn fam_v<B: Bk>(run: &mut Run)
where
    Module<B>: HalAll<B>,
{
    let seed = run.seed;
    let cs: Vec<VCase> = c11::v_cases(run.tier).into_iter().filter(|c| uses_scratch_v(&c.op)).collect();
    run.family(
        &format!("hal_coefficient_scratch/{}", B::NAME),
        "every scratch-taking coefficient-domain operation (normalise, 8 shift forms, rotate/mul_xp_minus_one/automorphism assign) over the C11 shape grid, scratch = exact-size window between canaries, three pre-fills",
        cs,
        |c, rec| exec_v::<B>(c, seed, rec),
    );
}

pub fn fam_d<B: Bk>(run: &mut Run)
where
    Module<B>: HalAll<B>,
{
    let seed = run.seed;
    let tier = run.tier;
    let mut cs = vec![];
    for &n in &[8usize, 16] {
        let b = crate::c07::radices(B::FAMILY, tier)[1];
        for op in crate::c07::all_ops() {
            if uses_scratch_d(op) {
                cs.extend(crate::c07::cases_for(op, n, b, tier).into_iter().filter(|c| c.val == 0));
            }
        }
    }
    run.family(
        &format!("hal_dft_scratch/{}", B::NAME),
        "idft_apply, vmp_prepare + vmp_apply_dft(_to_dft), cnv_prepare_left/right/self + cnv_apply_dft / pairwise / by_const over the C07 shape grid at N=8,16: every stage gets an exact-size window of its own companion query, three pre-fills",
        cs,
        |c, rec| exec_d::<B>(c, seed, rec),
    );
}

// ---------------------------------------------------------------------------------------------
// the arena itself: sequences of takes against a reference model (R5)
// ---------------------------------------------------------------------------------------------

#[derive(Clone, Debug, serde::Serialize, serde::Deserialize)]
pub struct ArenaCase {
    pub window: usize,
    pub misalign: usize,
    /// each step: (kind, length) kind 0 = take_slice<u8>(len), 1 = take_vec_znx(n=len,1,1), 2 = split_at_mut(len), 3 = take_slice<i64>(len)
    pub steps: Vec<(u8, usize)>,
}

pub fn exec_arena<B: Bk>(c: &ArenaCase, rec: &mut Rec)
where
    Module<B>: HalAll<B>,
    poulpy_hal::layouts::Scratch<B>: poulpy_hal::api::TakeSlice + poulpy_hal::api::ScratchAvailable + poulpy_hal::api::ScratchFromBytes<B>,
{
    use poulpy_hal::api::{ScratchTakeBasic, TakeSlice};
    let pad = 256usize;
    let mut buf = poulpy_hal::alloc_aligned::<u8>(pad + c.window + pad + 64);
    buf.fill(0xC5);
    let lo = buf.as_ptr() as usize + pad + c.misalign;
    let hi = lo + c.window;
    let mut taken: Vec<(usize, usize)> = vec![];
    let mut problems: Vec<String> = vec![];
    let r = pvc_engine::guarded(|| {
        let mut cur: &mut poulpy_hal::layouts::Scratch<B> = B::scratch_from_bytes(&mut buf[pad + c.misalign..pad + c.misalign + c.window]);
        // reference model: cursor = next 64-aligned address >= current position; a take of L bytes needs cursor + L <= hi
        let mut model_pos = lo;
        for (k, &(kind, len)) in c.steps.iter().enumerate() {
            let bytes = match kind {
                0 | 2 => len,
                1 | 3 => len * 8,
                _ => unreachable!(),
            };
            let aligned = model_pos.next_multiple_of(64);
            let fits = aligned + bytes <= hi;
            let avail_model = hi.saturating_sub(aligned);
            let avail = B::available(cur);
            if avail != avail_model {
                problems.push(format!("step {k}: available() = {avail}, arena model says {avail_model}"));
            }
            if !fits {
                // the library must refuse (panic) rather than hand out memory past the window
                let cur_ptr: *mut poulpy_hal::layouts::Scratch<B> = cur;
                let refused = pvc_engine::guarded(|| {
                    let cur2: &mut poulpy_hal::layouts::Scratch<B> = unsafe { &mut *cur_ptr };
                    match kind {
                        0 => {
                            let (s, _) = cur2.take_slice::<u8>(len);
                            (s.as_ptr() as usize, s.len())
                        }
                        1 => {
                            let (v, _) = cur2.take_vec_znx(len, 1, 1);
                            (v.data.as_ptr() as usize, v.data.len())
                        }
                        2 => {
                            let (a, _) = cur2.split_at_mut(len);
                            (a.data.as_ptr() as usize, a.data.len())
                        }
                        _ => {
                            let (s, _) = cur2.take_slice::<i64>(len);
                            (s.as_ptr() as usize, s.len() * 8)
                        }
                    }
                });
                if let Ok((p, l)) = refused {
                    problems.push(format!("step {k}: a take of {bytes} bytes that does not fit was granted at offset {} length {l} (window {} bytes)", p as isize - lo as isize, c.window));
                }
                break;
            }
            let (p, l): (usize, usize);
            match kind {
                0 => {
                    let (s, rest) = cur.take_slice::<u8>(len);
                    (p, l) = (s.as_ptr() as usize, s.len());
                    cur = rest;
                }
                1 => {
                    let (v, rest) = cur.take_vec_znx(len, 1, 1);
                    (p, l) = (v.data.as_ptr() as usize, v.data.len());
                    cur = rest;
                }
                2 => {
                    let (a, rest) = cur.split_at_mut(len);
                    (p, l) = (a.data.as_ptr() as usize, a.data.len());
                    cur = rest;
                }
                _ => {
                    let (s, rest) = cur.take_slice::<i64>(len);
                    (p, l) = (s.as_ptr() as usize, s.len() * 8);
                    cur = rest;
                }
            }
            if l != bytes {
                problems.push(format!("step {k}: asked {bytes} bytes, got {l}"));
            }
            if p % 64 != 0 {
                problems.push(format!("step {k}: slice not 64-byte aligned"));
            }
            if p < lo || p + l > hi {
                problems.push(format!("step {k}: slice [{}, {}) lies outside the {}-byte window", p as isize - lo as isize, (p + l) as isize - lo as isize, c.window));
            }
            for (q, m) in &taken {
                if p < q + m && *q < p + l {
                    problems.push(format!("step {k}: slice overlaps an earlier take"));
                }
            }
            if p != aligned {
                problems.push(format!("step {k}: slice starts at offset {}, arena model says {}", p as isize - lo as isize, aligned - lo));
            }
            taken.push((p, l));
            model_pos = p + l;
        }
        // the remainder handed back must also stay inside the window
        let rem = B::available(cur);
        let rp = cur.data.as_ptr() as usize;
        if cur.data.len() > 0 && (rp < lo || rp + cur.data.len() > hi) {
            problems.push(format!("remainder [{}, {}) lies outside the window (available() = {rem})", rp as isize - lo as isize, (rp + cur.data.len()) as isize - lo as isize));
        }
    });
    rec.evals(1);
    if let Err(p) = r {
        rec.fail(json!({"op": "scratch_arena", "backend": B::NAME, "kind": "panic", "case": c, "panic": p}));
    }
    for w in problems {
        rec.fail(json!({"op": "scratch_arena", "backend": B::NAME, "kind": "scratch_overrun", "case": c, "why": w}));
    }
    rec.distinct(fnv(format!("{:?}", c).as_bytes()));
    rec.sample(|| serde_json::to_value(c).unwrap());
}

pub fn fam_arena<B: Bk>(run: &mut Run)
where
    Module<B>: HalAll<B>,
    poulpy_hal::layouts::Scratch<B>: poulpy_hal::api::TakeSlice + poulpy_hal::api::ScratchAvailable + poulpy_hal::api::ScratchFromBytes<B>,
{
    let lens: Vec<(u8, usize)> = vec![(0, 1), (0, 3), (0, 24), (0, 56), (0, 64), (0, 72), (0, 100), (1, 1), (1, 3), (1, 8), (2, 40), (2, 64), (3, 5), (3, 9)];
    let depth = run.tier.pick(3usize, 4usize);
    let mut cs = vec![];
    for window in [64usize, 128, 192, 256, 320] {
        for misalign in [0usize, 8, 24, 56] {
            // all sequences up to `depth`
            let mut stack: Vec<Vec<(u8, usize)>> = vec![vec![]];
            while let Some(seq) = stack.pop() {
                if !seq.is_empty() {
                    cs.push(ArenaCase { window, misalign, steps: seq.clone() });
                }
                if seq.len() < depth {
                    // thorough: full alphabet at every level; quick: full alphabet for the first two levels, a 5-letter one after
                    let alpha: &[(u8, usize)] = if seq.len() >= 2 && !run.tier.is_thorough() { &lens[..5] } else { &lens[..] };
                    for l in alpha {
                        let mut s2 = seq.clone();
                        s2.push(*l);
                        stack.push(s2);
                    }
                }
            }
        }
    }
    run.family(
        &format!("scratch_arena/{}", B::NAME),
        "all sequences up to depth 3 (quick) / 4 (thorough) of takes (take_slice<u8>, take_slice<i64>, take_vec_znx, split_at_mut; lengths that are and are not multiples of the 64-byte alignment) from windows of 64..320 bytes at 4 base misalignments, against the arena reference model R5: every slice inside the window, aligned, disjoint, at the model's offset; available() equals the model; a take that does not fit is refused",
        cs,
        |c, rec| exec_arena::<B>(c, rec),
    );
}

pub fn run_hal(run: &mut Run) {
    for_backends!(fam_v(run));
    for_backends!(fam_d(run));
    for_backends!(fam_big_scratch(run));
    for_backends!(fam_ringv(run));
    fam_arena::<crate::be::FFT64Ref>(run);
    fam_arena::<crate::be::NTT120Ref>(run);
    if crate::be::host_has_avx() {
        fam_arena::<crate::be::FFT64Avx>(run);
        fam_arena::<crate::be::NTT120Avx>(run);
    }
}

pub fn replay(run: &mut Run, d: &Value) -> bool {
    let backend = d["backend"].as_str().unwrap_or("").to_string();
    let fam = d["family"].as_str().unwrap_or("").to_string();
    let seed = d["seed"].as_u64().unwrap_or(0);
    if !fam.starts_with("hal_") && !fam.starts_with("scratch_arena") && !fam.starts_with("big_normalize_scratch") && !fam.starts_with("ring_ops") {
        return false;
    }
    macro_rules! go {
        ($B:ty) => {{
            if fam.starts_with("ring_ops") {
                let c: crate::c11::RingVCase = serde_json::from_value(d["case"].clone()).unwrap();
                run.single(&fam, "replay", |rec| crate::c11::exec_ringv::<$B>(&c, seed, rec));
            } else if fam.starts_with("big_normalize_scratch") {
                let c: crate::c08::Case = serde_json::from_value(d["case"].clone()).unwrap();
                run.single(&fam, "replay", |rec| crate::c08::exec_scratch::<$B>(&c, seed, rec));
            } else if fam.starts_with("scratch_arena") {
                let c: ArenaCase = serde_json::from_value(d["case"].clone()).unwrap();
                run.single(&fam, "replay", |rec| exec_arena::<$B>(&c, rec));
            } else if fam.starts_with("hal_coefficient_scratch") {
                let c: VCase = serde_json::from_value(d["case"].clone()).unwrap();
                run.single(&fam, "replay", |rec| exec_v::<$B>(&c, seed, rec));
            } else {
                let c: OpCase = serde_json::from_value(d["case"].clone()).unwrap();
                run.single(&fam, "replay", |rec| exec_d::<$B>(&c, seed, rec));
            }
        }};
    }
    match backend.as_str() {
        "fft64-ref" => go!(crate::be::FFT64Ref),
        "ntt120-ref" => go!(crate::be::NTT120Ref),
        "fft64-avx" => go!(crate::be::FFT64Avx),
        "ntt120-avx" => go!(crate::be::NTT120Avx),
        o => panic!("unknown backend {o}"),
    }
    true
}

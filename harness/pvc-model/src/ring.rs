//! R2 - Z[X]/(X^N+1) at index level on i64 coefficients (wrapping, as the library documents for
//! limb-wise kernels) and on exact integers (i128) for products.

/// a * X^k in Z[X]/(X^n+1), any k in Z. n may be any positive length (X^n = -1).
pub fn mul_xk(a: &[i64], k: i64) -> Vec<i64> {
    let n = a.len() as i64;
    let mut out = vec![0i64; a.len()];
    let two_n = 2 * n;
    let kk = ((k % two_n) + two_n) % two_n;
    for (i, &c) in a.iter().enumerate() {
        let e = (i as i64 + kk) % two_n;
        if e < n {
            out[e as usize] = c;
        } else {
            out[(e - n) as usize] = c.wrapping_neg();
        }
    }
    out
}

/// a * (X^k - 1)
pub fn mul_xk_minus_one(a: &[i64], k: i64) -> Vec<i64> {
    let r = mul_xk(a, k);
    r.iter().zip(a).map(|(x, y)| x.wrapping_sub(*y)).collect()
}

/// a(X) -> a(X^g), g odd (any integer; reduced mod 2n).
pub fn automorphism(a: &[i64], g: i64) -> Vec<i64> {
    let n = a.len() as i64;
    let two_n = 2 * n;
    let gg = ((g % two_n) + two_n) % two_n;
    let mut out = vec![0i64; a.len()];
    for (i, &c) in a.iter().enumerate() {
        let e = ((i as i64) * gg) % two_n;
        if e < n {
            out[e as usize] = c;
        } else {
            out[(e - n) as usize] = c.wrapping_neg();
        }
    }
    out
}

pub fn add(a: &[i64], b: &[i64]) -> Vec<i64> {
    a.iter().zip(b).map(|(x, y)| x.wrapping_add(*y)).collect()
}
pub fn sub(a: &[i64], b: &[i64]) -> Vec<i64> {
    a.iter().zip(b).map(|(x, y)| x.wrapping_sub(*y)).collect()
}
pub fn neg(a: &[i64]) -> Vec<i64> {
    a.iter().map(|x| x.wrapping_neg()).collect()
}

/// Ring switch by index definition: n_out < n_in: res[i] = a[i * (n_in/n_out)] (the coefficients of
/// X^(i*gap), i.e. the sub-ring Z[Y]/(Y^n_out+1) with Y = X^gap); n_out > n_in: res[i*gap] = a[i], rest 0.
pub fn switch_ring(a: &[i64], n_out: usize) -> Vec<i64> {
    let n_in = a.len();
    let mut out = vec![0i64; n_out];
    if n_in >= n_out {
        let gap = n_in / n_out;
        for i in 0..n_out {
            out[i] = a[i * gap];
        }
    } else {
        let gap = n_out / n_in;
        for i in 0..n_in {
            out[i * gap] = a[i];
        }
    }
    out
}

/// Split a (degree n) into m = n/n_out parts: part_i[j] = a[j*m + i]  (so that a = sum_i part_i(X^m) X^i).
pub fn split_ring(a: &[i64], n_out: usize) -> Vec<Vec<i64>> {
    let m = a.len() / n_out;
    (0..m).map(|i| (0..n_out).map(|j| a[j * m + i]).collect()).collect()
}

/// Inverse of split_ring.
pub fn merge_rings(parts: &[Vec<i64>]) -> Vec<i64> {
    let m = parts.len();
    let n_in = parts[0].len();
    let mut out = vec![0i64; m * n_in];
    for (i, p) in parts.iter().enumerate() {
        for (j, &c) in p.iter().enumerate() {
            out[j * m + i] = c;
        }
    }
    out
}

/// Exact negacyclic product over i128.
pub fn negacyclic_mul_i128(a: &[i128], b: &[i128]) -> Vec<i128> {
    let n = a.len();
    assert_eq!(b.len(), n);
    let mut out = vec![0i128; n];
    for i in 0..n {
        if a[i] == 0 {
            continue;
        }
        for j in 0..n {
            let p = a[i] * b[j];
            let k = i + j;
            if k < n {
                out[k] += p;
            } else {
                out[k - n] -= p;
            }
        }
    }
    out
}

/// multiplicative inverse of odd g modulo 2n (n power of two)
pub fn inv_mod_2n(g: i64, n: usize) -> i64 {
    let m = 2 * n as i64;
    let g = ((g % m) + m) % m;
    for x in (1..m).step_by(2) {
        if (g * x) % m == 1 {
            return x;
        }
    }
    panic!("no inverse")
}

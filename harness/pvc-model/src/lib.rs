//! Reference models, written from the mathematical definitions. No dependency on /repo.
//!
//! R1: exact torus value of a limb vector.  R2: Z[X]/(X^N+1) index-level operations.
//! R4: normalisation / shift specification.  R7: decision-diagram interpreter + ROBDD (module bdd).

pub mod bdd;
pub mod ring;
pub mod torus;

pub use dashu_int::IBig;

//! R7 - decision-diagram circuits: plain interpreter, hash-consed ROBDD package, bit-blasted word operations.
//!
//! Pure Rust, no dependency on /repo. Three independent pieces:
//!
//! * [`CNode`] / [`interpret`]: the evaluator's level-by-level semantics over plain booleans, written from the
//!   description of the node table (state `[0, 1, 0, ..]`, `Cmux(bit, hi, lo)`, `Copy`, `None`; two buffers that are
//!   swapped after every level, so a `None` slot keeps what the same buffer held two levels earlier; the last chunk
//!   is `[Cmux, None..]` and produces the output).
//! * [`Robdd`]: reduced ordered binary decision diagrams with a unique table (canonical: two functions are equal on
//!   all assignments iff their node ids are equal) and a memoised `ite`.
//! * [`spec_bit`] and [`word_op`]: the RISC-V style u32 word operations, as ROBDDs built gate by gate (ripple
//!   adder/borrow chain, barrel shifter, comparator chain) and as Rust `u32` operators for concrete points.

use std::collections::HashMap;

// -------------------------------------------------------------------------------------------------------------
// circuit tables and the plain interpreter
// -------------------------------------------------------------------------------------------------------------

/// One entry of a compiled circuit table.
#[derive(Clone, Copy, Debug, PartialEq, Eq)]
pub enum CNode {
    /// `Cmux(selector input bit, hi slot, lo slot)`: next[j] = if input[bit] { prev[hi] } else { prev[lo] }
    Cmux(usize, usize, usize),
    /// next[j] = prev[j]
    Copy,
    /// next[j] is not written (keeps what that buffer held two levels earlier)
    None,
}

/// A structural defect of a table (first one found).
#[derive(Clone, Debug, PartialEq, Eq)]
pub struct Structural {
    pub kind: &'static str,
    pub level: usize,
    pub slot: usize,
    pub detail: String,
}

/// Summary of a structurally sound table.
#[derive(Clone, Debug, Default)]
pub struct Shape {
    pub levels: usize,
    pub width: usize,
    pub cmux: usize,
    pub copy: usize,
    pub none: usize,
    /// largest number of slots written (Cmux/Copy) by one level
    pub max_live: usize,
    /// the input bits that occur as selectors (ascending)
    pub selectors: Vec<usize>,
}

/// Structural invariants of one output-bit table.
///
/// * width 0: the evaluator writes zero and never looks at the nodes -> the table must be empty;
/// * width 1 is impossible (slot 1 holds the constant one);
/// * node count is a positive multiple of the width;
/// * every hi/lo index < width, every selector < `input_size`;
/// * definedness: slots 0 and 1 are defined initially (constants 0 and 1); a level defines exactly the slots it
///   writes with Cmux (both operands must be defined) or Copy (source must be defined); a `None` slot is undefined
///   after the level (it holds a value that is two levels old); no Cmux/Copy may read an undefined slot;
/// * the last chunk is `[Cmux, None, None, ..]`.
pub fn check_structure(nodes: &[CNode], width: usize, input_size: usize) -> Result<Shape, Structural> {
    let bad = |kind: &'static str, level: usize, slot: usize, detail: String| Structural {
        kind,
        level,
        slot,
        detail,
    };
    if width == 0 {
        if !nodes.is_empty() {
            return Err(bad("width_zero_with_nodes", 0, 0, format!("{} nodes behind a zero state width", nodes.len())));
        }
        return Ok(Shape::default());
    }
    if width == 1 {
        return Err(bad("width_one", 0, 0, "state width 1 cannot hold the constant one in slot 1".into()));
    }
    if nodes.is_empty() || nodes.len() % width != 0 {
        return Err(bad(
            "node_count_not_multiple_of_width",
            0,
            0,
            format!("{} nodes, width {}", nodes.len(), width),
        ));
    }
    let levels = nodes.len() / width;
    let mut shape = Shape {
        levels,
        width,
        ..Default::default()
    };
    let mut seen_sel = vec![false; input_size];
    let mut def_prev = vec![false; width];
    def_prev[0] = true;
    def_prev[1] = true;
    for (l, chunk) in nodes.chunks(width).enumerate() {
        let last = l + 1 == levels;
        let mut def_next = vec![false; width];
        let mut live = 0;
        for (j, nd) in chunk.iter().enumerate() {
            match *nd {
                CNode::Cmux(sel, hi, lo) => {
                    shape.cmux += 1;
                    live += 1;
                    if sel >= input_size {
                        return Err(bad("selector_out_of_range", l, j, format!("selector {sel} >= input size {input_size}")));
                    }
                    seen_sel[sel] = true;
                    if hi >= width || lo >= width {
                        return Err(bad("slot_index_out_of_range", l, j, format!("hi {hi} / lo {lo} >= width {width}")));
                    }
                    if !def_prev[hi] || !def_prev[lo] {
                        let which = if !def_prev[hi] { hi } else { lo };
                        return Err(bad(
                            "reads_undefined_slot",
                            l,
                            j,
                            format!("Cmux({sel},{hi},{lo}) reads slot {which} which the previous level left undefined"),
                        ));
                    }
                    if last && j != 0 {
                        return Err(bad("last_chunk_shape", l, j, "last chunk must be [Cmux, None, ..]".into()));
                    }
                    def_next[j] = true;
                }
                CNode::Copy => {
                    shape.copy += 1;
                    live += 1;
                    if last {
                        return Err(bad("last_chunk_shape", l, j, "Copy in the last chunk".into()));
                    }
                    if !def_prev[j] {
                        return Err(bad("reads_undefined_slot", l, j, format!("Copy of slot {j} which the previous level left undefined")));
                    }
                    def_next[j] = true;
                }
                CNode::None => {
                    shape.none += 1;
                    if last && j == 0 {
                        return Err(bad("last_chunk_shape", l, j, "last chunk must start with a Cmux".into()));
                    }
                }
            }
        }
        shape.max_live = shape.max_live.max(live);
        def_prev = def_next;
    }
    shape.selectors = (0..input_size).filter(|&i| seen_sel[i]).collect();
    Ok(shape)
}

/// The evaluator's semantics over plain booleans. `input(i)` is input bit i. Total on every table for which the
/// real evaluator does not index out of bounds (callers run [`check_structure`] first); width 0 -> false.
pub fn interpret(nodes: &[CNode], width: usize, input: &dyn Fn(usize) -> bool) -> bool {
    if width == 0 {
        return false;
    }
    let mut a = vec![false; width];
    let mut b = vec![false; width];
    a[1] = true;
    let levels = nodes.len() / width;
    let (mut prev, mut next) = (&mut a, &mut b);
    for (l, chunk) in nodes.chunks(width).enumerate() {
        if l + 1 == levels {
            return match chunk[0] {
                CNode::Cmux(s, hi, lo) => {
                    if input(s) {
                        prev[hi]
                    } else {
                        prev[lo]
                    }
                }
                _ => panic!("invalid last node"),
            };
        }
        for (j, nd) in chunk.iter().enumerate() {
            match *nd {
                CNode::Cmux(s, hi, lo) => next[j] = if input(s) { prev[hi] } else { prev[lo] },
                CNode::Copy => next[j] = prev[j],
                CNode::None => {}
            }
        }
        std::mem::swap(&mut prev, &mut next);
    }
    unreachable!()
}

/// Fast variant of [`interpret`] for 64 input bits packed in a word (bit i of `x` = input i).
#[inline]
pub fn interpret_u64(nodes: &[CNode], width: usize, x: u64, buf: &mut Vec<bool>) -> bool {
    if width == 0 {
        return false;
    }
    buf.clear();
    buf.resize(2 * width, false);
    buf[1] = true;
    let levels = nodes.len() / width;
    let (mut p, mut n) = (0usize, width);
    for (l, chunk) in nodes.chunks(width).enumerate() {
        if l + 1 == levels {
            return match chunk[0] {
                CNode::Cmux(s, hi, lo) => {
                    if (x >> s) & 1 == 1 {
                        buf[p + hi]
                    } else {
                        buf[p + lo]
                    }
                }
                _ => panic!("invalid last node"),
            };
        }
        for (j, nd) in chunk.iter().enumerate() {
            match *nd {
                CNode::Cmux(s, hi, lo) => buf[n + j] = if (x >> s) & 1 == 1 { buf[p + hi] } else { buf[p + lo] },
                CNode::Copy => buf[n + j] = buf[p + j],
                CNode::None => {}
            }
        }
        std::mem::swap(&mut p, &mut n);
    }
    unreachable!()
}

// -------------------------------------------------------------------------------------------------------------
// ROBDD
// -------------------------------------------------------------------------------------------------------------

/// Node id. 0 = constant false, 1 = constant true.
pub type Bdd = u32;
pub const FALSE: Bdd = 0;
pub const TRUE: Bdd = 1;

#[derive(Clone, Copy)]
struct N {
    level: u32,
    lo: Bdd,
    hi: Bdd,
}

const TERMINAL_LEVEL: u32 = u32::MAX;

/// Reduced ordered BDD manager without complement edges: every Boolean function over the variables has exactly one
/// node id (reduction rule `lo == hi -> lo`, unique table on `(level, lo, hi)`), so equality of functions on all
/// assignments is equality of ids.
pub struct Robdd {
    nodes: Vec<N>,
    unique: HashMap<(u32, Bdd, Bdd), Bdd>,
    cache: HashMap<(Bdd, Bdd, Bdd), Bdd>,
    /// level_of[variable]
    level_of: Vec<u32>,
    /// var_at[level]
    var_at: Vec<usize>,
    /// number of (non-trivial) recursive `ite` steps performed
    pub ite_steps: u64,
}

impl Robdd {
    /// `order[k]` = the variable tested at depth k (root first). Must be a permutation of `0..order.len()`.
    pub fn new(order: &[usize]) -> Self {
        let nv = order.len();
        let mut level_of = vec![u32::MAX; nv];
        for (l, &v) in order.iter().enumerate() {
            assert!(v < nv && level_of[v] == u32::MAX, "order is not a permutation");
            level_of[v] = l as u32;
        }
        let t = N {
            level: TERMINAL_LEVEL,
            lo: 0,
            hi: 0,
        };
        Robdd {
            nodes: vec![t, N { lo: 1, hi: 1, ..t }],
            unique: HashMap::new(),
            cache: HashMap::new(),
            level_of,
            var_at: order.to_vec(),
            ite_steps: 0,
        }
    }

    /// number of internal nodes ever created
    pub fn nodes_created(&self) -> u64 {
        (self.nodes.len() - 2) as u64
    }

    pub fn num_vars(&self) -> usize {
        self.var_at.len()
    }

    fn mk(&mut self, level: u32, lo: Bdd, hi: Bdd) -> Bdd {
        if lo == hi {
            return lo;
        }
        if let Some(&id) = self.unique.get(&(level, lo, hi)) {
            return id;
        }
        let id = self.nodes.len() as Bdd;
        assert!(id < u32::MAX - 1, "ROBDD node table overflow");
        self.nodes.push(N { level, lo, hi });
        self.unique.insert((level, lo, hi), id);
        id
    }

    /// the function "variable v"
    pub fn var(&mut self, v: usize) -> Bdd {
        let l = self.level_of[v];
        self.mk(l, FALSE, TRUE)
    }

    #[inline]
    fn level(&self, f: Bdd) -> u32 {
        self.nodes[f as usize].level
    }

    #[inline]
    fn cof(&self, f: Bdd, level: u32) -> (Bdd, Bdd) {
        let n = self.nodes[f as usize];
        if n.level == level { (n.lo, n.hi) } else { (f, f) }
    }

    /// if f then g else h
    pub fn ite(&mut self, f: Bdd, g: Bdd, h: Bdd) -> Bdd {
        // terminal cases
        if f == TRUE {
            return g;
        }
        if f == FALSE {
            return h;
        }
        if g == h {
            return g;
        }
        if g == TRUE && h == FALSE {
            return f;
        }
        if let Some(&r) = self.cache.get(&(f, g, h)) {
            return r;
        }
        self.ite_steps += 1;
        let top = self.level(f).min(self.level(g)).min(self.level(h));
        let (f0, f1) = self.cof(f, top);
        let (g0, g1) = self.cof(g, top);
        let (h0, h1) = self.cof(h, top);
        let lo = self.ite(f0, g0, h0);
        let hi = self.ite(f1, g1, h1);
        let r = self.mk(top, lo, hi);
        self.cache.insert((f, g, h), r);
        r
    }

    pub fn not(&mut self, f: Bdd) -> Bdd {
        self.ite(f, FALSE, TRUE)
    }
    pub fn and(&mut self, f: Bdd, g: Bdd) -> Bdd {
        self.ite(f, g, FALSE)
    }
    pub fn or(&mut self, f: Bdd, g: Bdd) -> Bdd {
        self.ite(f, TRUE, g)
    }
    pub fn xor(&mut self, f: Bdd, g: Bdd) -> Bdd {
        let ng = self.not(g);
        self.ite(f, ng, g)
    }

    /// value of f under the assignment `input(variable)`
    pub fn eval(&self, mut f: Bdd, input: &dyn Fn(usize) -> bool) -> bool {
        loop {
            if f <= 1 {
                return f == TRUE;
            }
            let n = self.nodes[f as usize];
            f = if input(self.var_at[n.level as usize]) { n.hi } else { n.lo };
        }
    }

    /// the variables f depends on (ascending variable index)
    pub fn support(&self, f: Bdd) -> Vec<usize> {
        let mut seen = std::collections::HashSet::new();
        let mut vars = vec![false; self.var_at.len()];
        let mut stack = vec![f];
        while let Some(x) = stack.pop() {
            if x <= 1 || !seen.insert(x) {
                continue;
            }
            let n = self.nodes[x as usize];
            vars[self.var_at[n.level as usize]] = true;
            stack.push(n.lo);
            stack.push(n.hi);
        }
        (0..vars.len()).filter(|&v| vars[v]).collect()
    }

    /// number of distinct internal nodes reachable from f
    pub fn size(&self, f: Bdd) -> usize {
        let mut seen = std::collections::HashSet::new();
        let mut stack = vec![f];
        while let Some(x) = stack.pop() {
            if x <= 1 || !seen.insert(x) {
                continue;
            }
            let n = self.nodes[x as usize];
            stack.push(n.lo);
            stack.push(n.hi);
        }
        seen.len()
    }

    /// one satisfying assignment of f (variables not on the path are false); None iff f is the constant false.
    pub fn any_sat(&self, mut f: Bdd) -> Option<Vec<bool>> {
        if f == FALSE {
            return None;
        }
        let mut asg = vec![false; self.var_at.len()];
        while f > 1 {
            let n = self.nodes[f as usize];
            let v = self.var_at[n.level as usize];
            // in a reduced diagram every internal node has a path to TRUE; prefer lo
            if n.lo != FALSE {
                f = n.lo;
            } else {
                asg[v] = true;
                f = n.hi;
            }
        }
        Some(asg)
    }

    /// number of satisfying assignments over all variables of the manager, as f64-free exact u128 (<= 2^nv, nv <= 127)
    pub fn sat_count(&self, f: Bdd) -> u128 {
        let nv = self.var_at.len() as u32;
        assert!(nv <= 120);
        let mut memo: HashMap<Bdd, u128> = HashMap::new();
        // count(f) = number of assignments of the variables at levels >= level(f) satisfying f
        fn go(m: &Robdd, f: Bdd, nv: u32, memo: &mut HashMap<Bdd, u128>) -> u128 {
            if f == FALSE {
                return 0;
            }
            if f == TRUE {
                return 1;
            }
            if let Some(&c) = memo.get(&f) {
                return c;
            }
            let n = m.nodes[f as usize];
            let lv = |x: Bdd| if x <= 1 { nv } else { m.nodes[x as usize].level };
            let c = (go(m, n.lo, nv, memo) << (lv(n.lo) - n.level - 1)) + (go(m, n.hi, nv, memo) << (lv(n.hi) - n.level - 1));
            memo.insert(f, c);
            c
        }
        let top = if f <= 1 { nv } else { self.nodes[f as usize].level };
        go(self, f, nv, &mut memo) << top
    }
}

/// Symbolic run of a table under the evaluator's semantics: every slot holds a ROBDD; returns the output function.
/// `var_of_input[i]` is the manager variable for input bit i. Caller has run [`check_structure`].
pub fn symbolic(m: &mut Robdd, nodes: &[CNode], width: usize, var_of_input: &dyn Fn(usize) -> usize) -> Bdd {
    if width == 0 {
        return FALSE;
    }
    let mut a = vec![FALSE; width];
    let mut b = vec![FALSE; width];
    a[1] = TRUE;
    let levels = nodes.len() / width;
    let (mut prev, mut next) = (&mut a, &mut b);
    for (l, chunk) in nodes.chunks(width).enumerate() {
        if l + 1 == levels {
            return match chunk[0] {
                CNode::Cmux(s, hi, lo) => {
                    let x = m.var(var_of_input(s));
                    m.ite(x, prev[hi], prev[lo])
                }
                _ => panic!("invalid last node"),
            };
        }
        for (j, nd) in chunk.iter().enumerate() {
            match *nd {
                CNode::Cmux(s, hi, lo) => {
                    let x = m.var(var_of_input(s));
                    next[j] = m.ite(x, prev[hi], prev[lo]);
                }
                CNode::Copy => next[j] = prev[j],
                CNode::None => {}
            }
        }
        std::mem::swap(&mut prev, &mut next);
    }
    unreachable!()
}

// -------------------------------------------------------------------------------------------------------------
// word operations
// -------------------------------------------------------------------------------------------------------------

#[derive(Clone, Copy, Debug, PartialEq, Eq, Hash)]
pub enum WordOp {
    Add,
    Sub,
    Sll,
    Srl,
    Sra,
    Slt,
    Sltu,
    And,
    Or,
    Xor,
    Identity,
}

pub const ALL_WORD_OPS: [WordOp; 11] = [
    WordOp::Add,
    WordOp::Sub,
    WordOp::Sll,
    WordOp::Srl,
    WordOp::Sra,
    WordOp::Slt,
    WordOp::Sltu,
    WordOp::And,
    WordOp::Or,
    WordOp::Xor,
    WordOp::Identity,
];

impl WordOp {
    pub fn name(self) -> &'static str {
        match self {
            WordOp::Add => "add",
            WordOp::Sub => "sub",
            WordOp::Sll => "sll",
            WordOp::Srl => "srl",
            WordOp::Sra => "sra",
            WordOp::Slt => "slt",
            WordOp::Sltu => "sltu",
            WordOp::And => "and",
            WordOp::Or => "or",
            WordOp::Xor => "xor",
            WordOp::Identity => "identity",
        }
    }
    pub fn from_name(s: &str) -> Option<WordOp> {
        ALL_WORD_OPS.iter().copied().find(|o| o.name() == s)
    }
    /// number of meaningful output bits (the comparisons produce one bit)
    pub fn output_bits(self) -> usize {
        match self {
            WordOp::Slt | WordOp::Sltu => 1,
            _ => 32,
        }
    }
    /// number of input bits (identity reads one word)
    pub fn input_bits(self) -> usize {
        match self {
            WordOp::Identity => 32,
            _ => 64,
        }
    }
    pub fn is_shift(self) -> bool {
        matches!(self, WordOp::Sll | WordOp::Srl | WordOp::Sra)
    }
    /// A good variable order: shift-amount bits first for the shifts (then a, then the ignored bits of b);
    /// a_i, b_i interleaved LSB-first otherwise. Variable v in 0..32 = a_v, in 32..64 = b_{v-32}.
    pub fn order(self) -> Vec<usize> {
        let mut o = Vec::with_capacity(64);
        if self.is_shift() {
            o.extend(32..37);
            o.extend(0..32);
            o.extend(37..64);
        } else {
            for i in 0..32 {
                o.push(i);
                o.push(32 + i);
            }
        }
        o
    }
}

/// RISC-V word semantics on concrete values (R10): shift amount = low 5 bits of b; slt signed; sra arithmetic.
pub fn word_op(op: WordOp, a: u32, b: u32) -> u32 {
    match op {
        WordOp::Add => a.wrapping_add(b),
        WordOp::Sub => a.wrapping_sub(b),
        WordOp::Sll => a << (b & 31),
        WordOp::Srl => a >> (b & 31),
        WordOp::Sra => ((a as i32) >> (b & 31)) as u32,
        WordOp::Slt => ((a as i32) < (b as i32)) as u32,
        WordOp::Sltu => (a < b) as u32,
        WordOp::And => a & b,
        WordOp::Or => a | b,
        WordOp::Xor => a ^ b,
        WordOp::Identity => a,
    }
}

/// All output bits of `op` as ROBDDs over the manager's variables (a_i = variable i, b_i = variable 32+i), built
/// gate by gate: ripple-carry adder, ripple-borrow subtractor, five-stage barrel shifters, LSB-first comparator chain.
pub fn spec_bits(m: &mut Robdd, op: WordOp) -> Vec<Bdd> {
    let a: Vec<Bdd> = (0..32).map(|i| m.var(i)).collect();
    let b: Vec<Bdd> = (0..32).map(|i| m.var(32 + i)).collect();
    match op {
        WordOp::And => (0..32).map(|i| m.and(a[i], b[i])).collect(),
        WordOp::Or => (0..32).map(|i| m.or(a[i], b[i])).collect(),
        WordOp::Xor => (0..32).map(|i| m.xor(a[i], b[i])).collect(),
        WordOp::Identity => a,
        WordOp::Add => {
            let mut c = FALSE;
            let mut out = vec![];
            for i in 0..32 {
                let x = m.xor(a[i], b[i]);
                out.push(m.xor(x, c));
                // carry = majority(a, b, c) = a&b | c&(a^b)
                let ab = m.and(a[i], b[i]);
                let cx = m.and(c, x);
                c = m.or(ab, cx);
            }
            out
        }
        WordOp::Sub => {
            let mut br = FALSE;
            let mut out = vec![];
            for i in 0..32 {
                let x = m.xor(a[i], b[i]);
                out.push(m.xor(x, br));
                // borrow = !a&b | !(a^b)&borrow
                let na = m.not(a[i]);
                let nab = m.and(na, b[i]);
                let nx = m.not(x);
                let nxb = m.and(nx, br);
                br = m.or(nab, nxb);
            }
            out
        }
        WordOp::Sll | WordOp::Srl | WordOp::Sra => {
            let fill = if op == WordOp::Sra { a[31] } else { FALSE };
            let mut x = a;
            for k in 0..5 {
                let d = 1usize << k;
                let mut y = vec![FALSE; 32];
                for i in 0..32 {
                    let shifted = if op == WordOp::Sll {
                        if i >= d { x[i - d] } else { FALSE }
                    } else if i + d < 32 {
                        x[i + d]
                    } else {
                        fill
                    };
                    y[i] = m.ite(b[k], shifted, x[i]);
                }
                x = y;
            }
            x
        }
        WordOp::Slt | WordOp::Sltu => {
            // lt over bits 0..n: lt_{i+1} = if a_i != b_i then b_i else lt_i  (the highest differing bit decides)
            let mut lt = FALSE;
            for i in 0..31 {
                let x = m.xor(a[i], b[i]);
                lt = m.ite(x, b[i], lt);
            }
            let x = m.xor(a[31], b[31]);
            // unsigned: a < b iff b has the 1 at the top differing bit; signed: the operand with sign bit 1 is smaller
            let top = if op == WordOp::Slt { a[31] } else { b[31] };
            vec![m.ite(x, top, lt)]
        }
    }
}

/// Bit `bit` of `op` (convenience over [`spec_bits`]); bits beyond `output_bits` are the constant false.
pub fn spec_bit(m: &mut Robdd, op: WordOp, bit: usize) -> Bdd {
    let v = spec_bits(m, op);
    v.get(bit).copied().unwrap_or(FALSE)
}

#[cfg(test)]
mod tests {
    use super::*;

    fn rng(s: &mut u64) -> u64 {
        *s = s.wrapping_add(0x9E3779B97F4A7C15);
        let mut z = *s;
        z = (z ^ (z >> 30)).wrapping_mul(0xBF58476D1CE4E5B9);
        z = (z ^ (z >> 27)).wrapping_mul(0x94D049BB133111EB);
        z ^ (z >> 31)
    }

    #[test]
    fn spec_matches_u32_on_points() {
        let mut s = 1u64;
        for &op in ALL_WORD_OPS.iter() {
            let mut m = Robdd::new(&op.order());
            let bits = spec_bits(&mut m, op);
            for t in 0..2000 {
                let (a, b) = match t {
                    0 => (0, 0),
                    1 => (u32::MAX, u32::MAX),
                    2 => (0x8000_0000, 1),
                    3 => (1, 0x8000_0000),
                    _ => (rng(&mut s) as u32, rng(&mut s) as u32),
                };
                let want = word_op(op, a, b);
                let x = (a as u64) | ((b as u64) << 32);
                for (i, &f) in bits.iter().enumerate() {
                    assert_eq!(m.eval(f, &|v| (x >> v) & 1 == 1), (want >> i) & 1 == 1, "{:?} bit {i} a={a:#x} b={b:#x}", op);
                }
            }
        }
    }

    #[test]
    fn canonical_and_counts() {
        let mut m = Robdd::new(&[0, 1, 2]);
        let (x, y, z) = (m.var(0), m.var(1), m.var(2));
        let a = m.and(x, y);
        let b = m.and(y, x);
        assert_eq!(a, b);
        let o1 = m.or(a, z);
        let nz = m.not(z);
        let na = m.not(a);
        let t = m.and(na, nz);
        let o2 = m.not(t);
        assert_eq!(o1, o2);
        assert_eq!(m.sat_count(o1), 5);
        assert_eq!(m.sat_count(TRUE), 8);
        assert_eq!(m.support(a), vec![0, 1]);
        let w = m.any_sat(a).unwrap();
        assert!(w[0] && w[1]);
    }

    #[test]
    fn interpreter_basic() {
        // out = x0 ? 1 : 0 with width 2: single level [Cmux(0,1,0), None]
        let t = [CNode::Cmux(0, 1, 0), CNode::None];
        assert!(check_structure(&t, 2, 64).is_ok());
        assert!(interpret(&t, 2, &|i| i == 0));
        assert!(!interpret(&t, 2, &|_| false));
        // reading an undefined slot
        let t = [CNode::None, CNode::Copy, CNode::Cmux(0, 1, 0), CNode::Cmux(1, 2, 0), CNode::None, CNode::None];
        assert_eq!(check_structure(&t, 3, 64).unwrap_err().kind, "reads_undefined_slot");
    }
}

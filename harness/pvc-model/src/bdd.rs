//! R7 (filled in with the C13 check).

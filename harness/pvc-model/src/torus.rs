//! R1 - exact value of a limb vector: sum_j limb[j] * 2^{-(j+1) b}, as an integer scaled by 2^{size*b}.

use dashu_int::IBig;

/// value * 2^(size*b) as a big integer (limbs may be un-normalised, any i64).
pub fn value_scaled(limbs: &[i64], b: usize) -> IBig {
    let mut acc = IBig::from(0);
    for &l in limbs {
        acc = (acc << b) + IBig::from(l);
    }
    acc
}

/// same with i128 limbs (big accumulators)
pub fn value_scaled_i128(limbs: &[i128], b: usize) -> IBig {
    let mut acc = IBig::from(0);
    for &l in limbs {
        acc = (acc << b) + IBig::from(l);
    }
    acc
}

/// i128 fast path; caller guarantees size*b + 64 <= 126.
pub fn value_scaled_small(limbs: &[i64], b: usize) -> i128 {
    let mut acc: i128 = 0;
    for &l in limbs {
        acc = (acc << b) + l as i128;
    }
    acc
}

/// centered residue of x modulo 2^bits, in [-2^(bits-1), 2^(bits-1))
pub fn centered_mod_pow2(x: &IBig, bits: usize) -> IBig {
    if bits == 0 {
        return IBig::from(0);
    }
    let m: IBig = IBig::from(1) << bits;
    let half: IBig = IBig::from(1) << (bits - 1);
    let mut r = x % &m; // sign follows dividend
    if r < IBig::from(0) {
        r += &m;
    }
    if r >= half {
        r -= &m;
    }
    r
}

pub fn centered_mod_pow2_i128(x: i128, bits: usize) -> i128 {
    debug_assert!(bits > 0 && bits < 127);
    let m: i128 = 1i128 << bits;
    let mut r = x.rem_euclid(m);
    if r >= m >> 1 {
        r -= m;
    }
    r
}

/// Torus distance: |a/2^abits - c/2^cbits| mod 1, returned scaled by 2^max(abits,cbits), centered.
pub fn torus_diff(a: &IBig, abits: usize, c: &IBig, cbits: usize) -> (IBig, usize) {
    let bits = abits.max(cbits);
    let aa: IBig = a << (bits - abits);
    let cc: IBig = c << (bits - cbits);
    (centered_mod_pow2(&(aa - cc), bits), bits)
}

pub fn abs(x: &IBig) -> IBig {
    if *x < IBig::from(0) { -x.clone() } else { x.clone() }
}

pub fn pow2(bits: usize) -> IBig {
    IBig::from(1) << bits
}

//! Helpers shared by C02 and C05: aligned allocation/copies of core layouts, garbage-filled scratch, exact
//! polynomial arithmetic on big integers (reference model R2 on exact values), value alphabets.

use poulpy_core::layouts::{
    Base2K, Degree, GLWE, GLWEPlaintext, GLWETensor, LWEInfos, Rank, TorusPrecision,
};
use poulpy_hal::alloc_aligned;
use poulpy_hal::layouts::{DataRef, Scratch, VecZnx, ZnxInfos, ZnxView, ZnxViewMut};
use pvc_common::Bk;
use pvc_engine::rng::{Rng, garbage};
use pvc_model::IBig;
use pvc_model::torus;

pub type Poly = Vec<IBig>;

pub fn glwe_alloc(n: usize, b: usize, size: usize, rank: usize) -> GLWE<Vec<u8>> {
    GLWE::alloc(
        Degree(n as u32),
        Base2K(b as u32),
        TorusPrecision((size * b) as u32),
        Rank(rank as u32),
    )
}

pub fn tensor_alloc(n: usize, b: usize, size: usize, rank: usize) -> GLWETensor<Vec<u8>> {
    GLWETensor::alloc(
        Degree(n as u32),
        Base2K(b as u32),
        TorusPrecision((size * b) as u32),
        Rank(rank as u32),
    )
}

pub fn pt_alloc(n: usize, b: usize, size: usize) -> GLWEPlaintext<Vec<u8>> {
    GLWEPlaintext::alloc(
        Degree(n as u32),
        Base2K(b as u32),
        TorusPrecision((size * b) as u32),
    )
}

/// aligned deep copy (Vec::clone would lose the 64-byte alignment)
pub fn glwe_clone(g: &GLWE<Vec<u8>>) -> GLWE<Vec<u8>> {
    let mut out = glwe_alloc(
        g.n().0 as usize,
        g.base2k().0 as usize,
        g.size(),
        g.data().cols() - 1,
    );
    out.data_mut().raw_mut().copy_from_slice(g.data().raw());
    out
}

pub fn tensor_clone(g: &GLWETensor<Vec<u8>>, rank: usize) -> GLWETensor<Vec<u8>> {
    let mut out = tensor_alloc(g.n().0 as usize, g.base2k().0 as usize, g.size(), rank);
    out.data_mut().raw_mut().copy_from_slice(g.data().raw());
    out
}

/// owned, aligned copy of any VecZnx view
pub fn vec_owned<D: DataRef>(v: &VecZnx<D>) -> VecZnx<Vec<u8>> {
    let mut out = VecZnx::alloc(v.n(), v.cols(), v.size());
    for c in 0..v.cols() {
        for j in 0..v.size() {
            out.at_mut(c, j).copy_from_slice(v.at(c, j));
        }
    }
    out
}

thread_local! {
    static SCRATCH: std::cell::RefCell<[Vec<u8>; 4]> = const { std::cell::RefCell::new([Vec::new(), Vec::new(), Vec::new(), Vec::new()]) };
}

/// Runs `f` with a scratch arena of at least `bytes` bytes pre-filled with garbage pattern `which`.
/// The arena is a per-thread, per-pattern buffer (a fresh multi-megabyte allocation per call would serialise the
/// workers in the kernel); the first `query + 16 KiB` bytes are re-filled before every call, the remainder keeps
/// the pattern of the initial full fill (never zeros). `bytes` = companion query + slack (callers add 1 MiB).
pub fn with_scratch<B: Bk, T>(
    bytes: usize,
    which: usize,
    f: impl FnOnce(&mut Scratch<B>) -> T,
) -> T {
    let bytes = bytes.div_ceil(64) * 64 + 64;
    let which = which & 3;
    // take the buffer out of the cell so that a panic inside `f` cannot leave it borrowed
    let mut buf = SCRATCH.with(|c| std::mem::take(&mut c.borrow_mut()[which]));
    if buf.len() < bytes {
        buf = alloc_aligned::<u8>(bytes.max(2 << 20));
        garbage(&mut buf, which);
    } else {
        let hot = (bytes.saturating_sub(1 << 20) + (16 << 10)).min(buf.len());
        garbage(&mut buf[..hot], which);
    }
    let r = std::panic::catch_unwind(std::panic::AssertUnwindSafe(|| {
        f(B::scratch_from_bytes(&mut buf[..bytes]))
    }));
    SCRATCH.with(|c| c.borrow_mut()[which] = buf);
    match r {
        Ok(v) => v,
        Err(e) => std::panic::resume_unwind(e),
    }
}

// ---------------------------------------------------------------------------------------------
// exact polynomial arithmetic in Z[X]/(X^N+1) on big integers
// ---------------------------------------------------------------------------------------------

pub fn pzero(n: usize) -> Poly {
    vec![IBig::from(0); n]
}

pub fn padd(a: &Poly, b: &Poly) -> Poly {
    a.iter().zip(b).map(|(x, y)| x + y).collect()
}

pub fn psub(a: &Poly, b: &Poly) -> Poly {
    a.iter().zip(b).map(|(x, y)| x - y).collect()
}

pub fn pneg(a: &Poly) -> Poly {
    a.iter().map(|x| -x.clone()).collect()
}

pub fn pshl(a: &Poly, k: usize) -> Poly {
    a.iter().map(|x| x << k).collect()
}

/// a * X^k, any k in Z
pub fn prot(a: &Poly, k: i64) -> Poly {
    let n = a.len() as i64;
    let two_n = 2 * n;
    let kk = k.rem_euclid(two_n);
    let mut out = pzero(a.len());
    for (i, c) in a.iter().enumerate() {
        let e = (i as i64 + kk) % two_n;
        if e < n {
            out[e as usize] = c.clone();
        } else {
            out[(e - n) as usize] = -c.clone();
        }
    }
    out
}

/// exact negacyclic product (schoolbook, from the definition)
pub fn pmul(a: &Poly, b: &Poly) -> Poly {
    let n = a.len();
    let zero = IBig::from(0);
    let mut out = pzero(n);
    for i in 0..n {
        if a[i] == zero {
            continue;
        }
        for j in 0..n {
            if b[j] == zero {
                continue;
            }
            let t: IBig = &a[i] * &b[j];
            let k = i + j;
            if k < n {
                out[k] += t;
            } else {
                out[k - n] -= t;
            }
        }
    }
    out
}

pub fn pmul_small(a: &Poly, s: &[i64]) -> Poly {
    pvc_common::phase::negacyclic_mul_small(a, s)
}

/// negacyclic product of two small polynomials
pub fn small_mul(a: &[i64], b: &[i64]) -> Vec<i64> {
    let n = a.len();
    let mut out = vec![0i64; n];
    for i in 0..n {
        for j in 0..n {
            let p = a[i] * b[j];
            let k = i + j;
            if k < n {
                out[k] += p;
            } else {
                out[k - n] -= p;
            }
        }
    }
    out
}

pub fn l1(s: &[i64]) -> u64 {
    s.iter().map(|x| x.unsigned_abs()).sum()
}

/// exact value (scaled by 2^(size*b)) of every coefficient of column `col` of any VecZnx view
pub fn col_vals<D: DataRef>(v: &VecZnx<D>, col: usize, b: usize) -> Poly {
    let n = v.n();
    let size = v.size();
    (0..n)
        .map(|i| {
            let digits: Vec<i64> = (0..size).map(|j| v.at(col, j)[i]).collect();
            torus::value_scaled(&digits, b)
        })
        .collect()
}

/// centered residues of (got*2^(l-gbits) - want) modulo 2^l, `want` already scaled by 2^l; returns max |.|
pub fn max_torus_err(got: &Poly, gbits: usize, want: &Poly, l: usize) -> (IBig, usize) {
    let mut worst = IBig::from(0);
    let mut at = 0usize;
    for (i, (g, w)) in got.iter().zip(want).enumerate() {
        let gg: IBig = g << (l - gbits);
        let d = torus::abs(&torus::centered_mod_pow2(&(gg - w), l));
        if d > worst {
            worst = d;
            at = i;
        }
    }
    (worst, at)
}

/// floating approximation of x / 2^bits (reporting only)
pub fn approx_units(x: &IBig, bits: usize) -> f64 {
    let q: IBig = if bits >= 10 {
        x >> (bits - 10)
    } else {
        x << (10 - bits)
    };
    q.to_string().parse::<f64>().unwrap_or(f64::INFINITY) / 1024.0
}

// ---------------------------------------------------------------------------------------------
// value alphabets
// ---------------------------------------------------------------------------------------------

/// Value classes of operand contents.
/// 0 = normalised random digits; 1 = extreme digits (alternating -2^(b-1) / 2^(b-1)-1, aligned per limb);
/// 2 = carry ripple (all digits 2^(b-1)-1, signs per coefficient); 3 = un-normalised random digits in
/// [-2^(b+1), 2^(b+1)] (only for operations that normalise).
pub fn fill_class<D: poulpy_hal::layouts::DataMut>(
    v: &mut VecZnx<D>,
    b: usize,
    class: usize,
    rng: &mut Rng,
) {
    let (n, cols, size) = (v.n(), v.cols(), v.size());
    let h = 1i64 << (b - 1);
    for c in 0..cols {
        for j in 0..size {
            let s = v.at_mut(c, j);
            for (i, x) in s.iter_mut().enumerate().take(n) {
                *x = match class {
                    0 => rng.digit(b),
                    1 => {
                        if (i + j + c) % 2 == 0 {
                            -h
                        } else {
                            h - 1
                        }
                    }
                    2 => {
                        if (i + c) % 3 == 0 {
                            -h
                        } else {
                            h - 1
                        }
                    }
                    _ => rng.range_i64(-(1i64 << (b + 1)), 1i64 << (b + 1)),
                };
            }
        }
    }
}

//! Shared by the pvc-ops parts of the cross-cutting properties C10 / C11 / C12: one driver that builds the inputs of
//! every operation of C02 / C05 from a backend-independent case descriptor, performs the real call with the scratch
//! policy of the calling check and returns the raw bytes of every result plus digests of the read-only operands.

use crate::c02::{self, Op};
use crate::util::*;
use poulpy_core::layouts::{
    Base2K, Degree, Dnum, Dsize, GGLWEToRef, GGSW, GLWE, GLWESecret, GLWETensorKey, GLWETensorKeyLayout, LWEInfos, Rank,
    TorusPrecision,
};
use poulpy_core::{
    EncryptionLayout, GGSWRotate, GLWEMulConst, GLWEMulPlain, GLWETensorKeyEncryptSk, GLWETensoring, ScratchTakeCore,
    layouts::GLWETensorKeyPreparedFactory,
};
use poulpy_hal::layouts::{Module, Scratch, ZnxView, ZnxViewMut};
use poulpy_hal::source::Source;
use pvc_common::{Bk, CoreAll, HalAll};
use pvc_engine::rng::{Rng, garbage};
use pvc_engine::{Tier, fnv};
use serde::{Deserialize, Serialize};

const MIB: usize = 1 << 20;
const CANARY: u8 = 0xC5;

#[derive(Clone, Debug, Serialize, Deserialize, PartialEq, Eq)]
pub struct XCase {
    /// library routine (glwe_add_into ... glwe_normalize_assign, ggsw_rotate(_assign), glwe_tensor_apply,
    /// glwe_tensor_apply_add_assign, glwe_tensor_square_apply, glwe_tensor_relinearize, glwe_tensor_key_encrypt_sk,
    /// glwe_mul_plain(_assign), glwe_mul_const(_assign), pipeline_mul)
    pub op: String,
    pub n: usize,
    /// rank of the result
    pub rank: usize,
    pub ra: usize,
    pub rb: usize,
    /// radix of the operands / of the result / of the tensor key
    pub b: usize,
    pub b_res: usize,
    pub b_key: usize,
    pub a_size: usize,
    pub b_size: usize,
    pub res_size: usize,
    pub a_k: usize,
    pub b_k: usize,
    /// rotation, shift or cnv_offset
    pub p: i64,
    pub dsize: usize,
    pub dnum: usize,
    pub key_size: usize,
    pub val: usize,
}

impl XCase {
    pub fn glwe_op(&self) -> Option<Op> {
        c02::ALL_OPS.iter().copied().find(|o| o.name() == self.op)
    }
    /// hash of the case (backend-independent: the same inputs on every backend)
    pub fn key(&self) -> u64 {
        fnv(format!("{:?}", self).as_bytes())
    }
    /// the case lies in the FFT64 magnitude domain (N * terms * 4 * 2^(2b) <= 2^50)
    pub fn fft64_ok(&self) -> bool {
        self.b <= 17 && self.b_key <= 17
    }
}

/// scratch policy of the calling check
#[derive(Clone, Copy, Debug)]
pub enum Scr {
    /// companion query + 1 MiB, pre-filled with the garbage pattern
    Slack { fill: usize },
    /// a window of exactly the companion query's bytes between canaries, pre-filled with the pattern
    Exact { fill: usize },
}

#[derive(Clone, Debug)]
pub struct ScrEvent {
    pub op: String,
    pub bytes: usize,
    pub canaries_ok: bool,
    pub completed: bool,
}

#[derive(Default)]
pub struct ScrLog {
    pub events: Vec<ScrEvent>,
}

/// hands the scratch of the policy to `f`; `query` = the bytes the operation's own companion query returned
pub fn provide<B: Bk, T>(scr: Scr, log: &mut ScrLog, op: &str, query: usize, f: impl FnOnce(&mut Scratch<B>) -> T) -> T {
    log.events.push(ScrEvent {
        op: op.to_string(),
        bytes: query,
        canaries_ok: true,
        completed: false,
    });
    let r = match scr {
        Scr::Slack { fill } => with_scratch::<B, _>(query + MIB, fill, f),
        Scr::Exact { fill } => {
            let pad = 128usize;
            let mut buf = poulpy_hal::alloc_aligned::<u8>(pad + query + pad + 64);
            buf.fill(CANARY);
            garbage(&mut buf[pad..pad + query], fill);
            let r = f(B::scratch_from_bytes(&mut buf[pad..pad + query]));
            let ok = buf[..pad].iter().all(|x| *x == CANARY) && buf[pad + query..].iter().all(|x| *x == CANARY);
            log.events.last_mut().unwrap().canaries_ok = ok;
            r
        }
    };
    log.events.last_mut().unwrap().completed = true;
    r
}

pub struct XOut {
    /// named result buffers, in program order
    pub results: Vec<(String, Vec<u8>)>,
    /// read-only operands: (name, digest before, digest after)
    pub operands: Vec<(String, u64, u64)>,
}

fn raw_bytes(x: &[i64]) -> Vec<u8> {
    x.iter().flat_map(|v| v.to_le_bytes()).collect()
}

fn raw_mut(x: &mut [i64]) -> &mut [u8] {
    // SAFETY: plain reinterpretation of an i64 slice as bytes
    unsafe { std::slice::from_raw_parts_mut(x.as_mut_ptr() as *mut u8, x.len() * 8) }
}

fn dig(x: &[i64]) -> u64 {
    pvc_engine::hash_i64s(x)
}

fn ggsw_alloc(n: usize, b: usize, size: usize, rank: usize, dnum: usize, dsize: usize) -> GGSW<Vec<u8>> {
    GGSW::alloc(
        Degree(n as u32),
        Base2K(b as u32),
        TorusPrecision((size * b) as u32),
        Rank(rank as u32),
        Dnum(dnum as u32),
        Dsize(dsize as u32),
    )
}

fn ggsw_bytes(g: &GGSW<Vec<u8>>, rows: usize, cols: usize, size: usize) -> Vec<u8> {
    let mut out = vec![];
    for r in 0..rows {
        for c in 0..cols {
            let cell = g.at(r, c);
            for i in 0..cols {
                for j in 0..size {
                    out.extend(raw_bytes(cell.data().at(i, j)));
                }
            }
        }
    }
    out
}

fn secret_seed(n: usize, rank: usize) -> [u8; 32] {
    let mut s = [0u8; 32];
    s[0] = 0xD1;
    s[1] = n as u8;
    s[2] = rank as u8;
    s
}

struct KeyMat<B: Bk> {
    layout: GLWETensorKeyLayout,
    tsk: GLWETensorKey<Vec<u8>>,
    prep: poulpy_core::layouts::GLWETensorKeyPrepared<poulpy_hal::layouts::DeviceBuf<B>, B>,
}

/// tensor key generation + preparation (each with the scratch of `scr`)
fn keygen<B: Bk>(m: &Module<B>, c: &XCase, res_fill: usize, scr: Scr, log: &mut ScrLog) -> KeyMat<B>
where
    Module<B>: HalAll<B> + CoreAll<B>,
    Scratch<B>: ScratchTakeCore<B>,
{
    let mut sk = GLWESecret::alloc(Degree(c.n as u32), Rank(c.rank as u32));
    sk.fill_ternary_prob(0.5, &mut Source::new(secret_seed(c.n, c.rank)));
    let layout = GLWETensorKeyLayout {
        n: Degree(c.n as u32),
        base2k: Base2K(c.b_key as u32),
        k: TorusPrecision((c.key_size * c.b_key) as u32),
        rank: Rank(c.rank as u32),
        dnum: Dnum(c.dnum as u32),
        dsize: Dsize(c.dsize as u32),
    };
    let enc = EncryptionLayout::new_from_default_sigma(layout).expect("tensor key layout");
    let mut tsk = GLWETensorKey::alloc_from_infos(&layout);
    {
        // every cell of the key is a writable result buffer
        use poulpy_core::layouts::GGLWEToMut;
        let mut kmut = tsk.to_mut();
        let pairs = (c.rank * (c.rank + 1) / 2).max(1);
        for row in 0..c.dnum {
            for p in 0..pairs {
                let mut cell = kmut.at_mut(row, p);
                let v = cell.data_mut();
                for i in 0..c.rank + 1 {
                    for j in 0..c.key_size {
                        garbage(raw_mut(v.at_mut(i, j)), res_fill);
                    }
                }
            }
        }
    }
    let mut xe = Source::new([7u8; 32]);
    let mut xa = Source::new([9u8; 32]);
    let mut prep = m.alloc_tensor_key_prepared_from_infos(&layout);
    let q = m.glwe_tensor_key_encrypt_sk_tmp_bytes(&layout);
    provide::<B, _>(scr, log, "glwe_tensor_key_encrypt_sk", q, |s| {
        m.glwe_tensor_key_encrypt_sk(&mut tsk, &sk, &enc, &mut xe, &mut xa, s)
    });
    let q = m.prepare_tensor_key_tmp_bytes(&layout);
    provide::<B, _>(scr, log, "prepare_tensor_key", q, |s| m.prepare_tensor_key(&mut prep, &tsk, s));
    KeyMat { layout, tsk, prep }
}

fn tsk_bytes(c: &XCase, tsk: &GLWETensorKey<Vec<u8>>) -> Vec<u8> {
    let kref = tsk.to_ref();
    let pairs = (c.rank * (c.rank + 1) / 2).max(1);
    let mut out = vec![];
    for row in 0..c.dnum {
        for p in 0..pairs {
            let cell = kref.at(row, p);
            for i in 0..c.rank + 1 {
                for j in 0..c.key_size {
                    out.extend(raw_bytes(cell.data().at(i, j)));
                }
            }
        }
    }
    out
}

/// Executes the case. `res_fill` = garbage pattern of every writable result buffer that is not an input.
/// May panic (the caller wraps it in `guarded`); `log` tells which hand-over was in flight.
pub fn run_x<B: Bk>(c: &XCase, seed: u64, res_fill: usize, scr: Scr, log: &mut ScrLog) -> XOut
where
    Module<B>: HalAll<B> + CoreAll<B>,
    Scratch<B>: ScratchTakeCore<B>,
{
    let m = B::module(c.n);
    let mut rng = Rng::new(seed, c.key());
    let mut out = XOut {
        results: vec![],
        operands: vec![],
    };
    let cnv = c.p.unsigned_abs() as usize;
    // ---------------- GLWE operations of C02
    if let Some(op) = c.glwe_op() {
        let cls = if op.normalises() && c.val == 1 { 3 } else { c.val };
        let mut a = glwe_alloc(c.n, c.b, c.a_size, c.ra);
        let mut b = glwe_alloc(c.n, c.b, c.b_size, c.rb);
        fill_class(a.data_mut(), c.b, cls, &mut rng);
        fill_class(b.data_mut(), c.b, cls, &mut rng);
        let mut res = glwe_alloc(c.n, c.b_res, c.res_size, c.rank);
        if op.reads_res() {
            fill_class(res.data_mut(), c.b_res, cls, &mut rng);
        } else {
            garbage(raw_mut(res.data_mut().raw_mut()), res_fill);
        }
        let (da, db) = (dig(a.data().raw()), dig(b.data().raw()));
        match c02::own_tmp_bytes::<B>(&m, op) {
            Some(q) => provide::<B, _>(scr, log, op.name(), q, |s| c02::call_with::<B>(&m, op, c.p, &mut res, &a, &b, s)),
            None => {
                // no scratch argument: the driver's signature still wants one
                with_scratch::<B, _>(256, res_fill, |s| c02::call_with::<B>(&m, op, c.p, &mut res, &a, &b, s))
            }
        }
        out.results.push((op.name().to_string(), raw_bytes(res.data().raw())));
        if op.uses_a() {
            out.operands.push(("a".into(), da, dig(a.data().raw())));
        }
        if op.uses_b() {
            out.operands.push(("b".into(), db, dig(b.data().raw())));
        }
        return out;
    }
    let cols = c.rank + 1;
    match c.op.as_str() {
        "ggsw_rotate" | "ggsw_rotate_assign" => {
            let assign = c.op.ends_with("assign");
            let mut a = ggsw_alloc(c.n, c.b, c.a_size, c.rank, c.dnum, c.dsize);
            for row in 0..c.dnum {
                for col in 0..cols {
                    fill_class(a.at_mut(row, col).data_mut(), c.b, 0, &mut rng);
                }
            }
            let mut res = ggsw_alloc(c.n, c.b, c.res_size, c.rank, c.dnum, c.dsize);
            for row in 0..c.dnum {
                for col in 0..cols {
                    if assign {
                        fill_class(res.at_mut(row, col).data_mut(), c.b, 0, &mut rng);
                    } else {
                        let mut cell = res.at_mut(row, col);
                        let v = cell.data_mut();
                        for i in 0..cols {
                            for j in 0..c.res_size {
                                garbage(raw_mut(v.at_mut(i, j)), res_fill);
                            }
                        }
                    }
                }
            }
            let da = fnv(&ggsw_bytes(&a, c.dnum, cols, c.a_size));
            if assign {
                let q = m.ggsw_rotate_tmp_bytes();
                provide::<B, _>(scr, log, "ggsw_rotate_assign", q, |s| m.ggsw_rotate_assign(c.p, &mut res, s));
            } else {
                m.ggsw_rotate(c.p, &mut res, &a);
                out.operands.push(("a".into(), da, fnv(&ggsw_bytes(&a, c.dnum, cols, c.a_size))));
            }
            out.results.push((c.op.clone(), ggsw_bytes(&res, c.dnum, cols, c.res_size)));
        }
        "glwe_tensor_apply" | "glwe_tensor_apply_add_assign" | "glwe_tensor_square_apply" => {
            let square = c.op == "glwe_tensor_square_apply";
            let mut a = glwe_alloc(c.n, c.b, c.a_size, c.rank);
            fill_class(a.data_mut(), c.b, c.val, &mut rng);
            let mut b = glwe_alloc(c.n, c.b, c.b_size, c.rank);
            fill_class(b.data_mut(), c.b, c.val, &mut rng);
            let mut res = tensor_alloc(c.n, c.b_res, c.res_size, c.rank);
            if c.op == "glwe_tensor_apply_add_assign" {
                fill_class(res.data_mut(), c.b_res, 0, &mut rng);
            } else {
                garbage(raw_mut(res.data_mut().raw_mut()), res_fill);
            }
            let (da, db) = (dig(a.data().raw()), dig(b.data().raw()));
            match c.op.as_str() {
                "glwe_tensor_apply" => {
                    let q = m.glwe_tensor_apply_tmp_bytes(&res, &a, &b);
                    provide::<B, _>(scr, log, &c.op, q, |s| m.glwe_tensor_apply(cnv, &mut res, &a, c.a_k, &b, c.b_k, s));
                }
                "glwe_tensor_apply_add_assign" => {
                    let q = m.glwe_tensor_apply_tmp_bytes(&res, &a, &b);
                    provide::<B, _>(scr, log, &c.op, q, |s| {
                        m.glwe_tensor_apply_add_assign(cnv, &mut res, &a, c.a_k, &b, c.b_k, s)
                    });
                }
                _ => {
                    let q = m.glwe_tensor_square_apply_tmp_bytes(&res, &a);
                    provide::<B, _>(scr, log, &c.op, q, |s| m.glwe_tensor_square_apply(cnv, &mut res, &a, c.a_k, s));
                }
            }
            out.results.push((c.op.clone(), raw_bytes(res.data().raw())));
            out.operands.push(("a".into(), da, dig(a.data().raw())));
            if !square {
                out.operands.push(("b".into(), db, dig(b.data().raw())));
            }
        }
        "glwe_tensor_key_encrypt_sk" => {
            // key generation + preparation under the policy; the prepared key is observed through a relinearisation
            let km = keygen::<B>(&m, c, res_fill, scr, log);
            out.results.push(("glwe_tensor_key_encrypt_sk".into(), tsk_bytes(c, &km.tsk)));
            let mut t = tensor_alloc(c.n, c.b_key, c.a_size, c.rank);
            fill_class(t.data_mut(), c.b_key, 0, &mut rng);
            let mut res = glwe_alloc(c.n, c.b_key, c.a_size, c.rank);
            let q = m.glwe_tensor_relinearize_tmp_bytes(&res, &t, &km.layout);
            let size = km.prep.size();
            with_scratch::<B, _>(q + MIB, 0, |s| m.glwe_tensor_relinearize(&mut res, &t, &km.prep, size, s));
            out.results.push(("prepare_tensor_key".into(), raw_bytes(res.data().raw())));
        }
        "glwe_tensor_relinearize" => {
            let mut klog = ScrLog::default();
            let km = keygen::<B>(&m, c, 0, Scr::Slack { fill: 0 }, &mut klog);
            let mut t = tensor_alloc(c.n, c.b, c.a_size, c.rank);
            fill_class(t.data_mut(), c.b, c.val, &mut rng);
            let mut res = glwe_alloc(c.n, c.b_res, c.res_size, c.rank);
            garbage(raw_mut(res.data_mut().raw_mut()), res_fill);
            let dt = dig(t.data().raw());
            let dk = fnv(&tsk_bytes(c, &km.tsk));
            let q = m.glwe_tensor_relinearize_tmp_bytes(&res, &t, &km.layout);
            let size = km.prep.size();
            provide::<B, _>(scr, log, &c.op, q, |s| m.glwe_tensor_relinearize(&mut res, &t, &km.prep, size, s));
            out.results.push((c.op.clone(), raw_bytes(res.data().raw())));
            out.operands.push(("tensor".into(), dt, dig(t.data().raw())));
            out.operands.push(("tensor_key".into(), dk, fnv(&tsk_bytes(c, &km.tsk))));
        }
        "glwe_mul_plain" | "glwe_mul_plain_assign" | "glwe_mul_const" | "glwe_mul_const_assign" => {
            let assign = c.op.ends_with("assign");
            let mut a = glwe_alloc(c.n, c.b, c.a_size, c.rank);
            fill_class(a.data_mut(), c.b, c.val, &mut rng);
            let mut pt = pt_alloc(c.n, c.b, c.b_size);
            fill_class(pt.data_mut(), c.b, c.val, &mut rng);
            let cst: Vec<i64> = (0..c.b_size).map(|_| rng.digit(c.b)).collect();
            let mut res = if assign {
                glwe_clone(&a)
            } else {
                let mut r = glwe_alloc(c.n, c.b_res, c.res_size, c.rank);
                garbage(raw_mut(r.data_mut().raw_mut()), res_fill);
                r
            };
            let (da, dp) = (dig(a.data().raw()), dig(pt.data().raw()));
            match c.op.as_str() {
                "glwe_mul_plain" => {
                    let q = m.glwe_mul_plain_tmp_bytes(&res, &a, &pt);
                    provide::<B, _>(scr, log, &c.op, q, |s| m.glwe_mul_plain(cnv, &mut res, &a, c.a_k, &pt, c.b_k, s));
                }
                "glwe_mul_plain_assign" => {
                    let q = m.glwe_mul_plain_tmp_bytes(&res, &res, &pt);
                    provide::<B, _>(scr, log, &c.op, q, |s| m.glwe_mul_plain_assign(cnv, &mut res, c.a_k, &pt, c.b_k, s));
                }
                "glwe_mul_const" => {
                    let q = m.glwe_mul_const_tmp_bytes(&res, &a, cst.len());
                    provide::<B, _>(scr, log, &c.op, q, |s| m.glwe_mul_const(cnv, &mut res, &a, &cst, s));
                }
                _ => {
                    let q = m.glwe_mul_const_tmp_bytes(&res, &res, cst.len());
                    provide::<B, _>(scr, log, &c.op, q, |s| m.glwe_mul_const_assign(cnv, &mut res, &cst, s));
                }
            }
            out.results.push((c.op.clone(), raw_bytes(res.data().raw())));
            if !assign {
                out.operands.push(("a".into(), da, dig(a.data().raw())));
            }
            if c.op.contains("plain") {
                out.operands.push(("plaintext".into(), dp, dig(pt.data().raw())));
            }
        }
        "pipeline_mul" => {
            // key generation, tensor product, relinearisation, plaintext product, constant product (in place)
            let km = keygen::<B>(&m, c, res_fill, scr, log);
            out.results.push(("glwe_tensor_key_encrypt_sk".into(), tsk_bytes(c, &km.tsk)));
            let mut a = glwe_alloc(c.n, c.b, c.a_size, c.rank);
            fill_class(a.data_mut(), c.b, c.val, &mut rng);
            let mut b = glwe_alloc(c.n, c.b, c.b_size, c.rank);
            fill_class(b.data_mut(), c.b, 0, &mut rng);
            let mut t = tensor_alloc(c.n, c.b, c.res_size, c.rank);
            garbage(raw_mut(t.data_mut().raw_mut()), res_fill);
            let q = m.glwe_tensor_apply_tmp_bytes(&t, &a, &b);
            provide::<B, _>(scr, log, "glwe_tensor_apply", q, |s| m.glwe_tensor_apply(cnv, &mut t, &a, c.a_k, &b, c.b_k, s));
            out.results.push(("glwe_tensor_apply".into(), raw_bytes(t.data().raw())));
            let mut r = glwe_alloc(c.n, c.b_res, c.res_size, c.rank);
            garbage(raw_mut(r.data_mut().raw_mut()), res_fill);
            let q = m.glwe_tensor_relinearize_tmp_bytes(&r, &t, &km.layout);
            let size = km.prep.size();
            provide::<B, _>(scr, log, "glwe_tensor_relinearize", q, |s| m.glwe_tensor_relinearize(&mut r, &t, &km.prep, size, s));
            out.results.push(("glwe_tensor_relinearize".into(), raw_bytes(r.data().raw())));
            let mut pt = pt_alloc(c.n, c.b_res, 1);
            fill_class(pt.data_mut(), c.b_res, 0, &mut rng);
            let mut r2 = glwe_alloc(c.n, c.b_res, c.res_size, c.rank);
            garbage(raw_mut(r2.data_mut().raw_mut()), res_fill);
            let q = m.glwe_mul_plain_tmp_bytes(&r2, &r, &pt);
            let (rk, pk) = (c.res_size * c.b_res, c.b_res);
            provide::<B, _>(scr, log, "glwe_mul_plain", q, |s| m.glwe_mul_plain(c.b_res, &mut r2, &r, rk, &pt, pk, s));
            out.results.push(("glwe_mul_plain".into(), raw_bytes(r2.data().raw())));
            let cst: Vec<i64> = vec![3.min((1i64 << (c.b_res - 1)) - 1), rng.digit(c.b_res)];
            let q = m.glwe_mul_const_tmp_bytes(&r2, &r2, cst.len());
            provide::<B, _>(scr, log, "glwe_mul_const_assign", q, |s| m.glwe_mul_const_assign(c.b_res, &mut r2, &cst, s));
            out.results.push(("glwe_mul_const_assign".into(), raw_bytes(r2.data().raw())));
        }
        o => panic!("xops: unknown op {o}"),
    }
    out
}

// ---------------------------------------------------------------------------------------------
// reduced shape grid shared by the three parts
// ---------------------------------------------------------------------------------------------

fn base(op: &str, n: usize) -> XCase {
    XCase {
        op: op.to_string(),
        n,
        rank: 1,
        ra: 1,
        rb: 1,
        b: 17,
        b_res: 17,
        b_key: 17,
        a_size: 1,
        b_size: 1,
        res_size: 1,
        a_k: 17,
        b_k: 17,
        p: 0,
        dsize: 1,
        dnum: 1,
        key_size: 3,
        val: 0,
    }
}

/// cnv_offset values: every residue modulo base2k in the first limbs, then the limb boundaries up to the end
fn cnv_offsets(b: usize, cmax: usize, tier: Tier) -> Vec<usize> {
    (0..=cmax).filter(|&c| c <= b + 1 || (tier.is_thorough() && c <= 2 * b + 1) || c % b == 0 || c % b == b - 1 || c == cmax).collect()
}

/// GLWE operations (C02) on the reduced grid
pub fn glwe_cases(tier: Tier, scratch_only: bool) -> Vec<XCase> {
    let mut out = vec![];
    for &op in c02::ALL_OPS.iter() {
        if scratch_only && !matches!(
            op,
            Op::RotateAssign | Op::MulXpMinusOneAssign | Op::Rsh | Op::LshAssign | Op::Lsh | Op::LshAdd | Op::LshSub | Op::Normalize | Op::NormalizeAssign
        ) {
            continue;
        }
        for &n in tier.pick(&[8usize][..], &[8usize, 16][..]) {
            let radix_pairs: Vec<(usize, usize)> = if op == Op::Normalize { vec![(2, 2), (3, 2), (2, 3), (17, 12), (12, 17)] } else { vec![(2, 2), (17, 17)] };
            for (b, b_res) in radix_pairs {
                for res_size in [1usize, 3] {
                    for a_size in if op.uses_a() { vec![1usize, 2, 3] } else { vec![1] } {
                        for b_size in if op.uses_b() { vec![1usize, 3] } else { vec![1] } {
                            for rank in 0..=2usize {
                                for ra in 0..=(if op.uses_a() { 2 } else { 0 }) {
                                    for rb in 0..=(if op.uses_b() { 2 } else { 0 }) {
                                        if !op.admits(rank, ra, rb) {
                                            continue;
                                        }
                                        let ps: Vec<i64> = if op.is_rotation() {
                                            vec![1, -1, n as i64, 2 * n as i64 + 1]
                                        } else if op.is_shift() {
                                            vec![0, 1, b as i64, b as i64 + 1, (res_size * b) as i64 + 1]
                                        } else {
                                            vec![0]
                                        };
                                        for p in ps {
                                            for val in 0..(if op.normalises() && tier.is_thorough() { 2usize } else { 1 }) {
                                                let mut c = base(op.name(), n);
                                                c.rank = rank;
                                                c.ra = ra;
                                                c.rb = rb;
                                                c.b = b;
                                                c.b_res = b_res;
                                                c.a_size = a_size;
                                                c.b_size = b_size;
                                                c.res_size = res_size;
                                                c.p = p;
                                                c.val = val;
                                                out.push(c);
                                            }
                                        }
                                    }
                                }
                            }
                        }
                    }
                }
            }
        }
    }
    out
}

pub fn ggsw_cases(tier: Tier, scratch_only: bool) -> Vec<XCase> {
    let mut out = vec![];
    for op in ["ggsw_rotate", "ggsw_rotate_assign"] {
        if scratch_only && op == "ggsw_rotate" {
            continue;
        }
        for &n in tier.pick(&[8usize][..], &[8usize, 16][..]) {
            for b in [2usize, 17] {
                for rank in 0..=2usize {
                    for (size, dnum, dsize) in [(2usize, 1usize, 1usize), (2, 2, 1), (3, 1, 2), (4, 1, 3)] {
                        for k in [1i64, -1, n as i64, 2 * n as i64 + 1] {
                            let mut c = base(op, n);
                            c.rank = rank;
                            c.b = b;
                            c.b_res = b;
                            c.a_size = size;
                            c.res_size = if op == "ggsw_rotate" && size > 2 { size - 1 } else { size };
                            if c.res_size <= dsize || dnum * dsize > c.res_size {
                                c.res_size = size;
                            }
                            c.dnum = dnum;
                            c.dsize = dsize;
                            c.p = k;
                            out.push(c);
                        }
                    }
                }
            }
        }
    }
    out
}

/// radices of the multiplication grid: 4 and 17 lie in both magnitude domains; 40 is NTT120 only
pub fn mul_radices(tier: Tier) -> Vec<usize> {
    tier.pick(vec![4, 17], vec![4, 17, 40])
}

pub fn tensor_cases(tier: Tier) -> Vec<XCase> {
    let mut out = vec![];
    for op in ["glwe_tensor_apply", "glwe_tensor_apply_add_assign", "glwe_tensor_square_apply"] {
        for &n in tier.pick(&[8usize][..], &[8usize, 16][..]) {
            for rank in 1..=2usize {
                for b in mul_radices(tier) {
                    for b_res in [b, b - 1] {
                        for a_size in 1..=3usize {
                            for b_size in 1..=(if op.contains("square") { 1 } else { 3 }) {
                                let b_size = if op.contains("square") { a_size } else { b_size };
                                if !tier.is_thorough() && b_res != b && a_size != b_size {
                                    continue;
                                }
                                let full = a_size + b_size;
                                for res_size in [1, full - 1, full + 1] {
                                    if res_size == 0 {
                                        continue;
                                    }
                                    for (a_k, b_k) in [(a_size * b, b_size * b), (a_size * b - b / 2, b_size * b - 1)] {
                                        let b_k = if op.contains("square") { a_k } else { b_k };
                                        if (a_k, b_k) != (a_size * b, b_size * b) && (rank == 2 || b_res != b) {
                                            continue;
                                        }
                                        let cm = ((res_size + 1) * b).min(full * b);
                                        for cnv in cnv_offsets(b, cm, tier) {
                                            let mut c = base(op, n);
                                            c.rank = rank;
                                            c.ra = rank;
                                            c.rb = rank;
                                            c.b = b;
                                            c.b_res = b_res;
                                            c.b_key = b;
                                            c.a_size = a_size;
                                            c.b_size = b_size;
                                            c.res_size = res_size;
                                            c.a_k = a_k;
                                            c.b_k = b_k;
                                            c.p = cnv as i64;
                                            out.push(c);
                                        }
                                    }
                                }
                            }
                        }
                    }
                }
            }
        }
    }
    out.dedup();
    out
}

pub fn mul_cases(tier: Tier) -> Vec<XCase> {
    let mut out = vec![];
    for op in ["glwe_mul_plain", "glwe_mul_plain_assign", "glwe_mul_const", "glwe_mul_const_assign"] {
        let assign = op.ends_with("assign");
        let is_const = op.contains("const");
        for &n in tier.pick(&[8usize][..], &[8usize, 16][..]) {
            for rank in 1..=2usize {
                for b in mul_radices(tier) {
                    for b_res in if assign { vec![b] } else { vec![b, b - 1] } {
                        for a_size in 1..=3usize {
                            for p_size in 1..=3usize {
                                let full = a_size + p_size;
                                for res_size in if assign { vec![a_size] } else { vec![1, full - 1, full + 1] } {
                                    for (a_k, p_k) in [(a_size * b, p_size * b), (a_size * b - b / 2, p_size * b - 1)] {
                                        if is_const && a_k != a_size * b {
                                            continue;
                                        }
                                        if a_k != a_size * b && (rank == 2 || b_res != b) {
                                            continue;
                                        }
                                        let cm = ((res_size + 1) * b).min(full * b);
                                        for cnv in cnv_offsets(b, cm, tier) {
                                            let mut c = base(op, n);
                                            c.rank = rank;
                                            c.ra = rank;
                                            c.b = b;
                                            c.b_res = b_res;
                                            c.b_key = b;
                                            c.a_size = a_size;
                                            c.b_size = p_size;
                                            c.res_size = res_size;
                                            c.a_k = a_k;
                                            c.b_k = p_k;
                                            c.p = cnv as i64;
                                            out.push(c);
                                        }
                                    }
                                }
                            }
                        }
                    }
                }
            }
        }
    }
    out
}

/// relinearisation and tensor-key generation: dsize 1..3, dnum below / equal / above, tensor radix equal / different
pub fn key_cases(tier: Tier) -> Vec<XCase> {
    let mut out = vec![];
    for op in ["glwe_tensor_relinearize", "glwe_tensor_key_encrypt_sk"] {
        for &n in tier.pick(&[8usize][..], &[8usize, 16][..]) {
            for rank in 1..=2usize {
                for b_key in tier.pick(vec![12usize], vec![8usize, 12, 17]) {
                    for b in if op == "glwe_tensor_relinearize" { vec![b_key, b_key - 1] } else { vec![b_key] } {
                        for dsize in 1..=3usize {
                            for t_size in 1..=3usize {
                                let s_a = (t_size * b).div_ceil(b_key);
                                let full = s_a.div_ceil(dsize);
                                let mut dnums = vec![full, full + 1];
                                if full > 1 {
                                    dnums.push(full - 1);
                                }
                                for dnum in dnums {
                                    let key_size = dnum * dsize + dsize + 1;
                                    let rs: Vec<(usize, usize)> = if op == "glwe_tensor_relinearize" {
                                        vec![(b_key, t_size), (b_key - 2, t_size + 1), (b_key, 1)]
                                    } else {
                                        vec![(b_key, t_size)]
                                    };
                                    for (b_res, res_size) in rs {
                                        for val in 0..2usize {
                                            if op != "glwe_tensor_relinearize" && val == 1 {
                                                continue;
                                            }
                                            let mut c = base(op, n);
                                            c.rank = rank;
                                            c.b = b;
                                            c.b_key = b_key;
                                            c.b_res = b_res;
                                            c.a_size = t_size;
                                            c.res_size = res_size;
                                            c.dsize = dsize;
                                            c.dnum = dnum;
                                            c.key_size = key_size;
                                            c.val = val;
                                            out.push(c);
                                        }
                                    }
                                }
                            }
                        }
                    }
                }
            }
        }
    }
    out
}

pub fn pipeline_cases(tier: Tier) -> Vec<XCase> {
    let mut out = vec![];
    for &n in &[8usize, 16] {
        for rank in 1..=2usize {
            for b in tier.pick(vec![12usize, 17], vec![8usize, 12, 17]) {
                for dsize in 1..=3usize {
                    for size in 2..=tier.pick(3usize, 4usize) {
                        for b_res in [b, b - 1] {
                            for cnv in [b - 1, b, 2 * b + 1] {
                                for val in 0..2usize {
                                    let mut c = base("pipeline_mul", n);
                                    c.rank = rank;
                                    c.b = b;
                                    c.b_key = b;
                                    c.b_res = b_res;
                                    c.a_size = size;
                                    c.b_size = size;
                                    c.res_size = size;
                                    c.a_k = size * b;
                                    c.b_k = size * b - 1;
                                    c.p = cnv as i64;
                                    c.dsize = dsize;
                                    c.dnum = size.div_ceil(dsize);
                                    c.key_size = c.dnum * dsize + dsize + 1;
                                    c.val = val;
                                    out.push(c);
                                }
                            }
                        }
                    }
                }
            }
        }
    }
    out
}

/// all cases of the three parts; `scratch_only`: only operations that take a scratch argument (C12)
pub fn all_cases(tier: Tier, scratch_only: bool) -> Vec<XCase> {
    let mut out = glwe_cases(tier, scratch_only);
    out.extend(ggsw_cases(tier, scratch_only));
    out.extend(tensor_cases(tier));
    out.extend(mul_cases(tier));
    out.extend(key_cases(tier));
    out
}

/// runs `f` for the backend named `name`
#[macro_export]
macro_rules! with_backend {
    ($name:expr, $f:ident ( $($args:expr),* )) => {
        match $name {
            "fft64-ref" => Some($f::<pvc_common::FFT64Ref>($($args),*)),
            "ntt120-ref" => Some($f::<pvc_common::NTT120Ref>($($args),*)),
            "fft64-avx" => Some($f::<pvc_common::FFT64Avx>($($args),*)),
            "ntt120-avx" => Some($f::<pvc_common::NTT120Avx>($($args),*)),
            _ => None,
        }
    };
}

#[allow(dead_code)]
fn _unused(_: &GLWE<Vec<u8>>) {}

//! C10 (pvc-ops part: ciphertext operations and multiplication) - all backends give bit-identical results for
//! identical inputs and seeds.
//!
//! (a) `ops_programs/backend-pairs`: every operation of C02 / C05 on the reduced shape grid (one-step programs) and the
//!     pipeline [tensor key generation + preparation, glwe_tensor_apply, glwe_tensor_relinearize, glwe_mul_plain,
//!     glwe_mul_const_assign], executed with identical inputs and seeds on every available backend; the raw bytes of
//!     every result are compared after every step.
//! (b) `glwe_programs/backend-pairs`: explicit-state search (stateright) over straight-line programs of the 19 GLWE
//!     operations on a register file that exists once per backend; every transition performs the real call on every
//!     backend and compares the destination register byte for byte.
//! Pairs: FFT64Ref ~ FFT64Avx, NTT120Ref ~ NTT120Avx, FFT64Ref ~ NTT120Ref (cases inside both magnitude domains).

use crate::c02::{self, Act, Op};
use crate::util::*;
use crate::xops::*;
use poulpy_core::ScratchTakeCore;
use poulpy_core::layouts::{GLWE, LWEInfos};
use poulpy_hal::layouts::{Module, Scratch, ZnxInfos, ZnxView, ZnxViewMut};
use pvc_common::{Bk, CoreAll, FFT64Avx, FFT64Ref, HalAll, NTT120Avx, NTT120Ref};
use pvc_engine::rng::{Rng, garbage};
use pvc_engine::{Rec, Run, Tier, fnv, guarded};
use serde::{Deserialize, Serialize};
use serde_json::{Value, json};
use stateright::{Checker, Model, Property};
use std::hash::{Hash, Hasher};
use std::sync::Mutex;
use std::sync::atomic::{AtomicU64, Ordering};

pub const PAIRS: [(&str, &str); 3] = [("fft64-ref", "fft64-avx"), ("ntt120-ref", "ntt120-avx"), ("fft64-ref", "ntt120-ref")];

fn backends_for(fft_ok: bool) -> Vec<&'static str> {
    let mut v = vec![];
    if fft_ok {
        v.push("fft64-ref");
    }
    v.push("ntt120-ref");
    if pvc_common::host_has_avx() {
        if fft_ok {
            v.push("fft64-avx");
        }
        v.push("ntt120-avx");
    }
    v
}

fn run_one<B: Bk>(x: &XCase, seed: u64) -> Result<XOut, String>
where
    Module<B>: HalAll<B> + CoreAll<B>,
    Scratch<B>: ScratchTakeCore<B>,
{
    let mut log = ScrLog::default();
    guarded(|| run_x::<B>(x, seed, 0, Scr::Slack { fill: 0 }, &mut log)).map_err(|e| {
        let op = log.events.iter().rev().find(|e| !e.completed).map(|e| e.op.clone()).unwrap_or_else(|| x.op.clone());
        format!("{op}: {e}")
    })
}

pub fn exec(x: &XCase, seed: u64, rec: &mut Rec) {
    rec.distinct(x.key());
    rec.sample(|| serde_json::to_value(x).unwrap());
    let mut per: Vec<(&'static str, Result<XOut, String>)> = vec![];
    for name in backends_for(x.fft64_ok()) {
        let r = crate::with_backend!(name, run_one(x, seed)).unwrap();
        per.push((name, r));
    }
    rec.evals(per.len() as u64);
    if std::env::var("VERIF_DEBUG").is_ok() {
        for (name, r) in &per {
            if let Ok(o) = r {
                for (step, bytes) in &o.results {
                    let words: Vec<i64> = bytes.chunks(8).map(|c| i64::from_le_bytes(c.try_into().unwrap())).collect();
                    eprintln!("{name} {step}: {:?}", &words[..words.len().min(64)]);
                }
            }
        }
    }
    for (name, r) in &per {
        if let Err(msg) = r {
            let op = msg.split(':').next().unwrap_or(&x.op).to_string();
            rec.fail(json!({"op": op, "backend": name, "kind": "panic", "case": x, "inner": {}, "panic": msg}));
        }
    }
    let get = |n: &str| per.iter().find(|p| p.0 == n).and_then(|p| p.1.as_ref().ok());
    for (a, b) in PAIRS {
        let (Some(oa), Some(ob)) = (get(a), get(b)) else { continue };
        rec.add(&format!("pairs/{a}~{b}"), 1);
        rec.add(&format!("program_depth/{}", oa.results.len()), 1);
        for (i, (ra, rb)) in oa.results.iter().zip(ob.results.iter()).enumerate() {
            if ra.1 != rb.1 {
                let at = ra.1.iter().zip(rb.1.iter()).position(|(p, q)| p != q);
                rec.fail(json!({"op": ra.0, "backend": format!("{a}~{b}"), "kind": "backend_mismatch", "case": x, "inner": {"pair": [a, b]},
                    "step_index": i, "first_differing_byte": at, "cross_family": a.split('-').next() != b.split('-').next(),
                    "dsize": x.dsize, "cross_radix": x.b != x.b_res, "cross_radix_key": x.b != x.b_key}));
                break;
            }
        }
    }
    if let Some(o) = per.iter().find_map(|p| p.1.as_ref().ok()) {
        if let Some(r) = o.results.last() {
            rec.outcome(fnv(&r.1));
        }
    }
}

// ---------------------------------------------------------------------------------------------
// (b) programs of GLWE operations on a register file per backend
// ---------------------------------------------------------------------------------------------

trait Exec: Send + Sync {
    fn name(&self) -> &'static str;
    fn run(&self, op: Op, p: i64, res: &mut GLWE<Vec<u8>>, a: &GLWE<Vec<u8>>, b: &GLWE<Vec<u8>>) -> Result<(), String>;
}

struct ExecB<B: Bk> {
    m: Module<B>,
}

// SAFETY: the module handle is only read (the library's operations take &self and keep no interior state)
unsafe impl<B: Bk> Send for ExecB<B> {}
unsafe impl<B: Bk> Sync for ExecB<B> {}

impl<B: Bk> Exec for ExecB<B>
where
    Module<B>: HalAll<B> + CoreAll<B>,
    Scratch<B>: ScratchTakeCore<B>,
{
    fn name(&self) -> &'static str {
        B::NAME
    }
    fn run(&self, op: Op, p: i64, res: &mut GLWE<Vec<u8>>, a: &GLWE<Vec<u8>>, b: &GLWE<Vec<u8>>) -> Result<(), String> {
        guarded(|| c02::call::<B>(&self.m, op, p, res, a, b, 0))
    }
}

fn executors(n: usize) -> Vec<Box<dyn Exec>> {
    let mut v: Vec<Box<dyn Exec>> = vec![
        Box::new(ExecB::<FFT64Ref> { m: FFT64Ref::module(n) }),
        Box::new(ExecB::<NTT120Ref> { m: NTT120Ref::module(n) }),
    ];
    if pvc_common::host_has_avx() {
        v.push(Box::new(ExecB::<FFT64Avx> { m: FFT64Avx::module(n) }));
        v.push(Box::new(ExecB::<NTT120Avx> { m: NTT120Avx::module(n) }));
    }
    v
}

pub struct XState {
    /// regs[backend][register]
    pub regs: Vec<Vec<GLWE<Vec<u8>>>>,
    pub depth: u8,
    pub last: u8,
    pub trace: Vec<Act>,
    pub init: usize,
}

impl Clone for XState {
    fn clone(&self) -> Self {
        XState {
            regs: self.regs.iter().map(|r| r.iter().map(glwe_clone).collect()).collect(),
            depth: self.depth,
            last: self.last,
            trace: self.trace.clone(),
            init: self.init,
        }
    }
}

impl XState {
    fn key(&self) -> (Vec<(u8, u8)>, u8, u8) {
        (self.regs[0].iter().map(|r| ((r.data().cols() - 1) as u8, r.size() as u8)).collect(), self.depth, self.last)
    }
}
impl Hash for XState {
    fn hash<H: Hasher>(&self, h: &mut H) {
        self.key().hash(h)
    }
}
impl PartialEq for XState {
    fn eq(&self, o: &Self) -> bool {
        self.key() == o.key()
    }
}
impl Eq for XState {}
impl std::fmt::Debug for XState {
    fn fmt(&self, f: &mut std::fmt::Formatter<'_>) -> std::fmt::Result {
        write!(f, "XState({:?}, trace {:?})", self.key(), self.trace)
    }
}

pub struct XPrograms {
    execs: Vec<Box<dyn Exec>>,
    pub n: usize,
    pub b: usize,
    pub max_depth: u8,
    pub inits: Vec<Vec<(usize, usize)>>,
    pub seed: u64,
    pub transitions: AtomicU64,
    pub calls: AtomicU64,
    pub failures: Mutex<Vec<Value>>,
}

impl XPrograms {
    pub fn new(n: usize, b: usize, max_depth: u8, inits: Vec<Vec<(usize, usize)>>, seed: u64) -> Self {
        XPrograms {
            execs: executors(n),
            n,
            b,
            max_depth,
            inits,
            seed,
            transitions: AtomicU64::new(0),
            calls: AtomicU64::new(0),
            failures: Mutex::new(vec![]),
        }
    }

    pub fn init_state(&self, idx: usize) -> XState {
        let mut rng = Rng::new(self.seed, 0xC10 ^ ((idx as u64) << 12) ^ ((self.n as u64) << 32) ^ ((self.b as u64) << 40));
        let one: Vec<GLWE<Vec<u8>>> = self.inits[idx]
            .iter()
            .enumerate()
            .map(|(i, &(rank, size))| {
                let mut ct = glwe_alloc(self.n, self.b, size, rank);
                fill_class(ct.data_mut(), self.b, if i == 1 { 1 } else { 0 }, &mut rng);
                ct
            })
            .collect();
        XState {
            regs: self.execs.iter().map(|_| one.iter().map(glwe_clone).collect()).collect(),
            depth: 0,
            last: 255,
            trace: vec![],
            init: idx,
        }
    }

    fn params(&self, op: Op) -> Vec<i64> {
        if op.is_rotation() {
            vec![1, -1, self.n as i64, 2 * self.n as i64 + 1]
        } else if op.is_shift() {
            vec![1, self.b as i64, self.b as i64 + 1]
        } else {
            vec![0]
        }
    }

    pub fn step(&self, s: &XState, act: Act, record: bool) -> Result<XState, Value> {
        self.transitions.fetch_add(1, Ordering::Relaxed);
        let mut next = s.clone();
        next.depth += 1;
        next.last = c02::ALL_OPS.iter().position(|o| *o == act.op).unwrap() as u8;
        next.trace.push(act);
        let describe = |kind: &str, backend: String, extra: Value| -> Value {
            let mut d = json!({"op": act.op.name(), "backend": backend, "kind": kind,
                "case": {"n": self.n, "b": self.b, "shape": self.inits[s.init], "trace": next.trace, "max_depth": self.max_depth},
                "inner": {"step": next.trace.len() - 1}, "depth": next.trace.len()});
            for (k, v) in extra.as_object().unwrap() {
                d[k] = v.clone();
            }
            d
        };
        let mut panics: Vec<(usize, String)> = vec![];
        for (e, ex) in self.execs.iter().enumerate() {
            let a = glwe_clone(&s.regs[e][act.a]);
            let b = glwe_clone(&s.regs[e][act.b]);
            let res = &mut next.regs[e][act.r];
            if !act.op.reads_res() {
                garbage(bytes_mut(res.data_mut().raw_mut()), (s.depth & 1) as usize);
            }
            self.calls.fetch_add(1, Ordering::Relaxed);
            if let Err(msg) = ex.run(act.op, act.p, res, &a, &b) {
                panics.push((e, msg));
            }
        }
        if !panics.is_empty() {
            let (e, msg) = &panics[0];
            let d = describe("panic", self.execs[*e].name().to_string(), json!({"panic": msg, "backends_panicking": panics.len()}));
            if record {
                self.push_failure(d.clone());
            }
            return Err(d);
        }
        let idx = |name: &str| self.execs.iter().position(|x| x.name() == name);
        for (a, b) in PAIRS {
            let (Some(ia), Some(ib)) = (idx(a), idx(b)) else { continue };
            let (ra, rb) = (next.regs[ia][act.r].data().raw(), next.regs[ib][act.r].data().raw());
            if ra != rb {
                let at = ra.iter().zip(rb.iter()).position(|(p, q)| p != q);
                let d = describe(
                    "backend_mismatch",
                    format!("{a}~{b}"),
                    json!({"first_differing_word": at, "cross_family": a.split('-').next() != b.split('-').next()}),
                );
                if record {
                    self.push_failure(d.clone());
                }
                return Err(d);
            }
        }
        Ok(next)
    }

    fn push_failure(&self, d: Value) {
        let mut f = self.failures.lock().unwrap();
        let sig = |x: &Value| format!("{}|{}|{}|{}", x["op"], x["kind"], x["backend"], x["depth"]);
        if f.len() < 1024 && !f.iter().any(|x| sig(x) == sig(&d)) {
            f.push(d);
        }
    }
}

fn bytes_mut(x: &mut [i64]) -> &mut [u8] {
    // SAFETY: plain reinterpretation of an i64 slice as bytes
    unsafe { std::slice::from_raw_parts_mut(x.as_mut_ptr() as *mut u8, x.len() * 8) }
}

impl Model for XPrograms {
    type State = XState;
    type Action = Act;

    fn init_states(&self) -> Vec<XState> {
        (0..self.inits.len()).map(|i| self.init_state(i)).collect()
    }

    fn actions(&self, s: &XState, out: &mut Vec<Act>) {
        if s.depth >= self.max_depth {
            return;
        }
        let regs = &s.regs[0];
        let nr = regs.len();
        let rank = |i: usize| regs[i].data().cols() - 1;
        for &op in c02::ALL_OPS.iter() {
            for p in self.params(op) {
                for r in 0..nr {
                    if !op.uses_a() {
                        out.push(Act { op, r, a: r, b: r, p });
                        continue;
                    }
                    for a in 0..nr {
                        if a == r {
                            continue;
                        }
                        if !op.uses_b() {
                            if op.admits(rank(r), rank(a), 0) {
                                out.push(Act { op, r, a, b: a, p });
                            }
                            continue;
                        }
                        for b in 0..nr {
                            if b != r && op.admits(rank(r), rank(a), rank(b)) {
                                out.push(Act { op, r, a, b, p });
                            }
                        }
                    }
                }
            }
        }
    }

    fn next_state(&self, s: &XState, act: Act) -> Option<XState> {
        self.step(s, act, true).ok()
    }

    fn properties(&self) -> Vec<Property<Self>> {
        vec![Property::always("exploration continues", |_, _| true)]
    }
}

fn inits(tier: Tier) -> Vec<Vec<(usize, usize)>> {
    let opts: [(usize, usize); 4] = [(0, 2), (0, 3), (1, 2), (1, 3)];
    let mut out = vec![];
    for x in 0..4 {
        for y in 0..4 {
            for z in 0..4 {
                if !tier.is_thorough() && !(x <= y && y <= z && (x != y || y != z)) {
                    continue;
                }
                out.push(vec![opts[x], opts[y], opts[z]]);
            }
        }
    }
    out
}

#[derive(Clone, Debug, Serialize, Deserialize)]
struct PCase {
    n: usize,
    b: usize,
    shape: Vec<(usize, usize)>,
    trace: Vec<Act>,
    max_depth: u8,
}

fn fam_programs(run: &mut Run) {
    let name = "glwe_programs/backend-pairs";
    if !run.wants(name) {
        return;
    }
    let (tier, seed) = (run.tier, run.seed);
    let depth: u8 = tier.pick(3, 4);
    let grids: Vec<(usize, usize)> = tier.pick(vec![(8, 2), (16, 17)], vec![(8, 1), (8, 2), (8, 17), (16, 3), (16, 17)]);
    run.single(
        name,
        "stateright model: 3 registers of real GLWE objects (ranks {0,1}, sizes {2,3}) held once per backend with identical initial content; actions = the 19 GLWE operations on every admissible register choice with k in {1,-1,N,2N+1} / shifts in {1,b,b+1}; state key = (rank, size) per register + depth + last operation; every transition performs the real call on every available backend and compares the destination register byte for byte on the pairs FFT64Ref~FFT64Avx, NTT120Ref~NTT120Avx, FFT64Ref~NTT120Ref; evaluations = library calls",
        |rec| {
            for &(n, b) in &grids {
                let model = XPrograms::new(n, b, depth, inits(tier), seed);
                let ch = model.checker().threads(pvc_engine::threads()).spawn_bfs().join();
                let mdl = ch.model();
                let unique = ch.unique_state_count() as u64;
                rec.evals(mdl.calls.load(Ordering::Relaxed));
                rec.add("states", unique);
                rec.add("transitions", mdl.transitions.load(Ordering::Relaxed));
                for s in 0..unique {
                    rec.distinct(fnv(format!("{n}|{b}|{s}").as_bytes()));
                }
                let mut fails = mdl.failures.lock().unwrap().clone();
                fails.sort_by_key(|d| d["depth"].as_u64().unwrap_or(99));
                for d in fails {
                    rec.fail(d);
                }
                rec.sample(|| json!({"n": n, "b": b, "depth": depth, "unique_states": unique, "transitions": mdl.transitions.load(Ordering::Relaxed)}));
            }
        },
    );
}

pub fn run(run: &mut Run) {
    run.assume("radices 4 and 17 (and tensor-key radices 8, 12, 17) lie in the magnitude domain of both families; radix 40 (thorough) is compared on the NTT120 pair only");
    run.assume("prepared tensor keys are backend-specific representations: they are compared through the relinearisation computed with them; inputs, secrets and seeds are identical on every backend");
    if !pvc_common::host_has_avx() {
        run.assume("host lacks AVX2/FMA: only FFT64Ref vs NTT120Ref is compared");
    }
    let seed = run.seed;
    let mut cs = pipeline_cases(run.tier);
    cs.extend(all_cases(run.tier, false));
    run.family(
        "ops_programs/backend-pairs",
        "outer = (pipeline [tensor key generation + prepare, tensor product, relinearisation, plaintext product, in-place constant product] over N, rank, radix, result radix, dsize 1..3, sizes, cnv_offset around a limb boundary, value class) and every single operation of C02 / C05 on the reduced grid of the C12 part; each case runs with identical inputs and seeds on all available backends; inner = the pairs FFT64Ref~FFT64Avx, NTT120Ref~NTT120Avx, FFT64Ref~NTT120Ref compared after every step; counters program_depth/<d> = compared steps per program",
        cs,
        |c, rec| exec(c, seed, rec),
    );
    fam_programs(run);
    run.note("backend_pairs", json!(PAIRS.iter().map(|(a, b)| format!("{a}~{b}")).collect::<Vec<_>>()));
}

/// false if the descriptor does not belong to this part
pub fn replay(run: &mut Run, d: &Value) -> bool {
    let fam = d["family"].as_str().unwrap_or("").to_string();
    let seed = d["seed"].as_u64().unwrap_or(0);
    if fam.starts_with("ops_programs/") {
        let c: XCase = match serde_json::from_value(d["case"].clone()) {
            Ok(c) => c,
            Err(_) => return false,
        };
        run.single(&fam, "replay", |rec| exec(&c, seed, rec));
        true
    } else if fam.starts_with("glwe_programs/") {
        let c: PCase = match serde_json::from_value(d["case"].clone()) {
            Ok(c) => c,
            Err(_) => return false,
        };
        run.single(&fam, "replay", |rec| {
            let model = XPrograms::new(c.n, c.b, c.max_depth.max(c.trace.len() as u8), vec![c.shape.clone()], seed);
            let mut s = model.init_state(0);
            for act in c.trace.iter().copied() {
                rec.evals(1);
                match model.step(&s, act, false) {
                    Ok(nx) => s = nx,
                    Err(dd) => {
                        rec.fail(dd);
                        return;
                    }
                }
            }
            eprintln!("[C10] program replay: the trace re-executed from its initial register file holds on all backends");
        });
        true
    } else {
        false
    }
}

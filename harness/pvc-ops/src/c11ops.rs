//! C11 (pvc-ops part: ciphertext operations and multiplication) - outputs are fully determined by inputs: no stale
//! data, no stray writes. Oracle-free (metamorphic).
//!
//! Every operation of C02 / C05 is executed twice from two different garbage fills of every writable buffer the
//! library receives - the result object (all columns and limbs; for in-place / accumulating forms the result is an
//! input and keeps its content) and the scratch (generously sized) - under equal inputs; the results must be
//! byte-identical (which also shows that every limb of every result column is written) and the read-only operands
//! must be unchanged (digest before / after).

use crate::xops::*;
use poulpy_core::ScratchTakeCore;
use poulpy_hal::layouts::{Module, Scratch};
use pvc_common::{Bk, CoreAll, Family, HalAll, for_backends};
use pvc_engine::{Rec, Run, fnv, guarded};
use serde::{Deserialize, Serialize};
use serde_json::{Value, json};

#[derive(Clone, Debug, Serialize, Deserialize)]
pub struct Case {
    pub backend: String,
    pub x: XCase,
}

pub fn exec<B: Bk>(c: &Case, seed: u64, rec: &mut Rec)
where
    Module<B>: HalAll<B> + CoreAll<B>,
    Scratch<B>: ScratchTakeCore<B>,
{
    rec.distinct(fnv(format!("{:?}", c).as_bytes()));
    rec.sample(|| serde_json::to_value(c).unwrap());
    let x = &c.x;
    let mut outs: Vec<XOut> = vec![];
    for g in 0..2usize {
        let mut log = ScrLog::default();
        let r = guarded(|| run_x::<B>(x, seed, g, Scr::Slack { fill: g }, &mut log));
        rec.evals(1);
        match r {
            Ok(o) => {
                if let Some((name, _, _)) = o.operands.iter().find(|(_, b, a)| b != a) {
                    rec.fail(json!({"op": x.op, "backend": B::NAME, "kind": "operand_modified", "case": c, "inner": {"fill": g}, "operand": name}));
                    return;
                }
                outs.push(o)
            }
            Err(msg) => {
                let op = log.events.iter().rev().find(|e| !e.completed).map(|e| e.op.clone()).unwrap_or_else(|| x.op.clone());
                rec.fail(json!({"op": op, "backend": B::NAME, "kind": "panic", "case": c, "inner": {"fill": g}, "panic": msg}));
                return;
            }
        }
    }
    if let Some(i) = outs[0].results.iter().zip(outs[1].results.iter()).position(|(a, b)| a.1 != b.1) {
        let (a, b) = (&outs[0].results[i].1, &outs[1].results[i].1);
        let at = a.iter().zip(b.iter()).position(|(p, q)| p != q);
        rec.fail(json!({"op": outs[0].results[i].0, "backend": B::NAME, "kind": "stale_output", "case": c, "inner": {},
            "first_differing_byte": at, "dsize": x.dsize, "cross_radix": x.b != x.b_res, "cross_radix_key": x.b != x.b_key,
            "detail": "same inputs, different prior content of the result buffer and of the scratch"}));
    }
    if let Some(r) = outs[0].results.last() {
        rec.outcome(fnv(&r.1));
    }
}

fn fam<B: Bk>(run: &mut Run)
where
    Module<B>: HalAll<B> + CoreAll<B>,
    Scratch<B>: ScratchTakeCore<B>,
{
    let seed = run.seed;
    let cs: Vec<Case> = all_cases(run.tier, false)
        .into_iter()
        .filter(|x| B::FAMILY == Family::Ntt120 || x.fft64_ok())
        .map(|x| Case {
            backend: B::NAME.into(),
            x,
        })
        .collect();
    let name = format!("ops_two_fills/{}", B::NAME);
    run.family(
        &name,
        "outer = (operation of C02 / C05 (19 GLWE operations, ggsw_rotate(+assign), tensor apply / add_assign / square, relinearize, tensor key generation + prepare, mul_plain(+assign), mul_const(+assign)), reduced shape grid as in the C12 part plus the scratch-free operations); inner = 2 executions from different garbage in the result object (all columns and limbs) and in the scratch, equal inputs; compared: raw bytes of every result; read-only operands digested before / after; distinct = outer cases",
        cs,
        |c, rec| exec::<B>(c, seed, rec),
    );
    if let Some(f) = run.families.iter().rev().find(|f| f.name == name) {
        let n = f.rec.evaluations;
        run.states += n;
        run.transitions += n;
        run.traces_validated += n;
    }
}

pub fn run(run: &mut Run) {
    run.assume("objects are allocated with the library's alloc functions at exactly their layout size (spare limb capacity is exercised by the HAL part); in-place and accumulating forms keep the content of their result, which is an input");
    run.assume("the prepared tensor key has no accessor: it is observed through the relinearisation computed with it");
    run.assume("states = transitions = (case, fill) executions");
    for_backends!(fam(run));
}

/// false if the descriptor does not belong to this part
pub fn replay(run: &mut Run, d: &Value) -> bool {
    let fam = d["family"].as_str().unwrap_or("").to_string();
    if !fam.starts_with("ops_two_fills/") {
        return false;
    }
    let c: Case = match serde_json::from_value(d["case"].clone()) {
        Ok(c) => c,
        Err(_) => return false,
    };
    let seed = d["seed"].as_u64().unwrap_or(0);
    match c.backend.as_str() {
        "fft64-ref" => run.single(&fam, "replay", |rec| exec::<pvc_common::FFT64Ref>(&c, seed, rec)),
        "ntt120-ref" => run.single(&fam, "replay", |rec| exec::<pvc_common::NTT120Ref>(&c, seed, rec)),
        "fft64-avx" => run.single(&fam, "replay", |rec| exec::<pvc_common::FFT64Avx>(&c, seed, rec)),
        "ntt120-avx" => run.single(&fam, "replay", |rec| exec::<pvc_common::NTT120Avx>(&c, seed, rec)),
        _ => return false,
    }
    true
}

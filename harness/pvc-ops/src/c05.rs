//! C05 - ciphertext multiplication (tensor, relinearise, plain, constant) scales right (exploration, E1).
//!
//! Operands are GLWE objects with harness-chosen contents (normalised random digits, extreme digits); their exact
//! *unreduced* phases under a clear secret are computed with big integers (R3). Oracle:
//!   * every column of the tensor equals the exact negacyclic product of the operand columns (masked to their
//!     effective precisions) times 2^cnv_offset modulo 1; the tensor decrypted with the secret tensor (s_i*s_j
//!     computed here by the schoolbook product) equals phase(a) * phase(b) * 2^cnv_offset modulo 1;
//!   * exact whenever the result holds the whole product ((a_size+b_size)*base2k - cnv_offset bits); otherwise
//!     within the worst-case truncation bound derived below (no random noise is involved: all error is rounding);
//!   * squaring == multiplying a ciphertext by itself, bit for bit; add_assign adds exactly what apply produces;
//!   * the relinearised tensor decrypts under s to the tensor's phase within the worst-case gadget bound (R9);
//!   * mul_plain / mul_const (+assign): phase(res) == phase(a) * plaintext * 2^cnv_offset.

use crate::util::*;
use poulpy_core::layouts::{
    Base2K, Degree, Dnum, Dsize, GLWESecret, GLWETensor, GLWETensorKey, GLWETensorKeyLayout,
    LWEInfos, Rank, TorusPrecision,
};
use poulpy_core::{
    EncryptionLayout, GLWEMulConst, GLWEMulPlain, GLWETensorKeyEncryptSk, GLWETensoring,
    ScratchTakeCore, layouts::GLWETensorKeyPreparedFactory,
};
use poulpy_hal::layouts::{Module, Scratch, ZnxInfos, ZnxView, ZnxViewMut};
use poulpy_hal::source::Source;
use pvc_common::phase::{Dist, clear_secret};
use pvc_common::{Bk, CoreAll, Family, HalAll, for_backends};
use pvc_engine::rng::{Rng, garbage};
use pvc_engine::{Rec, Run, Tier, fnv, guarded};
use pvc_model::IBig;
use serde::{Deserialize, Serialize};
use serde_json::{Value, json};

const MIB: usize = 1 << 20;

fn bytes_of(x: &mut [i64]) -> &mut [u8] {
    // SAFETY: plain reinterpretation of an i64 slice as bytes
    unsafe { std::slice::from_raw_parts_mut(x.as_mut_ptr() as *mut u8, x.len() * 8) }
}

/// floor(x / 2^s) * 2^s
fn floor_to(x: &IBig, s: usize) -> IBig {
    if s == 0 {
        return x.clone();
    }
    let m: IBig = IBig::from(1) << s;
    let mut r = x % &m;
    if r < IBig::from(0) {
        r += &m;
    }
    x - r
}

/// column values scaled by 2^(size*b), truncated (floor) to `k_eff` fractional bits: the operand at its effective precision
fn masked_col(
    g: &poulpy_hal::layouts::VecZnx<Vec<u8>>,
    col: usize,
    b: usize,
    k_eff: usize,
) -> Poly {
    let drop = g.size() * b - k_eff;
    col_vals(g, col, b)
        .iter()
        .map(|x| floor_to(x, drop))
        .collect()
}

/// clear secret with s[0] = 1 and the products s_i * s_j by the schoolbook negacyclic product
pub struct Sec {
    pub s: Vec<Vec<i64>>,
    pub rank: usize,
}

fn seed_of(n: usize, rank: usize) -> [u8; 32] {
    let mut s = [0u8; 32];
    s[0] = 0xC5;
    s[1] = n as u8;
    s[2] = rank as u8;
    s
}

impl Sec {
    pub fn new(n: usize, rank: usize) -> Self {
        let mut s = vec![vec![0i64; n]];
        s[0][0] = 1;
        s.extend(clear_secret(n, rank, Dist::TernaryProb, seed_of(n, rank)));
        Sec { s, rank }
    }
    pub fn cols(&self) -> usize {
        self.rank + 1
    }
    pub fn mono(&self, i: usize, j: usize) -> Vec<i64> {
        small_mul(&self.s[i], &self.s[j])
    }
    /// 1 + sum |s_i|_1
    pub fn s_norm(&self) -> u64 {
        self.s.iter().map(|x| l1(x)).sum()
    }
}

/// column of the tensor holding the coefficient of s_i*s_j (i <= j; s_0 = 1)
pub fn tidx(cols: usize, i: usize, j: usize) -> usize {
    i * cols - (i * (i + 1)) / 2 + j
}

/// exact unreduced phase of a tensor (scaled by 2^(size*b)) under the secret tensor
pub fn tensor_phase(t: &GLWETensor<Vec<u8>>, sec: &Sec) -> Poly {
    let b = t.base2k().0 as usize;
    let cols = sec.cols();
    let n = t.n().0 as usize;
    let mut acc = pzero(n);
    for i in 0..cols {
        for j in i..cols {
            let c = col_vals(t.data(), tidx(cols, i, j), b);
            acc = padd(&acc, &pmul_small(&c, &sec.mono(i, j)));
        }
    }
    acc
}

pub fn glwe_phase_sec(g: &poulpy_hal::layouts::VecZnx<Vec<u8>>, b: usize, sec: &Sec) -> Poly {
    pvc_common::phase::glwe_phase(g, b, &sec.s[1..])
}

/// radices inside the backend's magnitude domain (FFT64: N * terms * 4 * 2^(2b) <= 2^50 ; NTT120: wide accumulators)
fn radices<B: Bk>(tier: Tier) -> Vec<usize> {
    match (B::FAMILY, tier) {
        (Family::Fft64, Tier::Quick) => vec![4, 17],
        (Family::Fft64, Tier::Thorough) => vec![4, 8, 12, 17],
        (Family::Ntt120, Tier::Quick) => vec![4, 40],
        (Family::Ntt120, Tier::Thorough) => vec![4, 8, 17, 40],
    }
}

/// effective precisions (a_k, b_k) for sizes (a_size, b_size): every residue of a_k, with b_k on a different residue
fn eff_pairs(b: usize, a_size: usize, b_size: usize, tier: Tier) -> Vec<(usize, usize)> {
    let res: Vec<usize> = if b <= 4 || (tier.is_thorough() && b <= 8) {
        (1..=b).collect()
    } else if tier.is_thorough() {
        let mut v = vec![1, 2, 3, b / 2, b / 2 + 1, b - 2, b - 1, b];
        v.sort();
        v.dedup();
        v
    } else {
        let mut v = vec![1, 2, b / 2, b - 1, b];
        v.sort();
        v.dedup();
        v
    };
    let mut out = vec![];
    for (x, &ra) in res.iter().enumerate() {
        // b's residue: a different one (a_k != b_k is the interesting case), walking through all residues too
        let rb = res[(x + 1 + x % 3) % res.len()];
        let a_k = (a_size - 1) * b + ra;
        let mut b_k = (b_size - 1) * b + rb;
        if a_k == b_k {
            b_k = (b_size - 1) * b + res[(x + 2) % res.len()];
        }
        out.push((a_k, b_k));
    }
    // both full
    out.push((a_size * b, b_size * b));
    out.sort();
    out.dedup();
    out
}

#[derive(Clone, Copy, Debug, PartialEq, Eq)]
enum Regime {
    Exact,
    Truncating,
}

struct ColVerdict {
    regime: Regime,
    err_units: f64,
    tol_units: f64,
    col: usize,
    index: usize,
    level: &'static str,
}

/// compares `got` (scaled 2^r_bits) with `want` (scaled 2^l_want) modulo 1; tolerance in units of 2^-r_bits
fn compare(
    got: &Poly,
    r_bits: usize,
    want: &Poly,
    l_want: usize,
    tol_units: &IBig,
) -> Option<(f64, usize)> {
    let l = r_bits.max(l_want) + 2;
    let w = pshl(want, l - l_want);
    let (worst, at) = max_torus_err(got, r_bits, &w, l);
    let tol: IBig = tol_units << (l - r_bits);
    if worst > tol {
        Some((approx_units(&worst, l - r_bits), at))
    } else {
        None
    }
}

fn classify(c: usize, b: usize, b_res: usize, r_bits: usize) -> Value {
    // the library splits the offset: cnv_offset < base2k is served by a *negative* normalisation offset
    let lo_neg = c < b;
    json!({
        "cross_radix": b != b_res,
        "offset_negative": lo_neg,
        "shift_beyond_output_bits": if lo_neg { ((b - c) as i64 - r_bits as i64).max(0) } else { 0 },
    })
}

fn merge(mut d: Value, extra: Value) -> Value {
    for (k, v) in extra.as_object().unwrap() {
        d[k] = v.clone();
    }
    d
}

// ---------------------------------------------------------------------------------------------
// tensor product: apply, add_assign, square
// ---------------------------------------------------------------------------------------------

#[derive(Clone, Debug, Serialize, Deserialize)]
pub struct TCase {
    pub backend: String,
    pub n: usize,
    pub rank: usize,
    pub b: usize,
    pub b_res: usize,
    pub a_size: usize,
    pub b_size: usize,
    pub res_size: usize,
    pub a_k: usize,
    pub b_k: usize,
    pub val: usize,
    pub square: bool,
}

/// worst case of what the discarded convolution limbs can carry, in units of the last result limb: the library
/// keeps the convolution limbs that overlap the result window only; a discarded un-normalised limb is bounded by
/// N * min(a_size, b_size) * 2^(2(b-1)) (x4 for the pairwise product of column sums) and sits at most one limb
/// below the window
fn guard_units(n: usize, terms: usize, b: usize) -> IBig {
    IBig::from(n * terms) << (b - 1)
}

pub fn cmax(res_size: usize, a_size: usize, b_size: usize, b: usize) -> usize {
    ((res_size + 1) * b).min((a_size + b_size) * b)
}

/// cnv_offset values enumerated: all of 0..=cmax for radices up to 17; larger radices take every offset up to
/// 2*base2k+2, every offset within 2 of a multiple of base2k, every 7th (thorough: every 3rd), and cmax
pub fn offsets(cmax: usize, b: usize, tier: Tier) -> Vec<usize> {
    (0..=cmax)
        .filter(|&c| {
            b <= 17
                || c <= 2 * b + 2
                || c % b <= 2
                || c % b >= b - 2
                || c % (if tier.is_thorough() { 3 } else { 7 }) == 0
                || c == cmax
        })
        .collect()
}

pub fn exec_tensor<B: Bk>(
    c: &TCase,
    only: Option<(usize, usize)>,
    seed: u64,
    tier: Tier,
    rec: &mut Rec,
) where
    Module<B>: HalAll<B> + CoreAll<B>,
    Scratch<B>: ScratchTakeCore<B>,
{
    let m = B::module(c.n);
    let sec = Sec::new(c.n, c.rank);
    let cols = c.rank + 1;
    let ncols_t = cols * (cols + 1) / 2;
    let key = fnv(format!("{:?}", c).as_bytes());
    rec.distinct(key);
    rec.sample(|| serde_json::to_value(c).unwrap());
    let mut rng = Rng::new(seed, key);
    let mut a = glwe_alloc(c.n, c.b, c.a_size, c.rank);
    fill_class(a.data_mut(), c.b, c.val, &mut rng);
    let b_ct = if c.square {
        glwe_clone(&a)
    } else {
        let mut x = glwe_alloc(c.n, c.b, c.b_size, c.rank);
        fill_class(x.data_mut(), c.b, c.val, &mut rng);
        x
    };
    let (a_bits, b_bits) = (c.a_size * c.b, c.b_size * c.b);
    let l = a_bits + b_bits;
    let r_bits = c.res_size * c.b_res;
    let ac: Vec<Poly> = (0..cols)
        .map(|i| masked_col(a.data(), i, c.b, c.a_k))
        .collect();
    let bc: Vec<Poly> = (0..cols)
        .map(|i| masked_col(b_ct.data(), i, c.b, c.b_k))
        .collect();
    // exact column products, scaled by 2^l
    let mut want_cols: Vec<Poly> = vec![pzero(c.n); ncols_t];
    for i in 0..cols {
        for j in i..cols {
            want_cols[tidx(cols, i, j)] = if i == j {
                pmul(&ac[i], &bc[i])
            } else {
                padd(&pmul(&ac[i], &bc[j]), &pmul(&ac[j], &bc[i]))
            };
        }
    }
    // exact phases of the (masked) operands and their product
    let mut pa = pzero(c.n);
    let mut pb = pzero(c.n);
    for i in 0..cols {
        pa = padd(&pa, &pmul_small(&ac[i], &sec.s[i]));
        pb = padd(&pb, &pmul_small(&bc[i], &sec.s[i]));
    }
    let want_phase = pmul(&pa, &pb);
    let g_units = guard_units(c.n, c.a_size.min(c.b_size), c.b);
    let mut reported: Vec<String> = vec![];
    let bytes = m
        .glwe_tensor_apply_tmp_bytes(&tensor_alloc(c.n, c.b_res, c.res_size, c.rank), &a, &b_ct)
        .max(m.glwe_tensor_square_apply_tmp_bytes(
            &tensor_alloc(c.n, c.b_res, c.res_size, c.rank),
            &a,
        ))
        + MIB;
    for cnv in offsets(
        cmax(c.res_size, c.a_size, c.b_size, c.b),
        c.b,
        if only.is_some() { Tier::Thorough } else { tier },
    ) {
        for g in 0..2usize {
            if let Some(o) = only {
                if o != (cnv, g) {
                    continue;
                }
            } else if !tier.is_thorough() && g != (cnv & 1) {
                continue;
            }
            let inner = json!({"cnv_offset": cnv, "g": g});
            let mut fail = |rec: &mut Rec, op: &str, kind: &str, extra: Value| {
                let sig = format!("{op}|{kind}");
                if reported.contains(&sig) {
                    rec.add("failures_not_itemised", 1);
                    return;
                }
                reported.push(sig);
                let d =
                    json!({"op": op, "backend": B::NAME, "kind": kind, "case": c, "inner": inner});
                rec.fail(merge(merge(d, classify(cnv, c.b, c.b_res, r_bits)), extra));
            };
            let mut res = tensor_alloc(c.n, c.b_res, c.res_size, c.rank);
            garbage(bytes_of(res.data_mut().raw_mut()), g);
            let out = guarded(|| {
                with_scratch::<B, _>(bytes, g, |s| {
                    m.glwe_tensor_apply(cnv, &mut res, &a, c.a_k, &b_ct, c.b_k, s)
                })
            });
            rec.evals(1);
            if let Err(msg) = out {
                fail(rec, "glwe_tensor_apply", "panic", json!({"panic": msg}));
                continue;
            }
            // ---- columns
            let exact = r_bits + cnv >= l;
            let regime = if exact {
                Regime::Exact
            } else {
                Regime::Truncating
            };
            let mut verdict: Option<ColVerdict> = None;
            let mut tol_sum = IBig::from(0);
            for i in 0..cols {
                for j in i..cols {
                    let t = tidx(cols, i, j);
                    let tol: IBig = if exact {
                        IBig::from(0)
                    } else if i == j {
                        IBig::from(1) + &g_units
                    } else {
                        // pairwise term (column sums: x4) minus the two diagonal terms: three rounded terms
                        IBig::from(3) + IBig::from(6) * &g_units
                    };
                    tol_sum += &tol * IBig::from(l1(&sec.mono(i, j)));
                    if verdict.is_some() {
                        continue;
                    }
                    let got = col_vals(res.data(), t, c.b_res);
                    let want = pshl(&want_cols[t], cnv);
                    if !exact {
                        if tol >= (IBig::from(1) << (r_bits - 1)) {
                            rec.add("columns_with_vacuous_tolerance", 1);
                        } else {
                            rec.add("columns_judged_in_truncating_regime", 1);
                            // how often is the allowance for the discarded limbs actually used?
                            let principled = IBig::from(if i == j { 1 } else { 3 });
                            if compare(&got, r_bits, &want, l, &principled).is_some() {
                                rec.add("columns_beyond_rounding_only_tolerance", 1);
                            }
                        }
                    }
                    if let Some((err, at)) = compare(&got, r_bits, &want, l, &tol) {
                        verdict = Some(ColVerdict {
                            regime,
                            err_units: err,
                            tol_units: approx_units(&tol, 0),
                            col: t,
                            index: at,
                            level: "column",
                        });
                    }
                }
            }
            // ---- phase under the secret tensor
            if verdict.is_none() {
                let got = tensor_phase(&res, &sec);
                let want = pshl(&want_phase, cnv);
                if let Some((err, at)) = compare(&got, r_bits, &want, l, &tol_sum) {
                    verdict = Some(ColVerdict {
                        regime,
                        err_units: err,
                        tol_units: approx_units(&tol_sum, 0),
                        col: 0,
                        index: at,
                        level: "phase",
                    });
                }
            }
            if let Some(v) = verdict {
                let kind = if v.regime == Regime::Exact {
                    "wrong_value"
                } else {
                    "noise_too_large"
                };
                fail(
                    rec,
                    "glwe_tensor_apply",
                    kind,
                    json!({"level": v.level, "col": v.col, "index": v.index, "err_units": v.err_units, "tol_units": v.tol_units,
                        "regime": format!("{:?}", v.regime)}),
                );
                continue;
            }
            if !exact {
                rec.add("truncating_regime", 1);
            }
            if g == 0 {
                rec.outcome(pvc_engine::hash_i64s(res.data().at(0, 0)));
            }
            // ---- add_assign adds exactly what apply produces
            {
                let mut acc = tensor_alloc(c.n, c.b_res, c.res_size, c.rank);
                fill_class(acc.data_mut(), c.b_res, 0, &mut rng);
                let acc0: Vec<i64> = acc.data().raw().to_vec();
                let out = guarded(|| {
                    with_scratch::<B, _>(bytes, 1 - g, |s| {
                        m.glwe_tensor_apply_add_assign(cnv, &mut acc, &a, c.a_k, &b_ct, c.b_k, s)
                    })
                });
                rec.evals(1);
                match out {
                    Err(msg) => fail(
                        rec,
                        "glwe_tensor_apply_add_assign",
                        "panic",
                        json!({"panic": msg}),
                    ),
                    Ok(()) => {
                        let prod = res.data().raw();
                        if let Some(at) = acc
                            .data()
                            .raw()
                            .iter()
                            .enumerate()
                            .position(|(x, v)| *v != acc0[x].wrapping_add(prod[x]))
                        {
                            fail(
                                rec,
                                "glwe_tensor_apply_add_assign",
                                "add_assign_mismatch",
                                json!({"raw_index": at, "got": acc.data().raw()[at], "prior": acc0[at], "product": prod[at]}),
                            );
                        }
                    }
                }
            }
            // ---- squaring equals multiplying the ciphertext by itself, bit for bit
            if c.square {
                let mut sq = tensor_alloc(c.n, c.b_res, c.res_size, c.rank);
                garbage(bytes_of(sq.data_mut().raw_mut()), 1 - g);
                let out = guarded(|| {
                    with_scratch::<B, _>(bytes, g, |s| {
                        m.glwe_tensor_square_apply(cnv, &mut sq, &a, c.a_k, s)
                    })
                });
                rec.evals(1);
                match out {
                    Err(msg) => fail(
                        rec,
                        "glwe_tensor_square_apply",
                        "panic",
                        json!({"panic": msg}),
                    ),
                    Ok(()) => {
                        if let Some(at) = sq
                            .data()
                            .raw()
                            .iter()
                            .zip(res.data().raw())
                            .position(|(x, y)| x != y)
                        {
                            fail(
                                rec,
                                "glwe_tensor_square_apply",
                                "square_mismatch",
                                json!({"raw_index": at, "square": sq.data().raw()[at], "apply": res.data().raw()[at]}),
                            );
                        }
                    }
                }
            }
        }
    }
}

fn res_sizes(full: usize, tier: Tier) -> Vec<usize> {
    // below / equal / above the full product (a_size + b_size limbs)
    let mut v: Vec<usize> = if tier.is_thorough() {
        (1..=full + 1).collect()
    } else {
        vec![1, 2, full.saturating_sub(1).max(1), full, full + 1]
    };
    v.sort();
    v.dedup();
    v
}

fn tensor_cases<B: Bk>(tier: Tier) -> Vec<TCase> {
    let mut out = vec![];
    let smax = tier.pick(3usize, 4usize);
    for square in [false, true] {
        for &n in tier.pick(&[8usize][..], &[8usize, 16][..]) {
            for rank in 1..=2usize {
                for &b in &radices::<B>(tier) {
                    let b_res_set: Vec<usize> = if tier.is_thorough() {
                        vec![b, b - 1, b + 1]
                    } else {
                        vec![b, b - 1]
                    };
                    for &b_res in &b_res_set {
                        for a_size in 1..=smax {
                            for b_size in 1..=(if square { 1 } else { smax }) {
                                let b_size = if square { a_size } else { b_size };
                                if !tier.is_thorough() && b_res != b && (a_size + b_size) % 2 == 1 {
                                    continue;
                                }
                                for res_size in res_sizes(a_size + b_size, tier) {
                                    for (a_k, b_k) in eff_pairs(b, a_size, b_size, tier) {
                                        let b_k = if square { a_k } else { b_k };
                                        // thorough: the radix product is large; cross-radix results take a residues subset
                                        if tier.is_thorough()
                                            && b >= 12
                                            && b_res != b
                                            && !(a_k % b <= 1 || a_k % b == b - 1)
                                        {
                                            continue;
                                        }
                                        // N = 16 (thorough): sizes <= 3, equal radices
                                        if n == 16 && (a_size > 3 || b_size > 3 || b_res != b) {
                                            continue;
                                        }
                                        for val in 0..2usize {
                                            if rank == 2 && val == 1 {
                                                continue;
                                            }
                                            out.push(TCase {
                                                backend: B::NAME.into(),
                                                n,
                                                rank,
                                                b,
                                                b_res,
                                                a_size,
                                                b_size,
                                                res_size,
                                                a_k,
                                                b_k,
                                                val,
                                                square,
                                            });
                                        }
                                    }
                                }
                            }
                        }
                    }
                }
            }
        }
    }
    // N = 16 in the quick tier: one slice
    if !tier.is_thorough() {
        for rank in 1..=2usize {
            for &b in &radices::<B>(tier) {
                for (a_size, b_size, res_size) in [(2usize, 2usize, 3usize), (3, 1, 2), (1, 2, 4)] {
                    for (a_k, b_k) in eff_pairs(b, a_size, b_size, tier) {
                        out.push(TCase {
                            backend: B::NAME.into(),
                            n: 16,
                            rank,
                            b,
                            b_res: b,
                            a_size,
                            b_size,
                            res_size,
                            a_k,
                            b_k,
                            val: 0,
                            square: false,
                        });
                    }
                }
            }
        }
    }
    out
}

fn fam_tensor<B: Bk>(run: &mut Run)
where
    Module<B>: HalAll<B> + CoreAll<B>,
    Scratch<B>: ScratchTakeCore<B>,
{
    let seed = run.seed;
    let tier = run.tier;
    let cs = tensor_cases::<B>(tier);
    run.family(
        &format!("tensor/{}", B::NAME),
        "outer = (square?, N, rank, operand radix, result radix, a/b/res sizes, effective precisions a_k != b_k over the residues, value class); inner = every cnv_offset 0..min((res_size+1)*b, (a_size+b_size)*b) x garbage fill; per inner: glwe_tensor_apply judged column by column and through the secret tensor against the exact product of the operand phases, glwe_tensor_apply_add_assign == prior + apply limb for limb, glwe_tensor_square_apply == apply(a, a) bit for bit",
        cs,
        |c, rec| exec_tensor::<B>(c, None, seed, tier, rec),
    );
}

// ---------------------------------------------------------------------------------------------
// relinearisation
// ---------------------------------------------------------------------------------------------

#[derive(Clone, Debug, Serialize, Deserialize)]
pub struct RCase {
    pub backend: String,
    pub n: usize,
    pub rank: usize,
    /// radix of the tensor
    pub b: usize,
    pub b_key: usize,
    pub b_res: usize,
    pub t_size: usize,
    pub res_size: usize,
    pub dsize: usize,
    pub dnum: usize,
    pub key_size: usize,
}

const BOUND_XE: u64 = 20; // ceil(6 * 3.2): the truncation bound of the error sampler

pub fn exec_relin<B: Bk>(c: &RCase, only: Option<(usize, usize)>, seed: u64, rec: &mut Rec)
where
    Module<B>: HalAll<B> + CoreAll<B>,
    Scratch<B>: ScratchTakeCore<B>,
{
    let m = B::module(c.n);
    let sec = Sec::new(c.n, c.rank);
    let cols = c.rank + 1;
    let pairs = c.rank * (c.rank + 1) / 2;
    let key = fnv(format!("{:?}", c).as_bytes());
    rec.distinct(key);
    rec.sample(|| serde_json::to_value(c).unwrap());
    // ---- key material (library), same seed as the harness copy of the secret
    let mut sk = GLWESecret::alloc(Degree(c.n as u32), Rank(c.rank as u32));
    sk.fill_ternary_prob(0.5, &mut Source::new(seed_of(c.n, c.rank)));
    let tsk_layout = GLWETensorKeyLayout {
        n: Degree(c.n as u32),
        base2k: Base2K(c.b_key as u32),
        k: TorusPrecision((c.key_size * c.b_key) as u32),
        rank: Rank(c.rank as u32),
        dnum: Dnum(c.dnum as u32),
        dsize: Dsize(c.dsize as u32),
    };
    let enc = EncryptionLayout::new_from_default_sigma(tsk_layout).expect("tensor key layout");
    let mut tsk = GLWETensorKey::alloc_from_infos(&tsk_layout);
    let mut xe = Source::new([7u8; 32]);
    let mut xa = Source::new([9u8; 32]);
    let mut tsk_prep = m.alloc_tensor_key_prepared_from_infos(&tsk_layout);
    let keygen = guarded(|| {
        with_scratch::<B, _>(
            m.glwe_tensor_key_encrypt_sk_tmp_bytes(&tsk_layout) + MIB,
            0,
            |s| m.glwe_tensor_key_encrypt_sk(&mut tsk, &sk, &enc, &mut xe, &mut xa, s),
        );
        with_scratch::<B, _>(m.prepare_tensor_key_tmp_bytes(&tsk_layout) + MIB, 0, |s| {
            m.prepare_tensor_key(&mut tsk_prep, &tsk, s)
        });
    });
    if let Err(msg) = keygen {
        rec.fail(json!({"op": "glwe_tensor_key_encrypt_sk", "backend": B::NAME, "kind": "panic", "case": c, "inner": {}, "panic": msg}));
        return;
    }
    let r_bits = c.res_size * c.b_res;
    let t_bits = c.t_size * c.b;
    let k_bits = c.key_size * c.b_key;
    if std::env::var("VERIF_DEBUG").is_ok() {
        use poulpy_core::layouts::GGLWEToRef;
        let kref = tsk.to_ref();
        let mut p = 0;
        for i in 1..cols {
            for j in i..cols {
                for t in 0..c.dnum {
                    let row = vec_owned(kref.at(t, p).data());
                    let ph = glwe_phase_sec(&row, c.b_key, &sec);
                    let ideal: Poly = sec
                        .mono(i, j)
                        .iter()
                        .map(|x| IBig::from(*x) << (k_bits - (t + 1) * c.dsize * c.b_key))
                        .collect();
                    let (worst, _) = max_torus_err(&ph, k_bits, &ideal, k_bits);
                    eprintln!(
                        "key row pair {p} ({i},{j}) row {t}: max |error| = {} * 2^-{k_bits}",
                        worst
                    );
                }
                p += 1;
            }
        }
    }
    let s_a = t_bits.div_ceil(c.b_key); // limbs of the decomposed pair columns at the key radix
    let mut reported: Vec<String> = vec![];
    for src in 0..2usize {
        for g in 0..2usize {
            if let Some(o) = only {
                if o != (src, g) {
                    continue;
                }
            }
            let inner = json!({"src": src, "g": g});
            let mut rng = Rng::new(seed, key ^ ((src as u64) << 4) ^ g as u64);
            // ---- the tensor: arbitrary normalised content (src 0) or the product of two ciphertexts (src 1)
            let mut t = tensor_alloc(c.n, c.b, c.t_size, c.rank);
            if src == 0 {
                fill_class(t.data_mut(), c.b, g, &mut rng);
            } else {
                let a_size = c.t_size.min(3);
                let mut a = glwe_alloc(c.n, c.b, a_size, c.rank);
                let mut b = glwe_alloc(c.n, c.b, a_size, c.rank);
                fill_class(a.data_mut(), c.b, g, &mut rng);
                fill_class(b.data_mut(), c.b, 0, &mut rng);
                let bytes = m.glwe_tensor_apply_tmp_bytes(&t, &a, &b) + MIB;
                let out = guarded(|| {
                    with_scratch::<B, _>(bytes, g, |s| {
                        m.glwe_tensor_apply(c.b, &mut t, &a, a_size * c.b, &b, a_size * c.b, s)
                    })
                });
                if out.is_err() {
                    continue; // judged by the tensor family
                }
            }
            let want = tensor_phase(&t, &sec);
            // largest digit of the pair columns (the product's cross columns are sums of three normalised terms)
            let mut dmax: u64 = 1;
            for p in 0..pairs {
                for j in 0..c.t_size {
                    for x in t.data().at(cols + p, j) {
                        dmax = dmax.max(x.unsigned_abs());
                    }
                }
            }
            if c.b != c.b_key {
                dmax = 1u64 << (c.b_key - 1); // re-normalised into the key radix before decomposition
            }
            let mut res = glwe_alloc(c.n, c.b_res, c.res_size, c.rank);
            garbage(bytes_of(res.data_mut().raw_mut()), g);
            let bytes = m.glwe_tensor_relinearize_tmp_bytes(&res, &t, &tsk_layout) + MIB;
            let size = tsk_prep.size();
            let out = guarded(|| {
                with_scratch::<B, _>(bytes, g, |s| {
                    m.glwe_tensor_relinearize(&mut res, &t, &tsk_prep, size, s)
                })
            });
            rec.evals(1);
            let mut fail = |rec: &mut Rec, kind: &str, extra: Value| {
                let sig = kind.to_string();
                if reported.contains(&sig) {
                    rec.add("failures_not_itemised", 1);
                    return;
                }
                reported.push(sig);
                let d = json!({"op": "glwe_tensor_relinearize", "backend": B::NAME, "kind": kind, "case": c, "inner": inner,
                    "cross_radix_key": c.b != c.b_key, "cross_radix_res": c.b_res != c.b_key,
                    "dnum_covers": c.dnum * c.dsize >= s_a, "size_mod_dsize": s_a % c.dsize});
                rec.fail(merge(d, extra));
            };
            if let Err(msg) = out {
                fail(rec, "panic", json!({"panic": msg}));
                continue;
            }
            // ---- worst-case bound (R9), everything scaled by 2^W
            let w = t_bits
                .max(k_bits)
                .max(r_bits)
                .max((c.dnum * c.dsize + 2) * c.b_key)
                + 64;
            let one = |bits: usize| -> IBig { IBig::from(1) << (w - bits) }; // 2^-bits
            let s_norm = IBig::from(sec.s_norm());
            let mut bound = IBig::from(0);
            // (1) pair-column limbs beyond dnum*dsize are not decomposed: |tail| <= 2*dmax*2^-((dnum*dsize+1)*b_key)
            let used = s_a.min(c.dnum * c.dsize);
            if s_a > c.dnum * c.dsize {
                let tail: IBig = IBig::from(2 * dmax) * one((c.dnum * c.dsize + 1) * c.b_key);
                for i in 1..cols {
                    for j in i..cols {
                        bound += &tail * IBig::from(l1(&sec.mono(i, j)));
                    }
                }
            }
            // (2) digit x key error: every used limb m of every pair multiplies a key row whose error is bounded by
            //     BOUND_XE * 2^-k_enc, amplified by 2^(di*b_key) with di = dsize-1-(m mod dsize)
            for mm in 0..used {
                let di = c.dsize - 1 - (mm % c.dsize);
                let term: IBig = (IBig::from(pairs as u64 * c.n as u64 * BOUND_XE)
                    * IBig::from(dmax))
                    << (di * c.b_key);
                bound += term * one(k_bits);
            }
            // (3) dsize >= 3: the partial products of the low digits are accumulated without their last dsize-di-2 limbs
            if c.dsize >= 3 {
                for di in 0..c.dsize - 2 {
                    let cut = c.key_size - (c.dsize - di - 2);
                    let lost: IBig = (IBig::from(2 * pairs as u64 * c.dnum as u64 * c.n as u64)
                        * IBig::from(dmax))
                        << (c.b_key - 1);
                    bound += lost * one((cut + 1) * c.b_key) * &s_norm;
                }
            }
            // (4) the GLWE part of the tensor is added at the key's size; (5) one rounding into the result
            if s_a > c.key_size {
                bound += IBig::from(2 * dmax) * one((c.key_size + 1) * c.b_key) * &s_norm;
            }
            // (the conversion of the tensor into the key's radix is exact: the converted operand holds >= t_bits bits)
            bound += one(r_bits) * &s_norm;
            if bound >= one(3) {
                rec.add("vacuous_bound", 1);
                continue;
            }
            let got = glwe_phase_sec(res.data(), c.b_res, &sec);
            let wv = pshl(&want, w - t_bits);
            let (worst, at) = max_torus_err(&got, r_bits, &wv, w);
            rec.outcome(pvc_engine::hash_i64s(res.data().at(0, 0)));
            if worst > bound {
                // classification: does the violation disappear when the scratch arena is zero-filled?
                let mut res0 = glwe_alloc(c.n, c.b_res, c.res_size, c.rank);
                let zero_ok = guarded(|| {
                    with_scratch::<B, _>(bytes, 2, |s| {
                        m.glwe_tensor_relinearize(&mut res0, &t, &tsk_prep, size, s)
                    })
                })
                .map(|_| {
                    let got0 = glwe_phase_sec(res0.data(), c.b_res, &sec);
                    max_torus_err(&got0, r_bits, &wv, w).0 <= bound
                })
                .unwrap_or(false);
                fail(
                    rec,
                    "noise_too_large",
                    json!({"index": at, "err_log2": approx_units(&worst, 0).log2() - w as f64, "bound_log2": approx_units(&bound, 0).log2() - w as f64,
                        "dmax": dmax, "passes_with_zero_scratch": zero_ok}),
                );
            } else {
                // how much of the bound is used (diagnostic)
                let used_pct = if bound > IBig::from(0) {
                    approx_units(&(worst * IBig::from(1000)), 0) / approx_units(&bound, 0)
                } else {
                    0.0
                };
                if used_pct > 500.0 {
                    rec.add("error_above_half_of_bound", 1);
                }
            }
        }
    }
}

fn relin_cases<B: Bk>(tier: Tier) -> Vec<RCase> {
    let mut out = vec![];
    let keys: Vec<usize> = match B::FAMILY {
        Family::Fft64 => tier.pick(vec![12, 17], vec![8, 12, 17]),
        Family::Ntt120 => tier.pick(vec![12, 17], vec![8, 17, 24]),
    };
    for &n in &[8usize, 16] {
        for rank in 1..=2usize {
            for &b_key in &keys {
                // tensor radix: the key's, and (cross-radix path) a smaller and a larger one
                let bts: Vec<usize> = if tier.is_thorough() {
                    vec![b_key, b_key - 1, b_key + 3]
                } else {
                    vec![b_key, b_key - 1]
                };
                for &b in &bts {
                    for dsize in 1..=3usize {
                        for t_size in 1..=4usize {
                            let s_a = (t_size * b).div_ceil(b_key);
                            let full = s_a.div_ceil(dsize);
                            // dnum smaller / equal / larger than ceil(size/dsize)
                            let mut dnums = vec![full, full + 1];
                            if full > 1 {
                                dnums.push(full - 1);
                            }
                            for dnum in dnums {
                                // key long enough that its error stays below the last decomposed digit
                                let key_size = dnum * dsize + dsize + 1;
                                let rs: Vec<(usize, usize)> = if tier.is_thorough() {
                                    vec![
                                        (b_key, 1),
                                        (b_key, t_size),
                                        (b_key, key_size),
                                        (b_key - 2, t_size + 1),
                                        (b, t_size),
                                    ]
                                } else {
                                    vec![
                                        (b_key, t_size),
                                        (b_key - 2, t_size + 1),
                                        (b_key, key_size),
                                    ]
                                };
                                for (b_res, res_size) in rs {
                                    if !tier.is_thorough() && (dsize == 3 && b != b_key) {
                                        continue;
                                    }
                                    out.push(RCase {
                                        backend: B::NAME.into(),
                                        n,
                                        rank,
                                        b,
                                        b_key,
                                        b_res,
                                        t_size,
                                        res_size,
                                        dsize,
                                        dnum,
                                        key_size,
                                    });
                                }
                            }
                        }
                    }
                }
            }
        }
    }
    out.sort_by_key(|c| format!("{:?}", c));
    out.dedup_by_key(|c| format!("{:?}", c));
    out.sort_by_key(|c| {
        (
            c.n, c.rank, c.t_size, c.dsize, c.dnum, c.b_key, c.b, c.res_size, c.b_res,
        )
    });
    out
}

fn fam_relin<B: Bk>(run: &mut Run)
where
    Module<B>: HalAll<B> + CoreAll<B>,
    Scratch<B>: ScratchTakeCore<B>,
{
    let seed = run.seed;
    let cs = relin_cases::<B>(run.tier);
    run.family(
        &format!("relinearize/{}", B::NAME),
        "outer = (N, rank, tensor radix, key radix, result radix, tensor size with every residue modulo dsize, dsize 1..3, dnum below/equal/above ceil(size/dsize), result size below/equal/above); key generated by the library from a secret whose coefficients the harness knows; inner = tensor source (arbitrary normalised content | product of two ciphertexts) x garbage/value class; oracle = phase of the relinearised GLWE under s equals the phase of the tensor under the secret tensor within the worst-case gadget bound",
        cs,
        |c, rec| exec_relin::<B>(c, None, seed, rec),
    );
}

// ---------------------------------------------------------------------------------------------
// multiplication by a plaintext polynomial / by a multi-limb constant
// ---------------------------------------------------------------------------------------------

#[derive(Clone, Debug, Serialize, Deserialize)]
pub struct MCase {
    /// "plain" | "plain_assign" | "const" | "const_assign"
    pub op: String,
    pub backend: String,
    pub n: usize,
    pub rank: usize,
    pub b: usize,
    pub b_res: usize,
    pub a_size: usize,
    /// plaintext limbs / constant limbs
    pub p_size: usize,
    pub res_size: usize,
    pub a_k: usize,
    pub p_k: usize,
    pub val: usize,
}

pub fn exec_mul<B: Bk>(
    c: &MCase,
    only: Option<(usize, usize)>,
    seed: u64,
    tier: Tier,
    rec: &mut Rec,
) where
    Module<B>: HalAll<B> + CoreAll<B>,
    Scratch<B>: ScratchTakeCore<B>,
{
    let m = B::module(c.n);
    let sec = Sec::new(c.n, c.rank);
    let cols = c.rank + 1;
    let key = fnv(format!("{:?}", c).as_bytes());
    rec.distinct(key);
    rec.sample(|| serde_json::to_value(c).unwrap());
    let mut rng = Rng::new(seed, key);
    let is_const = c.op.starts_with("const");
    let assign = c.op.ends_with("assign");
    let mut a = glwe_alloc(c.n, c.b, c.a_size, c.rank);
    fill_class(a.data_mut(), c.b, c.val, &mut rng);
    // plaintext polynomial (extreme digits for val 1) / constant limbs
    let mut pt = pt_alloc(c.n, c.b, c.p_size);
    fill_class(pt.data_mut(), c.b, c.val, &mut rng);
    let h = 1i64 << (c.b - 1);
    let cst: Vec<i64> = (0..c.p_size)
        .map(|j| match c.val {
            0 => rng.digit(c.b),
            1 => {
                if j % 2 == 0 {
                    -h
                } else {
                    h - 1
                }
            }
            _ => {
                if j == 0 {
                    3.min(h - 1)
                } else {
                    0
                }
            }
        })
        .collect();
    let (a_bits, p_bits) = (c.a_size * c.b, c.p_size * c.b);
    let l = a_bits + p_bits;
    let r_bits = c.res_size * c.b_res;
    // exact operand values; constants carry no effective precision
    let ac: Vec<Poly> = (0..cols)
        .map(|i| {
            if is_const {
                col_vals(a.data(), i, c.b)
            } else {
                masked_col(a.data(), i, c.b, c.a_k)
            }
        })
        .collect();
    let pv: Poly = if is_const {
        let mut v = pzero(c.n);
        v[0] = pvc_model::torus::value_scaled(&cst, c.b);
        v
    } else {
        masked_col(pt.data(), 0, c.b, c.p_k)
    };
    let want_cols: Vec<Poly> = ac.iter().map(|x| pmul(x, &pv)).collect();
    let mut pa = pzero(c.n);
    for i in 0..cols {
        pa = padd(&pa, &pmul_small(&ac[i], &sec.s[i]));
    }
    let want_phase = pmul(&pa, &pv);
    // all four forms are held to one unit of the last result limb (the out-of-place forms size their accumulator
    // for the whole product; the in-place forms must deliver the same value)
    let g_units: IBig = IBig::from(0);
    let opname = match c.op.as_str() {
        "plain" => "glwe_mul_plain",
        "plain_assign" => "glwe_mul_plain_assign",
        "const" => "glwe_mul_const",
        _ => "glwe_mul_const_assign",
    };
    let mut reported: Vec<String> = vec![];
    for cnv in offsets(
        cmax(c.res_size, c.a_size, c.p_size, c.b),
        c.b,
        if only.is_some() { Tier::Thorough } else { tier },
    ) {
        for g in 0..2usize {
            if let Some(o) = only {
                if o != (cnv, g) {
                    continue;
                }
            } else if !tier.is_thorough() && g != (cnv & 1) {
                continue;
            }
            let inner = json!({"cnv_offset": cnv, "g": g});
            let mut fail = |rec: &mut Rec, kind: &str, extra: Value| {
                let sig = kind.to_string();
                if reported.contains(&sig) {
                    rec.add("failures_not_itemised", 1);
                    return;
                }
                reported.push(sig);
                let d = json!({"op": opname, "backend": B::NAME, "kind": kind, "case": c, "inner": inner});
                rec.fail(merge(merge(d, classify(cnv, c.b, c.b_res, r_bits)), extra));
            };
            let mut res = if assign {
                glwe_clone(&a)
            } else {
                let mut r = glwe_alloc(c.n, c.b_res, c.res_size, c.rank);
                garbage(bytes_of(r.data_mut().raw_mut()), g);
                r
            };
            let out = guarded(|| match c.op.as_str() {
                "plain" => {
                    let bytes = m.glwe_mul_plain_tmp_bytes(&res, &a, &pt) + MIB;
                    with_scratch::<B, _>(bytes, g, |s| {
                        m.glwe_mul_plain(cnv, &mut res, &a, c.a_k, &pt, c.p_k, s)
                    })
                }
                "plain_assign" => {
                    let bytes = m.glwe_mul_plain_tmp_bytes(&res, &res, &pt) + MIB;
                    with_scratch::<B, _>(bytes, g, |s| {
                        m.glwe_mul_plain_assign(cnv, &mut res, c.a_k, &pt, c.p_k, s)
                    })
                }
                "const" => {
                    let bytes = m.glwe_mul_const_tmp_bytes(&res, &a, cst.len()) + MIB;
                    with_scratch::<B, _>(bytes, g, |s| m.glwe_mul_const(cnv, &mut res, &a, &cst, s))
                }
                _ => {
                    let bytes = m.glwe_mul_const_tmp_bytes(&res, &res, cst.len()) + MIB;
                    with_scratch::<B, _>(bytes, g, |s| {
                        m.glwe_mul_const_assign(cnv, &mut res, &cst, s)
                    })
                }
            });
            rec.evals(1);
            if let Err(msg) = out {
                fail(rec, "panic", json!({"panic": msg}));
                continue;
            }
            let exact = r_bits + cnv >= l;
            let tol: IBig = if exact {
                IBig::from(0)
            } else {
                IBig::from(1) + &g_units
            };
            let mut verdict: Option<ColVerdict> = None;
            for i in 0..cols {
                let got = col_vals(res.data(), i, c.b_res);
                let want = pshl(&want_cols[i], cnv);
                if let Some((err, at)) = compare(&got, r_bits, &want, l, &tol) {
                    verdict = Some(ColVerdict {
                        regime: if exact {
                            Regime::Exact
                        } else {
                            Regime::Truncating
                        },
                        err_units: err,
                        tol_units: approx_units(&tol, 0),
                        col: i,
                        index: at,
                        level: "column",
                    });
                    break;
                }
            }
            if verdict.is_none() {
                let got = glwe_phase_sec(res.data(), c.b_res, &sec);
                let want = pshl(&want_phase, cnv);
                let tol_p: IBig = &tol * IBig::from(sec.s_norm());
                if let Some((err, at)) = compare(&got, r_bits, &want, l, &tol_p) {
                    verdict = Some(ColVerdict {
                        regime: if exact {
                            Regime::Exact
                        } else {
                            Regime::Truncating
                        },
                        err_units: err,
                        tol_units: approx_units(&tol_p, 0),
                        col: 0,
                        index: at,
                        level: "phase",
                    });
                }
            }
            match verdict {
                Some(v) => {
                    let kind = if v.regime == Regime::Exact {
                        "wrong_value"
                    } else {
                        "noise_too_large"
                    };
                    fail(
                        rec,
                        kind,
                        json!({"level": v.level, "col": v.col, "index": v.index, "err_units": v.err_units, "tol_units": v.tol_units,
                            "regime": format!("{:?}", v.regime)}),
                    );
                }
                None => {
                    if !exact {
                        rec.add("truncating_regime", 1);
                    }
                    if g == 0 {
                        rec.outcome(pvc_engine::hash_i64s(res.data().at(0, 0)));
                    }
                }
            }
        }
    }
}

fn mul_cases<B: Bk>(tier: Tier) -> Vec<MCase> {
    let mut out = vec![];
    let smax = tier.pick(3usize, 4usize);
    for op in ["plain", "plain_assign", "const", "const_assign"] {
        let is_const = op.starts_with("const");
        let assign = op.ends_with("assign");
        for &n in tier.pick(&[8usize][..], &[8usize, 16][..]) {
            for rank in 1..=2usize {
                for &b in &radices::<B>(tier) {
                    // result radix equal / finer / coarser, and much coarser (one result limb spans three operand limbs: limb counts
                    // of the two radices must not be mixed up)
                    let b_res_set: Vec<usize> = if assign {
                        vec![b]
                    } else if 3 * b <= 52 {
                        vec![b, b - 1, b + 1, 3 * b]
                    } else {
                        vec![b, b - 1, b + 1]
                    };
                    for &b_res in &b_res_set {
                        for a_size in 1..=smax {
                            for p_size in 1..=(if is_const { 3 } else { smax }) {
                                let sizes: Vec<usize> = if assign {
                                    vec![a_size]
                                } else {
                                    res_sizes(a_size + p_size, tier)
                                };
                                for res_size in sizes {
                                    let effs: Vec<(usize, usize)> = if is_const {
                                        vec![(a_size * b, p_size * b)]
                                    } else {
                                        eff_pairs(b, a_size, p_size, tier)
                                    };
                                    for (a_k, p_k) in effs {
                                        if b_res != b && a_k % b != 1 && a_k % b != 0 {
                                            continue;
                                        }
                                        if n == 16 && (a_size > 2 || p_size > 2 || b_res != b) {
                                            continue;
                                        }
                                        for val in 0..(if is_const { 3usize } else { 2usize }) {
                                            if rank == 2 && val == 0 && !is_const {
                                                continue;
                                            }
                                            out.push(MCase {
                                                op: op.into(),
                                                backend: B::NAME.into(),
                                                n,
                                                rank,
                                                b,
                                                b_res,
                                                a_size,
                                                p_size,
                                                res_size,
                                                a_k,
                                                p_k,
                                                val,
                                            });
                                        }
                                    }
                                }
                            }
                        }
                    }
                }
            }
        }
    }
    out
}

fn fam_mul<B: Bk>(run: &mut Run)
where
    Module<B>: HalAll<B> + CoreAll<B>,
    Scratch<B>: ScratchTakeCore<B>,
{
    let seed = run.seed;
    let tier = run.tier;
    let cs = mul_cases::<B>(tier);
    run.family(
        &format!("mul_plain_const/{}", B::NAME),
        "outer = (glwe_mul_plain | _assign | glwe_mul_const | _assign, N, rank, radix, result radix, ciphertext / plaintext (constant: 1..3 limbs) / result sizes, effective precisions over the residues, value class incl. extreme digits); inner = every cnv_offset x garbage fill; oracle = every column and the phase equal (operand at its effective precision) x plaintext x 2^cnv_offset modulo 1: exact when the result holds the whole product, else one unit of the last limb",
        cs,
        |c, rec| exec_mul::<B>(c, None, seed, tier, rec),
    );
}

pub fn run(run: &mut Run) {
    run.assume("operands hold normalised digits; a_effective_k / b_effective_k satisfy ceil(k/base2k) == size (asserted by the API) and are modelled as truncation (floor) of the operand to k fractional bits");
    run.assume("cnv_offset ranges over 0..=min((res_size+1)*base2k, (a_size+b_size)*base2k): beyond (a_size+b_size)*base2k the product is 0 modulo 1 and the library's size arithmetic (a.size()+b.size()-cnv_offset_hi) is outside its domain");
    run.assume("predicted noise of the truncating regime (result shorter than the exact product): the tensor operations keep only the convolution limbs that overlap the result window (ceil((res_bits + intra-limb offset)/base2k) limbs), so the carries of the discarded un-normalised limbs are lost: up to N*min(a_size,b_size)*2^(base2k-1) units of the last result limb per rounded term (x4 for the pairwise cross term, 3 rounded terms per cross column); this is granted as predicted noise. glwe_mul_plain(_assign) and glwe_mul_const(_assign) are held to one unit. When the result can hold the whole product, exact equality is demanded");
    run.assume("radices inside the backend magnitude domain: FFT64 base2k <= 17 (N*terms*4*2^(2*base2k) <= 2^50), NTT120 base2k <= 40; relinearisation keys use base2k in {8,12,17,24} with key size dnum*dsize+dsize+1 limbs so that the worst-case bound stays below 2^-3 (cases whose bound is larger are counted as vacuous, not judged)");
    run.assume("scratch = companion query + 1 MiB (sizing of the queries belongs to C12)");
    for_backends!(fam_tensor(run));
    for_backends!(fam_relin(run));
    for_backends!(fam_mul(run));
}

pub fn replay(run: &mut Run, d: &Value) {
    let backend = d["backend"].as_str().unwrap_or("").to_string();
    let fam = d["family"].as_str().unwrap_or("").to_string();
    let seed = d["seed"].as_u64().unwrap_or(0);
    let i = &d["inner"];
    macro_rules! go {
        ($B:ty) => {{
            if fam.starts_with("tensor") {
                let c: TCase = serde_json::from_value(d["case"].clone()).unwrap();
                let only = match (i["cnv_offset"].as_u64(), i["g"].as_u64()) {
                    (Some(p), Some(g)) => Some((p as usize, g as usize)),
                    _ => None,
                };
                run.single(&fam, "replay", |rec| {
                    exec_tensor::<$B>(&c, only, seed, Tier::Thorough, rec)
                });
            } else if fam.starts_with("relinearize") {
                let c: RCase = serde_json::from_value(d["case"].clone()).unwrap();
                let only = match (i["src"].as_u64(), i["g"].as_u64()) {
                    (Some(p), Some(g)) => Some((p as usize, g as usize)),
                    _ => None,
                };
                run.single(&fam, "replay", |rec| exec_relin::<$B>(&c, only, seed, rec));
            } else {
                let c: MCase = serde_json::from_value(d["case"].clone()).unwrap();
                let only = match (i["cnv_offset"].as_u64(), i["g"].as_u64()) {
                    (Some(p), Some(g)) => Some((p as usize, g as usize)),
                    _ => None,
                };
                run.single(&fam, "replay", |rec| {
                    exec_mul::<$B>(&c, only, seed, Tier::Thorough, rec)
                });
            }
        }};
    }
    match backend.as_str() {
        "fft64-ref" => go!(pvc_common::FFT64Ref),
        "ntt120-ref" => go!(pvc_common::NTT120Ref),
        "fft64-avx" => go!(pvc_common::FFT64Avx),
        "ntt120-avx" => go!(pvc_common::NTT120Avx),
        o => panic!("unknown backend {o}"),
    }
}

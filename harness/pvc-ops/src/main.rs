//! pvc-ops: checks C02, C05.  usage: pvc-ops <Cxx> --tier quick|thorough [--replay f] [--only family]

pub mod c02;
pub mod c05;
pub mod util;

use pvc_engine::{Run, load_replay, parse_args};

fn main() {
    let args = parse_args();
    macro_rules! check {
        ($level:expr, $run:path, $replay:path) => {{
            let mut run = Run::new(&args, $level);
            match &args.replay {
                Some(p) => $replay(&mut run, &load_replay(p)),
                None => $run(&mut run),
            }
            run.finish()
        }};
    }
    let code = match args.property.as_str() {
        "C02" => check!("model_checking", c02::run, c02::replay),
        "C05" => check!("exploration", c05::run, c05::replay),
        o => {
            eprintln!("pvc-ops: unknown property {o}");
            2
        }
    };
    std::process::exit(code);
}

//! pvc-ops: checks C02, C05 and the ciphertext-operation parts of the cross-cutting properties C10, C11, C12.  usage: pvc-ops <Cxx> --tier quick|thorough [--replay f] [--only family]

pub mod c02;
pub mod c05;
pub mod c10ops;
pub mod c11ops;
pub mod c12ops;
pub mod util;
pub mod xops;

use pvc_engine::{Run, load_replay, parse_args};

fn main() {
    let args = parse_args();
    macro_rules! check {
        ($level:expr, $run:path, $replay:path) => {{
            let mut run = Run::new(&args, $level);
            match &args.replay {
                Some(p) => $replay(&mut run, &load_replay(p)),
                None => $run(&mut run),
            }
            run.finish()
        }};
    }
    // parts of multi-group properties: a replay descriptor of another group's family is not ours (exit code 2)
    macro_rules! part {
        ($level:expr, $run:path, $replay:path) => {{
            let mut run = Run::new(&args, $level);
            match &args.replay {
                Some(p) => {
                    if !$replay(&mut run, &load_replay(p)) {
                        std::process::exit(2);
                    }
                }
                None => $run(&mut run),
            }
            run.finish()
        }};
    }
    let code = match args.property.as_str() {
        "C02" => check!("model_checking", c02::run, c02::replay),
        "C05" => check!("exploration", c05::run, c05::replay),
        "C10" => part!("exploration", c10ops::run, c10ops::replay),
        "C11" => part!("model_checking", c11ops::run, c11ops::replay),
        "C12" => part!("exploration", c12ops::run, c12ops::replay),
        o => {
            eprintln!("pvc-ops: unknown property {o}");
            2
        }
    };
    std::process::exit(code);
}

//! C02 - noise-free ciphertext operations commute exactly with the decryption phase (model checking: E1 + E2).
//!
//! E1 (families `glwe_ops/*`, `ggsw_rotate/*`): every single operation over the full product of shapes, ranks,
//! radices, parameters, value classes and garbage fills. Oracle, evaluated on every element:
//!   (a) column level - every column of the result, read as an exact rational modulo 1, equals the operation
//!       applied to the same column of the operands (a column an operand does not have is zero), within one unit of
//!       the result's last limb per truncated operand, exactly when nothing is truncated;
//!   (b) phase level - phase(result) == op(phase(a), phase(b)) modulo 1 under a fixed clear secret (no key is
//!       generated; the secret only evaluates the phase), same tolerance times (1 + sum |s_i|_1);
//!   (c) for the limb-wise operations without truncation: limb-exact equality with the index-level ring model.
//! E2 (family `programs/*`): explicit-state search (stateright) over straight-line programs on a register file of
//! real GLWE objects; every transition performs the real call and is checked against the reference phase carried
//! in the state.

use crate::util::*;
use poulpy_core::layouts::{
    Base2K, Degree, Dnum, Dsize, GGSW, GLWE, LWEInfos, Rank, TorusPrecision,
};
use poulpy_core::{
    GGSWRotate, GLWEAdd, GLWECopy, GLWEMulXpMinusOne, GLWENegate, GLWENormalize, GLWERotate,
    GLWEShift, GLWESub, ScratchTakeCore,
};
use poulpy_hal::api::{VecZnxMulXpMinusOneAssignTmpBytes, VecZnxNormalizeTmpBytes};
use poulpy_hal::layouts::{Module, Scratch, ZnxInfos, ZnxView, ZnxViewMut};
use pvc_common::phase::{Dist, clear_secret, glwe_phase};
use pvc_common::{Bk, CoreAll, HalAll, for_backends};
use pvc_engine::rng::{Rng, garbage};
use pvc_engine::{Rec, Run, Tier, fnv, guarded};
use pvc_model::IBig;
use pvc_model::ring;
use serde::{Deserialize, Serialize};
use serde_json::{Value, json};
use stateright::{Checker, Model, Property};
use std::hash::{Hash, Hasher};
use std::sync::Mutex;
use std::sync::atomic::{AtomicU64, Ordering};

#[derive(Clone, Copy, Debug, PartialEq, Eq, Hash, Serialize, Deserialize)]
pub enum Op {
    AddInto,
    AddAssign,
    Sub,
    SubAssign,
    SubNegateAssign,
    Negate,
    NegateAssign,
    Copy,
    Rotate,
    RotateAssign,
    MulXpMinusOne,
    MulXpMinusOneAssign,
    Rsh,
    LshAssign,
    Lsh,
    LshAdd,
    LshSub,
    Normalize,
    NormalizeAssign,
}

pub const ALL_OPS: [Op; 19] = [
    Op::AddInto,
    Op::AddAssign,
    Op::Sub,
    Op::SubAssign,
    Op::SubNegateAssign,
    Op::Negate,
    Op::NegateAssign,
    Op::Copy,
    Op::Rotate,
    Op::RotateAssign,
    Op::MulXpMinusOne,
    Op::MulXpMinusOneAssign,
    Op::Rsh,
    Op::LshAssign,
    Op::Lsh,
    Op::LshAdd,
    Op::LshSub,
    Op::Normalize,
    Op::NormalizeAssign,
];

impl Op {
    pub fn name(self) -> &'static str {
        match self {
            Op::AddInto => "glwe_add_into",
            Op::AddAssign => "glwe_add_assign",
            Op::Sub => "glwe_sub",
            Op::SubAssign => "glwe_sub_assign",
            Op::SubNegateAssign => "glwe_sub_negate_assign",
            Op::Negate => "glwe_negate",
            Op::NegateAssign => "glwe_negate_assign",
            Op::Copy => "glwe_copy",
            Op::Rotate => "glwe_rotate",
            Op::RotateAssign => "glwe_rotate_assign",
            Op::MulXpMinusOne => "glwe_mul_xp_minus_one",
            Op::MulXpMinusOneAssign => "glwe_mul_xp_minus_one_assign",
            Op::Rsh => "glwe_rsh",
            Op::LshAssign => "glwe_lsh_assign",
            Op::Lsh => "glwe_lsh",
            Op::LshAdd => "glwe_lsh_add",
            Op::LshSub => "glwe_lsh_sub",
            Op::Normalize => "glwe_normalize",
            Op::NormalizeAssign => "glwe_normalize_assign",
        }
    }
    pub fn uses_a(self) -> bool {
        !matches!(
            self,
            Op::NegateAssign
                | Op::RotateAssign
                | Op::MulXpMinusOneAssign
                | Op::Rsh
                | Op::LshAssign
                | Op::NormalizeAssign
        )
    }
    pub fn uses_b(self) -> bool {
        matches!(self, Op::AddInto | Op::Sub)
    }
    /// the prior content of the result is an input
    pub fn reads_res(self) -> bool {
        matches!(
            self,
            Op::AddAssign
                | Op::SubAssign
                | Op::SubNegateAssign
                | Op::NegateAssign
                | Op::RotateAssign
                | Op::MulXpMinusOneAssign
                | Op::Rsh
                | Op::LshAssign
                | Op::LshAdd
                | Op::LshSub
                | Op::NormalizeAssign
        )
    }
    pub fn is_rotation(self) -> bool {
        matches!(
            self,
            Op::Rotate | Op::RotateAssign | Op::MulXpMinusOne | Op::MulXpMinusOneAssign
        )
    }
    pub fn is_shift(self) -> bool {
        matches!(
            self,
            Op::Rsh | Op::LshAssign | Op::Lsh | Op::LshAdd | Op::LshSub
        )
    }
    /// the operation re-normalises (so un-normalised operand digits are admissible)
    pub fn normalises(self) -> bool {
        self.is_shift() || matches!(self, Op::Normalize | Op::NormalizeAssign)
    }
    /// limb-wise operations: without truncation the result limbs are determined exactly by the ring model
    pub fn limbwise(self) -> bool {
        !self.normalises()
    }
    /// rank relation asserted by the API: is (res rank, a rank, b rank) admitted?
    pub fn admits(self, rr: usize, ra: usize, rb: usize) -> bool {
        match self {
            Op::AddInto | Op::Sub => {
                if ra == 0 {
                    rr == rb
                } else if rb == 0 {
                    rr == ra
                } else {
                    rr == ra && rr == rb
                }
            }
            Op::AddAssign | Op::Lsh | Op::LshAdd | Op::LshSub => rr >= ra,
            Op::SubAssign | Op::SubNegateAssign | Op::Copy | Op::Rotate => rr == ra || ra == 0,
            Op::Negate | Op::MulXpMinusOne | Op::Normalize => rr == ra,
            _ => true,
        }
    }
}

fn ceil_shr(x: u128, k: usize) -> u128 {
    if k >= 128 {
        return (x > 0) as u128;
    }
    let q = x >> k;
    if (q << k) != x { q + 1 } else { q }
}

fn sat_shl(x: u128, k: usize) -> u128 {
    if x == 0 {
        0
    } else if k >= 100 || x.leading_zeros() as usize <= k + 20 {
        u128::MAX >> 20
    } else {
        x << k
    }
}

const T_INF: u128 = u128::MAX >> 20;

fn sat_add(a: u128, b: u128) -> u128 {
    a.saturating_add(b).min(T_INF)
}

/// error of operand `a` (t_a units of 2^-(a_bits)) after multiplication by 2^k, in units of 2^-(r_bits), rounded up
fn conv_units(t_a: u128, a_bits: usize, r_bits: usize, k: usize) -> u128 {
    let e = r_bits as i64 + k as i64 - a_bits as i64;
    if e >= 0 {
        sat_shl(t_a, e as usize)
    } else {
        ceil_shr(t_a, (-e) as usize)
    }
}

/// Tolerance (in units of the result's last limb, per column and coefficient) the property grants:
/// one unit per truncated operand, plus the propagated tolerance of the operands (E2).
#[allow(clippy::too_many_arguments)]
pub fn tolerance_units(
    op: Op,
    p: i64,
    r_bits: usize,
    a_bits: usize,
    b_bits: usize,
    t_r: u128,
    t_a: u128,
    t_b: u128,
) -> u128 {
    tolerance_units_tr(
        op,
        p,
        r_bits,
        a_bits,
        b_bits,
        t_r,
        t_a,
        t_b,
        (a_bits > r_bits) as u128,
        (b_bits > r_bits) as u128,
    )
}

/// Units lost by cutting the limbs of `g` beyond `keep` in a limb-wise operation: |tail| <= D / (2^b - 1) units of
/// the last kept limb, D = largest digit magnitude among the cut limbs (1 unit for normalised digits).
pub fn truncation_units(g: &GLWE<Vec<u8>>, keep: usize) -> u128 {
    let b = g.base2k().0 as usize;
    let mut d: u64 = 0;
    for i in 0..g.data().cols() {
        for j in keep..g.size() {
            for x in g.data().at(i, j) {
                d = d.max(x.unsigned_abs());
            }
        }
    }
    let m = (1u128 << b) - 1;
    (d as u128).div_ceil(m)
}

/// same with explicit truncation allowances of the operands (units of the result's last limb)
#[allow(clippy::too_many_arguments)]
pub fn tolerance_units_tr(
    op: Op,
    p: i64,
    r_bits: usize,
    a_bits: usize,
    b_bits: usize,
    t_r: u128,
    t_a: u128,
    t_b: u128,
    tr_a: u128,
    tr_b: u128,
) -> u128 {
    let ca = sat_add(conv_units(t_a, a_bits, r_bits, 0), tr_a);
    let cb = sat_add(conv_units(t_b, b_bits, r_bits, 0), tr_b);
    let k = p.unsigned_abs() as usize;
    match op {
        Op::AddInto | Op::Sub => sat_add(ca, cb),
        Op::AddAssign | Op::SubAssign | Op::SubNegateAssign => sat_add(t_r, ca),
        Op::Negate | Op::Copy | Op::Rotate | Op::Normalize => ca,
        Op::NegateAssign | Op::RotateAssign | Op::NormalizeAssign => t_r,
        Op::MulXpMinusOne => sat_add(ca, ca),
        Op::MulXpMinusOneAssign => sat_add(t_r, t_r),
        Op::Rsh => {
            if k == 0 {
                t_r
            } else {
                sat_add(ceil_shr(t_r, k), 1)
            }
        }
        Op::LshAssign => sat_shl(t_r, k),
        Op::Lsh | Op::LshAdd | Op::LshSub => {
            let e = sat_add(
                conv_units(t_a, a_bits, r_bits, k),
                (a_bits as i64 - k as i64 > r_bits as i64) as u128,
            );
            if op == Op::Lsh { e } else { sat_add(t_r, e) }
        }
    }
}

/// The operation on exact polynomials (columns or phases), all scaled by 2^l. `r0` = prior result.
pub fn apply(op: Op, p: i64, r0: &Poly, a: &Poly, b: &Poly) -> Poly {
    let k = p.unsigned_abs() as usize;
    match op {
        Op::AddInto => padd(a, b),
        Op::Sub => psub(a, b),
        Op::AddAssign => padd(r0, a),
        Op::SubAssign => psub(r0, a),
        Op::SubNegateAssign => psub(a, r0),
        Op::Negate => pneg(a),
        Op::NegateAssign => pneg(r0),
        Op::Copy | Op::Normalize => a.clone(),
        Op::NormalizeAssign => r0.clone(),
        Op::Rotate => prot(a, p),
        Op::RotateAssign => prot(r0, p),
        Op::MulXpMinusOne => psub(&prot(a, p), a),
        Op::MulXpMinusOneAssign => psub(&prot(r0, p), r0),
        // the caller guarantees that the low k bits of the scaled operand are zero (exact division)
        Op::Rsh => r0.iter().map(|x| x >> k).collect(),
        Op::LshAssign => pshl(r0, k),
        Op::Lsh => pshl(a, k),
        Op::LshAdd => padd(r0, &pshl(a, k)),
        Op::LshSub => psub(r0, &pshl(a, k)),
    }
}

/// issues the real call
#[allow(clippy::too_many_arguments)]
pub fn call<B: Bk>(
    m: &Module<B>,
    op: Op,
    p: i64,
    res: &mut GLWE<Vec<u8>>,
    a: &GLWE<Vec<u8>>,
    b: &GLWE<Vec<u8>>,
    sg: usize,
) where
    Module<B>: HalAll<B> + CoreAll<B>,
    Scratch<B>: ScratchTakeCore<B>,
{
    let bytes = m
        .glwe_rotate_tmp_bytes()
        .max(m.glwe_shift_tmp_bytes())
        .max(m.glwe_normalize_tmp_bytes())
        .max(m.vec_znx_normalize_tmp_bytes())
        .max(m.vec_znx_mul_xp_minus_one_assign_tmp_bytes())
        + 256;
    with_scratch::<B, _>(bytes, sg, |s| call_with::<B>(m, op, p, res, a, b, s))
}

/// the real call with the scratch the caller provides
#[allow(clippy::too_many_arguments)]
pub fn call_with<B: Bk>(
    m: &Module<B>,
    op: Op,
    p: i64,
    res: &mut GLWE<Vec<u8>>,
    a: &GLWE<Vec<u8>>,
    b: &GLWE<Vec<u8>>,
    s: &mut Scratch<B>,
) where
    Module<B>: HalAll<B> + CoreAll<B>,
    Scratch<B>: ScratchTakeCore<B>,
{
    let k = p.unsigned_abs() as usize;
    match op {
        Op::AddInto => m.glwe_add_into(res, a, b),
        Op::AddAssign => m.glwe_add_assign(res, a),
        Op::Sub => m.glwe_sub(res, a, b),
        Op::SubAssign => m.glwe_sub_assign(res, a),
        Op::SubNegateAssign => m.glwe_sub_negate_assign(res, a),
        Op::Negate => m.glwe_negate(res, a),
        Op::NegateAssign => m.glwe_negate_assign(res),
        Op::Copy => m.glwe_copy(res, a),
        Op::Rotate => m.glwe_rotate(p, res, a),
        Op::RotateAssign => m.glwe_rotate_assign(p, res, s),
        Op::MulXpMinusOne => m.glwe_mul_xp_minus_one(p, res, a),
        Op::MulXpMinusOneAssign => m.glwe_mul_xp_minus_one_assign(p, res, s),
        Op::Rsh => m.glwe_rsh(k, res, s),
        Op::LshAssign => m.glwe_lsh_assign(res, k, s),
        Op::Lsh => m.glwe_lsh(res, a, k, s),
        Op::LshAdd => m.glwe_lsh_add(res, a, k, s),
        Op::LshSub => m.glwe_lsh_sub(res, a, k, s),
        Op::Normalize => m.glwe_normalize(res, a, s),
        Op::NormalizeAssign => m.glwe_normalize_assign(res, s),
    }
}

/// the operation's own companion scratch query (None: the operation takes no scratch). glwe_mul_xp_minus_one_assign
/// has no core-level query: the HAL query of the kernel it delegates to is its companion.
pub fn own_tmp_bytes<B: Bk>(m: &Module<B>, op: Op) -> Option<usize>
where
    Module<B>: HalAll<B> + CoreAll<B>,
    Scratch<B>: ScratchTakeCore<B>,
{
    match op {
        Op::RotateAssign => Some(m.glwe_rotate_tmp_bytes()),
        Op::MulXpMinusOneAssign => Some(m.vec_znx_mul_xp_minus_one_assign_tmp_bytes()),
        Op::Rsh | Op::LshAssign | Op::Lsh | Op::LshAdd | Op::LshSub => Some(m.glwe_shift_tmp_bytes()),
        Op::Normalize | Op::NormalizeAssign => Some(m.glwe_normalize_tmp_bytes()),
        _ => None,
    }
}

/// fixed clear "secret" used only to evaluate phases (3 columns, ternary)
pub fn eval_secret(n: usize) -> Vec<Vec<i64>> {
    let mut seed = [0u8; 32];
    seed[0] = 0xC2;
    seed[1] = n as u8;
    clear_secret(n, 3, Dist::TernaryProb, seed)
}

pub struct Judge<'a> {
    pub sk: &'a [Vec<i64>],
}

/// Outcome of judging one executed operation.
pub struct Verdict {
    pub kind: &'static str,
    pub level: &'static str,
    pub col: usize,
    pub index: usize,
    pub err_units: f64,
    pub tol_units: f64,
    pub why: String,
}

/// columns of `g` scaled to 2^l; a column the operand does not have is zero
fn cols_scaled(g: &GLWE<Vec<u8>>, ncols: usize, l: usize) -> Vec<Poly> {
    let b = g.base2k().0 as usize;
    let bits = g.size() * b;
    let n = g.n().0 as usize;
    (0..ncols)
        .map(|i| {
            if i < g.data().cols() {
                pshl(&col_vals(g.data(), i, b), l - bits)
            } else {
                pzero(n)
            }
        })
        .collect()
}

fn phase_scaled(g: &GLWE<Vec<u8>>, sk: &[Vec<i64>], l: usize) -> Poly {
    let b = g.base2k().0 as usize;
    let bits = g.size() * b;
    let rank = g.data().cols() - 1;
    pshl(&glwe_phase(g.data(), b, &sk[..rank]), l - bits)
}

/// index-level limb model of the limb-wise operations (zero extension of missing limbs / columns)
fn limb_model(
    op: Op,
    p: i64,
    n: usize,
    j: usize,
    i: usize,
    r0: &GLWE<Vec<u8>>,
    a: &GLWE<Vec<u8>>,
    b: &GLWE<Vec<u8>>,
) -> Vec<i64> {
    let get = |g: &GLWE<Vec<u8>>| -> Vec<i64> {
        if i < g.data().cols() && j < g.size() {
            g.data().at(i, j).to_vec()
        } else {
            vec![0i64; n]
        }
    };
    match op {
        Op::AddInto => ring::add(&get(a), &get(b)),
        Op::Sub => ring::sub(&get(a), &get(b)),
        Op::AddAssign => ring::add(&get(r0), &get(a)),
        Op::SubAssign => ring::sub(&get(r0), &get(a)),
        Op::SubNegateAssign => ring::sub(&get(a), &get(r0)),
        Op::Negate => ring::neg(&get(a)),
        Op::NegateAssign => ring::neg(&get(r0)),
        Op::Copy => get(a),
        Op::Rotate => ring::mul_xk(&get(a), p),
        Op::RotateAssign => ring::mul_xk(&get(r0), p),
        Op::MulXpMinusOne => ring::mul_xk_minus_one(&get(a), p),
        Op::MulXpMinusOneAssign => ring::mul_xk_minus_one(&get(r0), p),
        _ => unreachable!(),
    }
}

/// Judges `res` (after the call) against prior result `r0` and operands. `t_*` = tolerance the operands already
/// carry (E2; zero in E1). Returns the tolerance granted (units) and the first violation, if any.
#[allow(clippy::too_many_arguments)]
pub fn judge(
    sk: &[Vec<i64>],
    op: Op,
    p: i64,
    res: &GLWE<Vec<u8>>,
    r0: &GLWE<Vec<u8>>,
    a: &GLWE<Vec<u8>>,
    b: &GLWE<Vec<u8>>,
    columns: bool,
) -> (u128, Option<Verdict>) {
    let n = res.n().0 as usize;
    let rb = res.base2k().0 as usize;
    let r_bits = res.size() * rb;
    let a_bits = if op.uses_a() {
        a.size() * a.base2k().0 as usize
    } else {
        0
    };
    let b_bits = if op.uses_b() {
        b.size() * b.base2k().0 as usize
    } else {
        0
    };
    let k = p.unsigned_abs() as usize;
    let l = r_bits.max(a_bits).max(b_bits) + if op == Op::Rsh { k } else { 0 } + 2;
    let t = tolerance_units(op, p, r_bits, a_bits, b_bits, 0, 0, 0);
    let ncols = res.data().cols();
    let unit: IBig = IBig::from(1) << (l - r_bits);
    let zero_glwe;
    let (aa, bb): (&GLWE<Vec<u8>>, &GLWE<Vec<u8>>) = {
        zero_glwe = glwe_alloc(n, rb, 1, 0);
        (
            if op.uses_a() { a } else { &zero_glwe },
            if op.uses_b() { b } else { &zero_glwe },
        )
    };
    if columns {
        let rc = cols_scaled(r0, ncols, l);
        let ac = cols_scaled(aa, ncols, l);
        let bc = cols_scaled(bb, ncols, l);
        for i in 0..ncols {
            let want = apply(op, p, &rc[i], &ac[i], &bc[i]);
            let got = col_vals(res.data(), i, rb);
            let (worst, at) = max_torus_err(&got, r_bits, &want, l);
            let tol: IBig = IBig::from(t) * &unit;
            if worst > tol {
                return (
                    t,
                    Some(Verdict {
                        kind: "wrong_value",
                        level: "column",
                        col: i,
                        index: at,
                        err_units: approx_units(&worst, l - r_bits),
                        tol_units: t as f64,
                        why: format!(
                            "column {i} of the result differs from the operation applied to column {i} of the operands by {} units of the last result limb (granted: {t})",
                            approx_units(&worst, l - r_bits)
                        ),
                    }),
                );
            }
        }
        // limb-exact model for limb-wise operations when nothing is truncated
        if op.limbwise() && t == 0 {
            for i in 0..ncols {
                for j in 0..res.size() {
                    let want = limb_model(op, p, n, j, i, r0, aa, bb);
                    let got = res.data().at(i, j);
                    if got != want.as_slice() {
                        let at = got.iter().zip(&want).position(|(x, y)| x != y).unwrap();
                        return (
                            t,
                            Some(Verdict {
                                kind: "wrong_limbs",
                                level: "limb",
                                col: i,
                                index: at,
                                err_units: f64::NAN,
                                tol_units: 0.0,
                                why: format!(
                                    "limb {j} of column {i}: got {} want {}",
                                    got[at], want[at]
                                ),
                            }),
                        );
                    }
                }
            }
        }
    }
    // phase level
    let s_norm: u64 = 1 + (0..ncols - 1).map(|i| l1(&sk[i])).sum::<u64>();
    let pr = phase_scaled(r0, sk, l);
    let pa = phase_scaled(aa, sk, l);
    let pb = phase_scaled(bb, sk, l);
    let want = apply(op, p, &pr, &pa, &pb);
    let got = glwe_phase(res.data(), rb, &sk[..ncols - 1]);
    let (worst, at) = max_torus_err(&got, r_bits, &want, l);
    let tol: IBig = IBig::from(t) * IBig::from(s_norm) * &unit;
    if worst > tol {
        return (
            t,
            Some(Verdict {
                kind: "wrong_value",
                level: "phase",
                col: 0,
                index: at,
                err_units: approx_units(&worst, l - r_bits),
                tol_units: (t as f64) * s_norm as f64,
                why: format!(
                    "phase(result) differs from op(phase(a), phase(b)) by {} units of the last result limb (granted: {t} x {s_norm})",
                    approx_units(&worst, l - r_bits)
                ),
            }),
        );
    }
    (t, None)
}

// ---------------------------------------------------------------------------------------------
// E1: single operations
// ---------------------------------------------------------------------------------------------

#[derive(Clone, Debug, Serialize, Deserialize)]
pub struct Case {
    pub op: Op,
    pub backend: String,
    pub n: usize,
    /// radix of the operands (and of the result unless the operation is Normalize)
    pub b: usize,
    pub b_out: usize,
    pub rs: usize,
    pub a_s: usize,
    pub bs: usize,
    pub rr: usize,
    pub ra: usize,
    pub rb: usize,
}

impl Case {
    fn params(&self) -> Vec<i64> {
        let n = self.n as i64;
        if self.op.is_rotation() {
            (-4 * n..=4 * n).collect()
        } else if self.op.is_shift() {
            let top = if self.op.uses_a() {
                self.rs.max(self.a_s)
            } else {
                self.rs
            };
            (0..=((top + 2) * self.b) as i64).collect()
        } else {
            vec![0]
        }
    }
    fn classes(&self) -> &'static [usize] {
        if self.op.normalises() {
            &[0, 2, 3]
        } else {
            &[0, 1]
        }
    }
}

fn digits_in_range(g: &GLWE<Vec<u8>>) -> Option<(usize, usize, i64)> {
    let b = g.base2k().0 as usize;
    let h = 1i64 << (b - 1);
    for i in 0..g.data().cols() {
        for j in 0..g.size() {
            if let Some(d) = g.data().at(i, j).iter().find(|d| **d < -h || **d >= h) {
                return Some((i, j, *d));
            }
        }
    }
    None
}

pub fn exec<B: Bk>(c: &Case, only: Option<(i64, usize, usize)>, seed: u64, rec: &mut Rec)
where
    Module<B>: HalAll<B> + CoreAll<B>,
    Scratch<B>: ScratchTakeCore<B>,
{
    let m = B::module(c.n);
    let sk = eval_secret(c.n);
    let key = fnv(format!("{:?}", c).as_bytes());
    rec.distinct(key);
    rec.sample(|| serde_json::to_value(c).unwrap());
    let mut reported: Vec<&'static str> = vec![];
    for p in c.params() {
        for g in 0..2usize {
            for &v in c.classes() {
                if let Some(o) = only {
                    if o != (p, g, v) {
                        continue;
                    }
                }
                let mut rng =
                    Rng::new(seed, key ^ ((p as u64) << 8) ^ ((g as u64) << 4) ^ v as u64);
                let mut a = glwe_alloc(c.n, c.b, c.a_s, c.ra);
                let mut b = glwe_alloc(c.n, c.b, c.bs, c.rb);
                fill_class(a.data_mut(), c.b, v, &mut rng);
                fill_class(b.data_mut(), c.b, v, &mut rng);
                let mut r0 = glwe_alloc(c.n, c.b_out, c.rs, c.rr);
                if c.op.reads_res() {
                    fill_class(r0.data_mut(), c.b_out, v, &mut rng);
                } else {
                    garbage(bytemuck_mut(r0.data_mut().raw_mut()), g);
                }
                let mut res = glwe_clone(&r0);
                let out = guarded(|| call::<B>(&m, c.op, p, &mut res, &a, &b, g));
                rec.evals(1);
                let inner = json!({"p": p, "g": g, "v": v});
                let k = p.unsigned_abs() as i64;
                let r_bits = (c.rs * c.b_out) as i64;
                let class_fields = |d: &mut Value| {
                    let o = d.as_object_mut().unwrap();
                    o.insert("op".into(), json!(c.op.name()));
                    o.insert("backend".into(), json!(B::NAME));
                    o.insert("case".into(), serde_json::to_value(c).unwrap());
                    o.insert("inner".into(), inner.clone());
                    o.insert(
                        "res_rank_gt_a_rank".into(),
                        json!(c.op.uses_a() && c.rr > c.ra),
                    );
                    o.insert("a_rank_zero".into(), json!(c.op.uses_a() && c.ra == 0));
                    o.insert("cross_radix".into(), json!(c.b != c.b_out));
                    o.insert("input_normalised".into(), json!(v != 3));
                    o.insert("offset_negative".into(), json!(c.op == Op::Rsh && k > 0));
                    o.insert(
                        "shift_beyond_output_bits".into(),
                        json!(if c.op == Op::Rsh {
                            (k - r_bits).max(0)
                        } else {
                            0
                        }),
                    );
                };
                if let Err(msg) = out {
                    if !reported.contains(&"panic") {
                        reported.push("panic");
                        let mut d = json!({"kind": "panic", "panic": msg});
                        class_fields(&mut d);
                        rec.fail(d);
                    } else {
                        rec.add("failures_not_itemised", 1);
                    }
                    continue;
                }
                let (_t, verdict) = judge(&sk, c.op, p, &res, &r0, &a, &b, true);
                let mut bad: Option<Value> = verdict.map(|v| {
                    json!({"kind": v.kind, "level": v.level, "col": v.col, "index": v.index, "err_units": v.err_units,
                        "tol_units": v.tol_units, "why": v.why})
                });
                if bad.is_none()
                    && matches!(c.op, Op::Normalize | Op::NormalizeAssign)
                    && c.b != c.b_out
                    && digits_in_range(&res).is_some()
                {
                    // R4 demands the digit range for equal radices only; cross-radix outputs with digits outside
                    // [-2^(b-1), 2^(b-1)) are counted as an observation
                    rec.add("cross_radix_results_with_out_of_range_digits", 1);
                }
                if bad.is_none()
                    && matches!(c.op, Op::Normalize | Op::NormalizeAssign)
                    && c.b == c.b_out
                {
                    if let Some((i, j, d)) = digits_in_range(&res) {
                        bad = Some(
                            json!({"kind": "not_normalised", "level": "limb", "col": i, "limb": j,
                            "why": format!("digit {d} outside [-2^(b-1), 2^(b-1)) after normalisation")}),
                        );
                    }
                }
                match bad {
                    Some(mut d) => {
                        let kind: &'static str = match d["kind"].as_str().unwrap() {
                            "wrong_value" => "wrong_value",
                            "wrong_limbs" => "wrong_limbs",
                            _ => "not_normalised",
                        };
                        if !reported.contains(&kind) {
                            reported.push(kind);
                            class_fields(&mut d);
                            rec.fail(d);
                        } else {
                            rec.add("failures_not_itemised", 1);
                        }
                    }
                    None => {
                        if g == 0 && v == 0 {
                            rec.outcome(pvc_engine::hash_i64s(res.data().at(0, 0)));
                        }
                    }
                }
            }
        }
    }
}

fn bytemuck_mut(x: &mut [i64]) -> &mut [u8] {
    // SAFETY: plain reinterpretation of an i64 slice as bytes (same allocation, 8x the length)
    unsafe { std::slice::from_raw_parts_mut(x.as_mut_ptr() as *mut u8, x.len() * 8) }
}

fn rank_triples(op: Op) -> Vec<(usize, usize, usize)> {
    let mut out = vec![];
    for rr in 0..=3usize {
        for ra in 0..=(if op.uses_a() { 3 } else { 0 }) {
            for rb in 0..=(if op.uses_b() { 3 } else { 0 }) {
                if op.admits(rr, ra, rb) {
                    out.push((rr, ra, rb));
                }
            }
        }
    }
    out
}

fn cases<B: Bk>(tier: Tier) -> Vec<Case> {
    let mut out = vec![];
    let smax = tier.pick(3usize, 4usize);
    let radices = [1usize, 2, 3, 17];
    for &op in ALL_OPS.iter() {
        for &n in &[8usize, 16] {
            let radix_pairs: Vec<(usize, usize)> = if op == Op::Normalize {
                let top = tier.pick(4usize, 5usize);
                let mut v: Vec<(usize, usize)> = vec![];
                for bi in 1..=top {
                    for bo in 1..=top {
                        v.push((bi, bo));
                    }
                }
                v.extend([(17, 17), (17, 12), (12, 17)]);
                v
            } else {
                radices.iter().map(|b| (*b, *b)).collect()
            };
            for &(b, b_out) in &radix_pairs {
                for rs in 1..=smax {
                    for a_s in 1..=(if op.uses_a() { smax } else { 1 }) {
                        for bs in 1..=(if op.uses_b() { smax } else { 1 }) {
                            for (rr, ra, rb) in rank_triples(op) {
                                // rotations enumerate O(N) parameters inside: the quick tier keeps N=16 to ranks <= 2
                                if !tier.is_thorough() && op.is_rotation() && n == 16 && rr == 3 {
                                    continue;
                                }
                                if !tier.is_thorough()
                                    && op.is_shift()
                                    && n == 16
                                    && b == 17
                                    && rr == 3
                                {
                                    continue;
                                }
                                out.push(Case {
                                    op,
                                    backend: B::NAME.into(),
                                    n,
                                    b,
                                    b_out,
                                    rs,
                                    a_s,
                                    bs,
                                    rr,
                                    ra,
                                    rb,
                                });
                            }
                        }
                    }
                }
            }
        }
    }
    out
}

fn fam_ops<B: Bk>(run: &mut Run)
where
    Module<B>: HalAll<B> + CoreAll<B>,
    Scratch<B>: ScratchTakeCore<B>,
{
    let seed = run.seed;
    let cs = cases::<B>(run.tier);
    run.family(
        &format!("glwe_ops/{}", B::NAME),
        "outer = (operation, N, radix (pair), res/a/b sizes, res/a/b ranks admitted by the API); inner = every rotation k in [-4N,4N] / every shift 0..(max size+2)*base2k x 2 garbage fills (or 2 streams for in-place forms) x value classes (normalised random, extreme digits; carry ripple and un-normalised digits for normalising operations); oracle = exact rational column values and exact phases modulo 1, one unit of the last result limb per truncated operand, exact otherwise; limb-exact ring model for limb-wise operations without truncation",
        cs,
        |c, rec| exec::<B>(c, None, seed, rec),
    );
}

// ---------------------------------------------------------------------------------------------
// E1: GGSW rotate
// ---------------------------------------------------------------------------------------------

#[derive(Clone, Debug, Serialize, Deserialize)]
pub struct GgswCase {
    pub assign: bool,
    pub backend: String,
    pub n: usize,
    pub b: usize,
    pub rank: usize,
    pub rs: usize,
    pub a_s: usize,
    pub dsize: usize,
    pub dnum_r: usize,
    pub dnum_a: usize,
}

fn ggsw_alloc(
    n: usize,
    b: usize,
    size: usize,
    rank: usize,
    dnum: usize,
    dsize: usize,
) -> GGSW<Vec<u8>> {
    GGSW::alloc(
        Degree(n as u32),
        Base2K(b as u32),
        TorusPrecision((size * b) as u32),
        Rank(rank as u32),
        Dnum(dnum as u32),
        Dsize(dsize as u32),
    )
}

pub fn exec_ggsw<B: Bk>(c: &GgswCase, only: Option<(i64, usize)>, seed: u64, rec: &mut Rec)
where
    Module<B>: HalAll<B> + CoreAll<B>,
    Scratch<B>: ScratchTakeCore<B>,
{
    let m = B::module(c.n);
    let sk = eval_secret(c.n);
    let key = fnv(format!("{:?}", c).as_bytes());
    rec.distinct(key);
    rec.sample(|| serde_json::to_value(c).unwrap());
    let cols = c.rank + 1;
    let mut reported = false;
    let n64 = c.n as i64;
    for p in -4 * n64..=4 * n64 {
        for g in 0..2usize {
            if let Some(o) = only {
                if o != (p, g) {
                    continue;
                }
            }
            let mut rng = Rng::new(seed, key ^ ((p as u64) << 8) ^ g as u64);
            let mut a = ggsw_alloc(c.n, c.b, c.a_s, c.rank, c.dnum_a, c.dsize);
            for row in 0..c.dnum_a {
                for col in 0..cols {
                    fill_class(a.at_mut(row, col).data_mut(), c.b, g, &mut rng);
                }
            }
            let mut res = ggsw_alloc(c.n, c.b, c.rs, c.rank, c.dnum_r, c.dsize);
            for row in 0..c.dnum_r {
                for col in 0..cols {
                    if c.assign {
                        fill_class(res.at_mut(row, col).data_mut(), c.b, g, &mut rng);
                    } else {
                        let mut cell = res.at_mut(row, col);
                        let v = cell.data_mut();
                        for i in 0..cols {
                            for j in 0..c.rs {
                                garbage(bytemuck_mut(v.at_mut(i, j)), g);
                            }
                        }
                    }
                }
            }
            // prior cells as owned GLWE (inputs of the in-place form)
            let cell_glwe =
                |x: &GGSW<Vec<u8>>, size: usize, row: usize, col: usize| -> GLWE<Vec<u8>> {
                    let mut out = glwe_alloc(c.n, c.b, size, c.rank);
                    let src = x.at(row, col);
                    for i in 0..cols {
                        for j in 0..size {
                            out.data_mut()
                                .at_mut(i, j)
                                .copy_from_slice(src.data().at(i, j));
                        }
                    }
                    out
                };
            let prior: Vec<GLWE<Vec<u8>>> = (0..c.dnum_r * cols)
                .map(|x| cell_glwe(&res, c.rs, x / cols, x % cols))
                .collect();
            let out = guarded(|| {
                let bytes = m.ggsw_rotate_tmp_bytes() + 256;
                with_scratch::<B, _>(bytes, g, |s| {
                    if c.assign {
                        m.ggsw_rotate_assign(p, &mut res, s)
                    } else {
                        m.ggsw_rotate(p, &mut res, &a)
                    }
                })
            });
            rec.evals(1);
            let inner = json!({"p": p, "g": g});
            let opname = if c.assign {
                "ggsw_rotate_assign"
            } else {
                "ggsw_rotate"
            };
            if let Err(msg) = out {
                if !reported {
                    reported = true;
                    rec.fail(json!({"op": opname, "backend": B::NAME, "kind": "panic", "case": c, "inner": inner, "panic": msg}));
                }
                continue;
            }
            let op = if c.assign {
                Op::RotateAssign
            } else {
                Op::Rotate
            };
            let dummy = glwe_alloc(c.n, c.b, 1, 0);
            'cells: for row in 0..c.dnum_r {
                for col in 0..cols {
                    let got = cell_glwe(&res, c.rs, row, col);
                    let r0 = &prior[row * cols + col];
                    let acell = cell_glwe(&a, c.a_s, row, col);
                    let (_t, v) = judge(&sk, op, p, &got, r0, &acell, &dummy, true);
                    if let Some(v) = v {
                        if !reported {
                            reported = true;
                            rec.fail(json!({"op": opname, "backend": B::NAME, "kind": v.kind, "level": v.level, "case": c, "inner": inner,
                                "row": row, "cell_col": col, "col": v.col, "index": v.index, "err_units": v.err_units, "why": v.why}));
                        }
                        break 'cells;
                    }
                }
            }
        }
    }
}

fn ggsw_cases<B: Bk>(tier: Tier) -> Vec<GgswCase> {
    let mut out = vec![];
    let smax = tier.pick(3usize, 4usize);
    for assign in [false, true] {
        for &n in &[8usize, 16] {
            for &b in tier.pick(&[2usize, 17][..], &[1usize, 2, 3, 17][..]) {
                for rank in 0..=tier.pick(1usize, 2usize) {
                    for rs in 2..=smax {
                        for a_s in 2..=(if assign { 2 } else { smax }) {
                            // GGSW::alloc demands size > dsize and dnum*dsize <= size
                            for dsize in 1..rs.min(if assign { rs } else { a_s }) {
                                for dnum_r in 1..=rs / dsize {
                                    for dnum_a in
                                        dnum_r..=(if assign { dnum_r } else { a_s / dsize })
                                    {
                                        if !tier.is_thorough()
                                            && n == 16
                                            && (rank > 0 && rs + a_s > 5)
                                        {
                                            continue;
                                        }
                                        out.push(GgswCase {
                                            assign,
                                            backend: B::NAME.into(),
                                            n,
                                            b,
                                            rank,
                                            rs,
                                            a_s: if assign { rs } else { a_s },
                                            dsize,
                                            dnum_r,
                                            dnum_a,
                                        });
                                    }
                                }
                            }
                        }
                    }
                }
            }
        }
    }
    out
}

fn fam_ggsw<B: Bk>(run: &mut Run)
where
    Module<B>: HalAll<B> + CoreAll<B>,
    Scratch<B>: ScratchTakeCore<B>,
{
    let seed = run.seed;
    let cs = ggsw_cases::<B>(run.tier);
    run.family(
        &format!("ggsw_rotate/{}", B::NAME),
        "outer = (in-place?, N, radix, rank, res/a sizes, dsize, res/a row counts with res.dnum <= a.dnum); inner = every k in [-4N,4N] x 2 fills; oracle = every cell (row, column) of the result judged as a GLWE: columns, phase and limbs equal X^k times the same cell of the operand",
        cs,
        |c, rec| exec_ggsw::<B>(c, None, seed, rec),
    );
}

// ---------------------------------------------------------------------------------------------
// E2: explicit-state search over operation programs
// ---------------------------------------------------------------------------------------------

/// tolerance classes of the abstract key: 0 (phase known exactly), 1 .. CAP-1 units, CAP = "CAP or more"
const CAP: u8 = 3;

#[derive(Clone, Copy, Debug, PartialEq, Eq, Hash, Serialize, Deserialize)]
pub struct Act {
    pub op: Op,
    pub r: usize,
    pub a: usize,
    pub b: usize,
    pub p: i64,
}

pub struct Reg {
    pub ct: GLWE<Vec<u8>>,
    /// reference phase: exact image of the initial phases under the program so far, scaled by 2^L, not reduced mod 1
    pub model: Poly,
    /// tolerance granted so far, units of this register's last limb (per column and coefficient)
    pub t: u128,
    /// abstract tolerance class (part of the state key; a function of the key and the action only)
    pub kc: u8,
}

impl Clone for Reg {
    fn clone(&self) -> Self {
        Reg {
            ct: glwe_clone(&self.ct),
            model: self.model.clone(),
            t: self.t,
            kc: self.kc,
        }
    }
}

#[derive(Clone)]
pub struct PState {
    pub regs: Vec<Reg>,
    pub depth: u8,
    pub trace: Vec<Act>,
    pub init: usize,
}

impl PState {
    fn key(&self) -> Vec<(u8, u8, u8)> {
        self.regs
            .iter()
            .map(|r| ((r.ct.data().cols() - 1) as u8, r.ct.size() as u8, r.kc))
            .collect()
    }
}

impl Hash for PState {
    fn hash<H: Hasher>(&self, h: &mut H) {
        self.key().hash(h);
        self.depth.hash(h);
    }
}

impl PartialEq for PState {
    fn eq(&self, o: &Self) -> bool {
        self.depth == o.depth && self.key() == o.key()
    }
}
impl Eq for PState {}

impl std::fmt::Debug for PState {
    fn fmt(&self, f: &mut std::fmt::Formatter<'_>) -> std::fmt::Result {
        write!(
            f,
            "PState(depth {}, key {:?}, trace {:?})",
            self.depth,
            self.key(),
            self.trace
        )
    }
}

pub struct Programs<B: Bk> {
    pub module: Module<B>,
    pub n: usize,
    pub b: usize,
    pub l: usize,
    pub max_depth: u8,
    pub inits: Vec<Vec<(usize, usize)>>,
    pub sk: Vec<Vec<i64>>,
    pub seed: u64,
    pub transitions: AtomicU64,
    pub loose: AtomicU64,
    pub exact: AtomicU64,
    pub failures: Mutex<Vec<Value>>,
}

// SAFETY: the module handle is only read (the library's operations take &self and keep no interior state)
unsafe impl<B: Bk> Sync for Programs<B> {}
unsafe impl<B: Bk> Send for Programs<B> {}

impl<B: Bk> Programs<B>
where
    Module<B>: HalAll<B> + CoreAll<B>,
    Scratch<B>: ScratchTakeCore<B>,
{
    pub fn new(
        n: usize,
        b: usize,
        max_depth: u8,
        inits: Vec<Vec<(usize, usize)>>,
        seed: u64,
    ) -> Self {
        Programs {
            module: B::module(n),
            n,
            b,
            // register sizes <= 3 limbs; every rsh adds at most b+1 bits of exact precision
            l: 3 * b + (max_depth as usize + 1) * (b + 1) + 8,
            max_depth,
            inits,
            sk: eval_secret(n),
            seed,
            transitions: AtomicU64::new(0),
            loose: AtomicU64::new(0),
            exact: AtomicU64::new(0),
            failures: Mutex::new(vec![]),
        }
    }

    pub fn init_state(&self, idx: usize) -> PState {
        let shape = &self.inits[idx];
        let mut rng = Rng::new(
            self.seed,
            0xE2 ^ ((idx as u64) << 8) ^ ((self.n as u64) << 32) ^ ((self.b as u64) << 40),
        );
        let regs = shape
            .iter()
            .enumerate()
            .map(|(i, &(rank, size))| {
                let mut ct = glwe_alloc(self.n, self.b, size, rank);
                fill_class(ct.data_mut(), self.b, if i == 1 { 1 } else { 0 }, &mut rng);
                let model = phase_scaled(&ct, &self.sk, self.l);
                Reg {
                    ct,
                    model,
                    t: 0,
                    kc: 0,
                }
            })
            .collect();
        PState {
            regs,
            depth: 0,
            trace: vec![],
            init: idx,
        }
    }

    pub fn params(&self, op: Op) -> Vec<i64> {
        if op.is_rotation() {
            vec![1, -1, self.n as i64, 2 * self.n as i64 + 1]
        } else if op.is_shift() {
            vec![1, self.b as i64, self.b as i64 + 1]
        } else {
            vec![0]
        }
    }

    /// one transition: the real call on real objects, judged against the reference phases carried in the state
    pub fn step(&self, s: &PState, act: Act, record: bool) -> Result<PState, Value> {
        self.transitions.fetch_add(1, Ordering::Relaxed);
        let mut next = s.clone();
        next.depth += 1;
        next.trace.push(act);
        let op = act.op;
        let (ra, rb) = (&s.regs[act.a], &s.regs[act.b]);
        let r_bits = s.regs[act.r].ct.size() * self.b;
        let a_bits = if op.uses_a() {
            ra.ct.size() * self.b
        } else {
            0
        };
        let b_bits = if op.uses_b() {
            rb.ct.size() * self.b
        } else {
            0
        };
        let (t_r, t_a, t_b) = (
            if op.reads_res() { s.regs[act.r].t } else { 0 },
            if op.uses_a() { ra.t } else { 0 },
            if op.uses_b() { rb.t } else { 0 },
        );
        // registers may hold un-normalised digits (sums): the tail cut off by a limb-wise operation is bounded from
        // the actual digits; the abstract class below keeps the one-unit rule (a function of the key only)
        let r_size = s.regs[act.r].ct.size();
        let (tr_a, tr_b) = if op.limbwise() {
            (
                if op.uses_a() && a_bits > r_bits {
                    truncation_units(&ra.ct, r_size)
                } else {
                    0
                },
                if op.uses_b() && b_bits > r_bits {
                    truncation_units(&rb.ct, r_size)
                } else {
                    0
                },
            )
        } else {
            ((a_bits > r_bits) as u128, (b_bits > r_bits) as u128)
        };
        let t_new =
            tolerance_units_tr(op, act.p, r_bits, a_bits, b_bits, t_r, t_a, t_b, tr_a, tr_b);
        // abstract class: function of the key classes and the action only (sticky saturation)
        let kc = {
            let cls = |reg: &Reg, used: bool| -> Option<u128> {
                if !used {
                    Some(0)
                } else if reg.kc >= CAP {
                    None
                } else {
                    Some(reg.kc as u128)
                }
            };
            match (
                cls(&s.regs[act.r], op.reads_res()),
                cls(ra, op.uses_a()),
                cls(rb, op.uses_b()),
            ) {
                (Some(x), Some(y), Some(z)) => {
                    tolerance_units(op, act.p, r_bits, a_bits, b_bits, x, y, z).min(CAP as u128)
                        as u8
                }
                _ => CAP,
            }
        };
        let zero = pzero(self.n);
        // Division by 2^k is not a map of the torus: glwe_rsh divides the representative the digits hold. The
        // reference phase is congruent to the actual one modulo 1 only, so for Rsh it is first moved to the
        // representative of the actual register (J = round(actual - reference), an integer polynomial fixed by
        // the payload as long as the tolerance is below 1/2); the quotient is then demanded of the library.
        let rsh_model;
        let res_model: &Poly = if op == Op::Rsh {
            let actual = phase_scaled(&s.regs[act.r].ct, &self.sk, self.l);
            let half: IBig = IBig::from(1) << (self.l - 1);
            rsh_model = s.regs[act.r]
                .model
                .iter()
                .zip(&actual)
                .map(|(m, a)| {
                    let d: IBig = a - m;
                    // nearest multiple of 2^l
                    let j: IBig = (&d + &half) >> self.l;
                    m + (j << self.l)
                })
                .collect::<Poly>();
            &rsh_model
        } else {
            &s.regs[act.r].model
        };
        let want = apply(
            op,
            act.p,
            if op.reads_res() { res_model } else { &zero },
            if op.uses_a() { &ra.model } else { &zero },
            if op.uses_b() { &rb.model } else { &zero },
        );
        {
            let a_ct = glwe_clone(&ra.ct);
            let b_ct = glwe_clone(&rb.ct);
            let res = &mut next.regs[act.r].ct;
            if !op.reads_res() {
                garbage(
                    bytemuck_mut(res.data_mut().raw_mut()),
                    (s.depth & 1) as usize,
                );
            }
            let out = guarded(|| {
                call::<B>(
                    &self.module,
                    op,
                    act.p,
                    res,
                    &a_ct,
                    &b_ct,
                    (s.depth & 1) as usize,
                )
            });
            if let Err(msg) = out {
                let d = self.describe(s, &next.trace, act, "panic", json!({"panic": msg}));
                if record {
                    self.push_failure(d.clone());
                }
                return Err(d);
            }
        }
        let rank = next.regs[act.r].ct.data().cols() - 1;
        if std::env::var("VERIF_DEBUG").is_ok() {
            eprintln!("step {:?}", act);
            for (i, r) in s.regs.iter().enumerate() {
                eprintln!("  before r{i}: t={} {}", r.t, r.ct);
            }
            eprintln!("  after  r{}: {}", act.r, next.regs[act.r].ct);
        }
        let got = glwe_phase(next.regs[act.r].ct.data(), self.b, &self.sk[..rank]);
        let (worst, at) = max_torus_err(&got, r_bits, &want, self.l);
        let s_norm: u64 = 1 + (0..rank).map(|i| l1(&self.sk[i])).sum::<u64>();
        if t_new >= T_INF
            || (IBig::from(t_new) * IBig::from(s_norm) << (self.l - r_bits))
                >= (IBig::from(1) << (self.l - 1))
        {
            // tolerance reaches half the torus: nothing can be decided on this transition
            self.loose.fetch_add(1, Ordering::Relaxed);
        } else {
            if t_new == 0 {
                self.exact.fetch_add(1, Ordering::Relaxed);
            }
            let tol: IBig = (IBig::from(t_new) * IBig::from(s_norm)) << (self.l - r_bits);
            if worst > tol {
                let d = self.describe(
                    s,
                    &next.trace,
                    act,
                    "wrong_value",
                    json!({"index": at, "err_units": approx_units(&worst, self.l - r_bits), "tol_units": (t_new as f64) * s_norm as f64,
                        "why": "phase of the destination register differs from the operation applied to the reference phases carried in the state"}),
                );
                if record {
                    self.push_failure(d.clone());
                }
                return Err(d);
            }
        }
        next.regs[act.r].model = want;
        next.regs[act.r].t = t_new;
        next.regs[act.r].kc = kc;
        Ok(next)
    }

    fn describe(&self, s: &PState, trace: &[Act], act: Act, kind: &str, extra: Value) -> Value {
        let ranks: Vec<usize> = s.regs.iter().map(|r| r.ct.data().cols() - 1).collect();
        let mut d = json!({
            "op": act.op.name(), "backend": B::NAME, "kind": kind,
            "case": {"n": self.n, "b": self.b, "shape": self.inits[s.init], "trace": trace, "max_depth": self.max_depth},
            "inner": {"step": trace.len() - 1},
            "depth": trace.len(),
            "res_rank_gt_a_rank": act.op.uses_a() && ranks[act.r] > ranks[act.a],
            "a_rank_zero": act.op.uses_a() && ranks[act.a] == 0,
            "cross_radix": false,
            "offset_negative": act.op == Op::Rsh,
            "shift_beyond_output_bits": if act.op == Op::Rsh { (act.p - (s.regs[act.r].ct.size() * self.b) as i64).max(0) } else { 0 },
            "state_key": format!("{:?}", s.key()),
        });
        for (k, v) in extra.as_object().unwrap() {
            d[k] = v.clone();
        }
        d
    }

    fn push_failure(&self, d: Value) {
        let mut f = self.failures.lock().unwrap();
        // one itemised failure per (operation, kind, depth); the rest is counted
        let sig = |x: &Value| format!("{}|{}|{}", x["op"], x["kind"], x["depth"]);
        if f.len() < 4096 && !f.iter().any(|x| sig(x) == sig(&d)) {
            f.push(d);
        }
    }
}

impl<B: Bk> Model for Programs<B>
where
    Module<B>: HalAll<B> + CoreAll<B>,
    Scratch<B>: ScratchTakeCore<B>,
{
    type State = PState;
    type Action = Act;

    fn init_states(&self) -> Vec<PState> {
        (0..self.inits.len()).map(|i| self.init_state(i)).collect()
    }

    fn actions(&self, s: &PState, out: &mut Vec<Act>) {
        if s.depth >= self.max_depth {
            return;
        }
        let nr = s.regs.len();
        let rank = |i: usize| s.regs[i].ct.data().cols() - 1;
        for &op in ALL_OPS.iter() {
            for p in self.params(op) {
                for r in 0..nr {
                    if !op.uses_a() {
                        out.push(Act {
                            op,
                            r,
                            a: r,
                            b: r,
                            p,
                        });
                        continue;
                    }
                    for a in 0..nr {
                        if a == r {
                            continue; // &mut res and &a cannot alias
                        }
                        if !op.uses_b() {
                            if op.admits(rank(r), rank(a), 0) {
                                out.push(Act { op, r, a, b: a, p });
                            }
                            continue;
                        }
                        for b in 0..nr {
                            if b == r {
                                continue;
                            }
                            if op.admits(rank(r), rank(a), rank(b)) {
                                out.push(Act { op, r, a, b, p });
                            }
                        }
                    }
                }
            }
        }
    }

    fn next_state(&self, s: &PState, act: Act) -> Option<PState> {
        self.step(s, act, true).ok()
    }

    fn properties(&self) -> Vec<Property<Self>> {
        // violations are recorded (with their trace) by `step`; the always-true property keeps the search exhaustive
        vec![Property::always("exploration continues", |_, _| true)]
    }
}

fn program_inits(tier: Tier) -> Vec<Vec<(usize, usize)>> {
    let opts: [(usize, usize); 4] = [(0, 2), (0, 3), (1, 2), (1, 3)];
    let mut out = vec![];
    for x in 0..4 {
        for y in 0..4 {
            for z in 0..4 {
                if !tier.is_thorough() && !(x <= y && y <= z && (x != y || y != z)) {
                    continue; // quick: register files up to permutation, not all equal
                }
                out.push(vec![opts[x], opts[y], opts[z]]);
            }
        }
    }
    out
}

fn fam_programs<B: Bk>(run: &mut Run)
where
    Module<B>: HalAll<B> + CoreAll<B>,
    Scratch<B>: ScratchTakeCore<B>,
{
    let seed = run.seed;
    let tier = run.tier;
    let depth: u8 = tier.pick(3, 4);
    let grids: Vec<(usize, usize)> = tier.pick(
        vec![(8, 2), (16, 17)],
        vec![(8, 1), (8, 2), (8, 17), (16, 3), (16, 17)],
    );
    let name = format!("programs/{}", B::NAME);
    if !run.wants(&name) {
        return;
    }
    let mut states = 0u64;
    let mut transitions = 0u64;
    run.single(
        &name,
        "stateright model: 3 registers of real GLWE objects (ranks {0,1}, sizes {2,3}), actions = all 19 operations on every admissible register choice with k in {1,-1,N,2N+1} / shifts in {1,b,b+1}; state key = (rank, size, tolerance class) per register + depth; every transition = one real call judged against the reference phase carried in the state; explored twice (BFS, DFS), counts compared",
        |rec| {
            for &(n, b) in &grids {
                let mut counts = vec![];
                for pass in 0..2 {
                    let model = Programs::<B>::new(n, b, depth, program_inits(tier), seed);
                    let builder = model.checker().threads(pvc_engine::threads());
                    let (unique, fails, tr, loose, exact) = if pass == 0 {
                        let ch = builder.spawn_bfs().join();
                        let mdl = ch.model();
                        (
                            ch.unique_state_count() as u64,
                            mdl.failures.lock().unwrap().clone(),
                            mdl.transitions.load(Ordering::Relaxed),
                            mdl.loose.load(Ordering::Relaxed),
                            mdl.exact.load(Ordering::Relaxed),
                        )
                    } else {
                        let ch = builder.spawn_dfs().join();
                        let mdl = ch.model();
                        (
                            ch.unique_state_count() as u64,
                            mdl.failures.lock().unwrap().clone(),
                            mdl.transitions.load(Ordering::Relaxed),
                            mdl.loose.load(Ordering::Relaxed),
                            mdl.exact.load(Ordering::Relaxed),
                        )
                    };
                    counts.push((unique, tr));
                    if pass == 0 {
                        states += unique;
                        transitions += tr;
                        rec.evals(tr);
                        rec.add("states", unique);
                        rec.add("transitions_with_vacuous_tolerance", loose);
                        rec.add("transitions_demanding_exact_phase", exact);
                        for s in 0..unique {
                            rec.distinct(fnv(format!("{n}|{b}|{s}").as_bytes()));
                        }
                        let mut fails = fails;
                        fails.sort_by_key(|d| d["depth"].as_u64().unwrap_or(99));
                        for d in fails {
                            rec.fail(d);
                        }
                    }
                }
                if counts[0] != counts[1] {
                    rec.fail(json!({"op": "programs", "backend": B::NAME, "kind": "nondeterministic_exploration",
                        "case": {"n": n, "b": b}, "inner": {}, "bfs": [counts[0].0, counts[0].1], "dfs": [counts[1].0, counts[1].1]}));
                }
                rec.sample(|| json!({"n": n, "b": b, "depth": depth, "unique_states": counts[0].0, "transitions": counts[0].1}));
            }
        },
    );
    run.states += states;
    run.transitions += transitions;
    run.traces_validated += transitions;
}

pub fn replay_program<B: Bk>(d: &Value, seed: u64, rec: &mut Rec)
where
    Module<B>: HalAll<B> + CoreAll<B>,
    Scratch<B>: ScratchTakeCore<B>,
{
    let c = &d["case"];
    let n = c["n"].as_u64().unwrap() as usize;
    let b = c["b"].as_u64().unwrap() as usize;
    let shape: Vec<(usize, usize)> = serde_json::from_value(c["shape"].clone()).unwrap();
    let trace: Vec<Act> = serde_json::from_value(c["trace"].clone()).unwrap();
    let depth = c["max_depth"].as_u64().unwrap_or(4) as u8;
    let model = Programs::<B>::new(n, b, depth.max(trace.len() as u8), vec![shape], seed);
    let mut s = model.init_state(0);
    for act in trace {
        rec.evals(1);
        match model.step(&s, act, false) {
            Ok(nx) => s = nx,
            Err(mut dd) => {
                dd["note"] = json!("re-executed from the initial register file");
                rec.fail(dd);
                return;
            }
        }
    }
    eprintln!(
        "[C02] program replay: the trace re-executed from its initial register file holds. (Under the parallel search a merged state is represented by the payload of the first path that reached its key; a violation that depends on that payload is re-found by re-running the family.)"
    );
}

pub fn run(run: &mut Run) {
    run.assume("operands and result share the ring degree and (except glwe_normalize) the limb radix: glwe_add/sub/shift assert it, glwe_negate/copy/rotate/mul_xp_minus_one do not look at the radix at all, so a mixed-radix call has no defined phase");
    run.assume("rank combinations are exactly those the API's assertions admit (e.g. add_into: equal ranks or one rank-0 operand; add_assign / lsh*: res.rank >= a.rank; sub_assign, sub_negate_assign, copy, rotate: equal or rank-0 operand); the phase of an operand of lower rank is taken under the first columns of the same clear secret");
    run.assume("operands of limb-wise operations hold normalised digits (then a truncated tail is below one unit of the last kept limb); operations that normalise (shifts, normalize) also get un-normalised digits in [-2^(b+1), 2^(b+1)] and carry-ripple patterns");
    run.assume("glwe_rsh is granted one unit of the last limb for every shift > 0 (it truncates in place); glwe_lsh* is exact whenever res_size*b >= a_size*b - k");
    run.assume("division by 2^k is not a map of the torus: glwe_rsh divides the representative held by the digits. E1 therefore compares exact (unreduced) rational column values and phases; in E2 the reference phase is moved to the representative of the actual register (an integer polynomial, unambiguous while the tolerance is below 1/2) before the quotient is demanded");
    run.assume("E2 registers may hold un-normalised digits (sums of ciphertexts): the tail a limb-wise operation cuts off is bounded from the actual digits (D/(2^b-1) units), one unit for normalised digits; transitions whose accumulated tolerance reaches half the torus are executed but counted as vacuous");
    for_backends!(fam_ops(run));
    for_backends!(fam_ggsw(run));
    for_backends!(fam_programs(run));
    run.note(
        "e2_merge_argument",
        json!("none of the operations branches on payload; the state key (rank, size, tolerance class per register, depth) determines the enabled actions and every branch taken; payload-dependent behaviour is judged on every transition with the exact tolerance carried in the state"),
    );
}

pub fn replay(run: &mut Run, d: &Value) {
    let backend = d["backend"].as_str().unwrap_or("").to_string();
    let fam = d["family"].as_str().unwrap_or("").to_string();
    let seed = d["seed"].as_u64().unwrap_or(0);
    macro_rules! go {
        ($B:ty) => {{
            if fam.starts_with("glwe_ops") {
                let c: Case = serde_json::from_value(d["case"].clone()).unwrap();
                let i = &d["inner"];
                let only = match (i["p"].as_i64(), i["g"].as_u64(), i["v"].as_u64()) {
                    (Some(p), Some(g), Some(v)) => Some((p, g as usize, v as usize)),
                    _ => None,
                };
                run.single(&fam, "replay", |rec| exec::<$B>(&c, only, seed, rec));
            } else if fam.starts_with("ggsw_rotate") {
                let c: GgswCase = serde_json::from_value(d["case"].clone()).unwrap();
                let i = &d["inner"];
                let only = match (i["p"].as_i64(), i["g"].as_u64()) {
                    (Some(p), Some(g)) => Some((p, g as usize)),
                    _ => None,
                };
                run.single(&fam, "replay", |rec| exec_ggsw::<$B>(&c, only, seed, rec));
            } else {
                run.single(&fam, "replay", |rec| replay_program::<$B>(d, seed, rec));
            }
        }};
    }
    match backend.as_str() {
        "fft64-ref" => go!(pvc_common::FFT64Ref),
        "ntt120-ref" => go!(pvc_common::NTT120Ref),
        "fft64-avx" => go!(pvc_common::FFT64Avx),
        "ntt120-avx" => go!(pvc_common::NTT120Avx),
        o => panic!("unknown backend {o}"),
    }
}

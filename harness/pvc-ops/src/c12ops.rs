//! C12 (pvc-ops part: ciphertext operations and multiplication) - the declared scratch size always suffices and
//! scratch contents never matter.
//!
//! Every scratch-taking operation driven by C02 / C05 receives a window of exactly the bytes its own companion
//! `*_tmp_bytes` query returns (no rounding, no slack), carved with `scratch_from_bytes` out of a larger allocation
//! whose surroundings are canary bytes, pre-filled with zeros, 0x11 and the NaN/huge pattern. Oracle: no panic,
//! canaries intact, all results byte-identical across the three fills.

use crate::xops::*;
use poulpy_core::ScratchTakeCore;
use poulpy_hal::layouts::{Module, Scratch};
use pvc_common::{Bk, CoreAll, Family, HalAll, for_backends};
use pvc_engine::{Rec, Run, fnv, guarded};
use serde::{Deserialize, Serialize};
use serde_json::{Value, json};

/// pre-fills in pvc_engine::rng::garbage numbering: zeros, 0x11, NaN/huge
const FILLS: [usize; 3] = [2, 3, 0];

fn fill_name(f: usize) -> &'static str {
    match f {
        2 => "zeros",
        3 => "0x11",
        _ => "nan_huge",
    }
}

#[derive(Clone, Debug, Serialize, Deserialize)]
pub struct Case {
    pub backend: String,
    pub x: XCase,
}

pub fn exec<B: Bk>(c: &Case, seed: u64, rec: &mut Rec)
where
    Module<B>: HalAll<B> + CoreAll<B>,
    Scratch<B>: ScratchTakeCore<B>,
{
    rec.distinct(fnv(format!("{:?}", c).as_bytes()));
    rec.sample(|| serde_json::to_value(c).unwrap());
    let x = &c.x;
    let class = json!({"cross_radix": x.b != x.b_res, "cross_radix_key": x.b != x.b_key, "cnv_residue": (x.p.unsigned_abs() as usize) % x.b,
        "offset_negative": (x.p.unsigned_abs() as usize) < x.b});
    let mut outs: Vec<(usize, XOut)> = vec![];
    for fill in FILLS {
        let mut log = ScrLog::default();
        // result buffers keep one garbage pattern: only the scratch content varies between the three runs
        let r = guarded(|| run_x::<B>(x, seed, 0, Scr::Exact { fill }, &mut log));
        rec.evals(log.events.len().max(1) as u64);
        for e in &log.events {
            rec.add(&format!("calls/{}", e.op), 1);
            if e.bytes % 64 != 0 {
                rec.add("windows_not_multiple_of_64", 1);
            }
        }
        if let Some(e) = log.events.iter().find(|e| e.completed && !e.canaries_ok) {
            rec.fail(json!({"op": e.op, "backend": B::NAME, "kind": "scratch_overrun", "case": c, "inner": {"fill": fill_name(fill)},
                "tmp_bytes": e.bytes, "tmp_bytes_multiple_of_64": e.bytes % 64 == 0, "class": class}));
            return;
        }
        match r {
            Ok(o) => outs.push((fill, o)),
            Err(msg) => {
                let lower = msg.to_lowercase();
                let kind = if lower.contains("scratch") || lower.contains("tmp_bytes") { "scratch_too_small" } else { "panic" };
                let ev = log.events.iter().rev().find(|e| !e.completed).or(log.events.last());
                let op = ev.map(|e| e.op.clone()).unwrap_or_else(|| x.op.clone());
                rec.fail(json!({"op": op, "backend": B::NAME, "kind": kind, "case": c, "inner": {"fill": fill_name(fill)},
                    "tmp_bytes": ev.map(|e| e.bytes), "tmp_bytes_multiple_of_64": ev.map(|e| e.bytes % 64 == 0), "panic": msg, "class": class}));
                return;
            }
        }
    }
    let (f0, o0) = &outs[0];
    for (f1, o1) in outs.iter().skip(1) {
        if let Some(i) = o0.results.iter().zip(o1.results.iter()).position(|(a, b)| a.1 != b.1) {
            rec.fail(json!({"op": o0.results[i].0, "backend": B::NAME, "kind": "scratch_dependent_result", "case": c,
                "inner": {"fill_a": fill_name(*f0), "fill_b": fill_name(*f1)}, "tmp_bytes": Value::Null, "class": class, "dsize": x.dsize}));
            break;
        }
    }
    if let Some(r) = o0.results.last() {
        rec.outcome(fnv(&r.1));
    }
}

fn fam<B: Bk>(run: &mut Run)
where
    Module<B>: HalAll<B> + CoreAll<B>,
    Scratch<B>: ScratchTakeCore<B>,
{
    let seed = run.seed;
    let cs: Vec<Case> = all_cases(run.tier, true)
        .into_iter()
        .filter(|x| B::FAMILY == Family::Ntt120 || x.fft64_ok())
        .map(|x| Case {
            backend: B::NAME.into(),
            x,
        })
        .collect();
    run.family(
        &format!("ops_exact_scratch/{}", B::NAME),
        "outer = (scratch-taking operation of C02 / C05: glwe_rotate_assign, glwe_mul_xp_minus_one_assign, glwe_rsh / lsh_assign / lsh / lsh_add / lsh_sub, glwe_normalize(+assign, cross-radix), ggsw_rotate_assign, glwe_tensor_apply / _add_assign / square_apply, glwe_tensor_relinearize, glwe_tensor_key_encrypt_sk + prepare_tensor_key, glwe_mul_plain(+assign), glwe_mul_const(+assign); reduced shape grid: ranks, sizes, cross-radix results, every cnv_offset residue, dsize 1..3, dnum below/equal/above); inner = 3 pre-fills (zeros, 0x11, NaN/huge) of an exact-size scratch window between canaries; evaluations = exact-window library calls; distinct = outer cases",
        cs,
        |c, rec| exec::<B>(c, seed, rec),
    );
}

pub fn run(run: &mut Run) {
    run.assume("scratch = exactly the companion query of the call that receives it (glwe_mul_xp_minus_one_assign has no core-level query: the HAL query of the kernel it delegates to is used), window start 64-byte aligned, length not rounded");
    run.assume("the tensor key's prepared form has no accessor: prepare_tensor_key is observed through a relinearisation performed with generous scratch");
    run.assume("FFT64 backends run the radices 4 and 17, NTT120 additionally 40 (thorough)");
    for_backends!(fam(run));
}

/// false if the descriptor does not belong to this part
pub fn replay(run: &mut Run, d: &Value) -> bool {
    let fam = d["family"].as_str().unwrap_or("").to_string();
    if !fam.starts_with("ops_exact_scratch/") {
        return false;
    }
    let c: Case = match serde_json::from_value(d["case"].clone()) {
        Ok(c) => c,
        Err(_) => return false,
    };
    let seed = d["seed"].as_u64().unwrap_or(0);
    match c.backend.as_str() {
        "fft64-ref" => run.single(&fam, "replay", |rec| exec::<pvc_common::FFT64Ref>(&c, seed, rec)),
        "ntt120-ref" => run.single(&fam, "replay", |rec| exec::<pvc_common::NTT120Ref>(&c, seed, rec)),
        "fft64-avx" => run.single(&fam, "replay", |rec| exec::<pvc_common::FFT64Avx>(&c, seed, rec)),
        "ntt120-avx" => run.single(&fam, "replay", |rec| exec::<pvc_common::NTT120Avx>(&c, seed, rec)),
        _ => return false,
    }
    true
}

//! C13 - (to be written)

use pvc_engine::Run;
use serde_json::Value;

pub fn run(_run: &mut Run) {
    panic!("C13: not implemented yet");
}

pub fn replay(_run: &mut Run, _d: &Value) {
    panic!("C13: not implemented yet");
}

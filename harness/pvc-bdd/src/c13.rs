//! C13 - the compiled decision diagrams compute the u32 word functions (engine E5 + E1).
//!
//! Families
//! * `symbolic`      - per circuit: structural invariants of every output-bit table, then level-by-level symbolic
//!   evaluation into ROBDDs and comparison by canonical node identity with the bit-blasted specification
//!   (= equality on all 2^64 input pairs). A counterexample is extracted from the XOR of the two diagrams and
//!   re-validated on the plain interpreter and the Rust u32 operator.
//! * `explicit`      - cross-validation of the ROBDD engine: for every output bit whose support is small, all
//!   assignments of the support (x two backgrounds for the other inputs) through the plain interpreter, the
//!   ROBDD evaluation and the u32 operator.
//! * `mutants`       - detection self-test: hi/lo swapped in one Cmux of an in-memory copy of a table; the symbolic
//!   check must report every non-equivalent mutant and its counterexample must be real.
//! * `bind-*`        - the real evaluator at the parameters of the library's own test-suite (see c13_bind.rs).
//!
//! Counters: `run.states` = ROBDD nodes created, `run.transitions` = non-terminal, non-memoised `ite` steps,
//! `run.traces_validated` = executions of the real evaluator compared with interpreter and u32 operator.
//!
//! Demonstration of detection without touching /repo: `VERIF_C13_MUTATE=add:7:19 pvc-bdd C13` swaps hi/lo of node 19
//! of output bit 7 of the adder in the harness's copy of the table; `symbolic` reports `wrong_function` with a
//! confirmed counterexample, `explicit` and the raw bind path (which runs the mutated copy through the real
//! evaluator) report it as well; exit code 1. Env: `VERIF_C13_SUPPORT` (support limit of `explicit`),
//! `VERIF_C13_N` (ring degree of the bind families), `VERIF_C13_ALL_BACKENDS=1` (all four backends in the quick tier).

use crate::c13_bind;
use poulpy_bin_fhe::bdd_arithmetic::Node;
use poulpy_bin_fhe::verif_hooks::u32_circuits;
use pvc_engine::{Rec, Run, fnv};
use pvc_model::bdd::{
    ALL_WORD_OPS, Bdd, CNode, FALSE, Robdd, WordOp, check_structure, interpret_u64, spec_bits, symbolic, word_op,
};
use serde::{Deserialize, Serialize};
use serde_json::{Value, json};

/// One compiled circuit, copied out of the crate through hook H1.
#[derive(Clone)]
pub struct Table {
    pub op: WordOp,
    pub input_size: usize,
    pub output_size: usize,
    pub max_state_size: usize,
    /// per output bit: (nodes, declared state width)
    pub bits: Vec<(Vec<CNode>, usize)>,
}

pub fn load_tables() -> Vec<Table> {
    u32_circuits()
        .into_iter()
        .map(|(name, c)| {
            let op = WordOp::from_name(name).unwrap_or_else(|| panic!("hook returned an unknown circuit name {name}"));
            let bits = (0..c.output_size())
                .map(|i| {
                    let (nodes, w) = c.get_circuit(i);
                    let v = nodes
                        .iter()
                        .map(|n| match n {
                            Node::Cmux(s, h, l) => CNode::Cmux(*s, *h, *l),
                            Node::Copy => CNode::Copy,
                            Node::None => CNode::None,
                        })
                        .collect();
                    (v, w)
                })
                .collect();
            Table {
                op,
                input_size: c.input_size(),
                output_size: c.output_size(),
                max_state_size: c.max_state_size(),
                bits,
            }
        })
        .collect()
}

/// `VERIF_C13_MUTATE=circuit:bit:node` swaps hi/lo of that Cmux in the harness's copy of the table (demonstration
/// of detection; never touches /repo).
fn apply_env_mutation(tables: &mut [Table]) -> Option<String> {
    let spec = std::env::var("VERIF_C13_MUTATE").ok()?;
    let p: Vec<&str> = spec.split(':').collect();
    assert_eq!(p.len(), 3, "VERIF_C13_MUTATE=circuit:bit:node");
    let t = tables.iter_mut().find(|t| t.op.name() == p[0]).expect("circuit name");
    let bit: usize = p[1].parse().unwrap();
    let node: usize = p[2].parse().unwrap();
    match &mut t.bits[bit].0[node] {
        CNode::Cmux(_, h, l) => std::mem::swap(h, l),
        o => {
            eprintln!("VERIF_C13_MUTATE: node {node} of {}[{bit}] is {o:?}, not a Cmux", p[0]);
            std::process::exit(2);
        }
    }
    Some(spec)
}

#[derive(Clone, Debug, Serialize, Deserialize)]
pub struct SymCase {
    pub circuit: String,
}

fn input_word(op: WordOp, a: u32, b: u32) -> u64 {
    if op.input_bits() == 32 { a as u64 } else { (a as u64) | ((b as u64) << 32) }
}

/// Decides one output bit symbolically. Returns the circuit's ROBDD (None on structural failure).
#[allow(clippy::too_many_arguments)]
fn decide_bit(
    m: &mut Robdd,
    spec: &[Bdd],
    t: &Table,
    bit: usize,
    case: &Value,
    family: &str,
    rec: &mut Rec,
    report: bool,
) -> (Option<Bdd>, Option<Value>) {
    let (nodes, width) = (&t.bits[bit].0, t.bits[bit].1);
    let base = |kind: &str| json!({"op": t.op.name(), "backend": "symbolic", "kind": kind, "case": case, "inner": {"bit": bit}, "family": family});
    match check_structure(nodes, width, t.input_size) {
        Err(s) => {
            let mut d = base(&format!("structural:{}", s.kind));
            d["level"] = json!(s.level);
            d["slot"] = json!(s.slot);
            d["detail"] = json!(s.detail);
            if report {
                rec.fail(d.clone());
            }
            return (None, Some(d));
        }
        Ok(shape) => {
            rec.add("cmux_nodes", shape.cmux as u64);
            rec.add("levels", shape.levels as u64);
        }
    }
    if width > t.max_state_size {
        let mut d = base("structural:max_state_size_too_small");
        d["detail"] = json!(format!("bit width {} > circuit max_state_size {}", width, t.max_state_size));
        if report {
            rec.fail(d.clone());
        }
        return (None, Some(d));
    }
    let f = symbolic(m, nodes, width, &|i| i);
    let want = spec.get(bit).copied().unwrap_or(FALSE);
    if f == want {
        return (Some(f), None);
    }
    // counterexample from the difference
    let diff = m.xor(f, want);
    let asg = m.any_sat(diff).expect("distinct canonical nodes must differ somewhere");
    let mut x = 0u64;
    for (v, &bv) in asg.iter().enumerate() {
        if bv {
            x |= 1 << v;
        }
    }
    let (a, b) = (x as u32, (x >> 32) as u32);
    let mut buf = vec![];
    let got = interpret_u64(nodes, width, input_word(t.op, a, b), &mut buf);
    let wanted = (word_op(t.op, a, b) >> bit) & 1 == 1;
    let mut d = base("wrong_function");
    d["a"] = json!(a);
    d["b"] = json!(b);
    d["interpreter_bit"] = json!(got);
    d["u32_operator_bit"] = json!(wanted);
    d["differing_assignments"] = json!(m.sat_count(diff).to_string());
    d["counterexample_confirmed"] = json!(got != wanted);
    if report {
        rec.fail(d.clone());
    }
    (Some(f), Some(d))
}

fn exec_symbolic(t: &Table, case: &SymCase, rec: &mut Rec) {
    let cj = serde_json::to_value(case).unwrap();
    let op = t.op;
    let meta = |kind: &str, detail: String| json!({"op": op.name(), "backend": "symbolic", "kind": kind, "case": cj, "inner": {}, "detail": detail});
    // the declared input size may be smaller than the bits supplied (the shifts declare 37: a and the five
    // shift-amount bits); it must not exceed them, and every selector is checked against it below
    if t.input_size > op.input_bits() {
        rec.fail(meta("structural:input_size", format!("input_size {} > {} bits supplied", t.input_size, op.input_bits())));
    }
    rec.add(&format!("declared_input_size_{}", op.name()), t.input_size as u64);
    if t.output_size != op.output_bits() {
        rec.fail(meta("structural:output_size", format!("output_size {} != {}", t.output_size, op.output_bits())));
    }
    let mut m = Robdd::new(&op.order());
    let spec = spec_bits(&mut m, op);
    let spec_nodes = m.nodes_created();
    let spec_steps = m.ite_steps;
    for bit in 0..t.bits.len() {
        let (f, _) = decide_bit(&mut m, &spec, t, bit, &cj, "symbolic", rec, true);
        rec.evals(1);
        if let Some(f) = f {
            rec.distinct(fnv(format!("{}:{}", op.name(), bit).as_bytes()));
            rec.outcome(fnv(format!("{}:{}:{}", op.name(), m.size(f), m.support(f).len()).as_bytes()));
        }
    }
    rec.add("robdd_nodes", m.nodes_created());
    rec.add("ite_steps", m.ite_steps);
    rec.add("spec_robdd_nodes", spec_nodes);
    rec.add("spec_ite_steps", spec_steps);
    rec.add("output_bits", t.bits.len() as u64);
    rec.sample(|| json!({"circuit": op.name(), "bits": t.bits.len(), "robdd_nodes": m.nodes_created(), "ite_steps": m.ite_steps}));
}

// ---------------------------------------------------------------------------------------------------------------
// explicit cross-validation
// ---------------------------------------------------------------------------------------------------------------

#[derive(Clone, Debug, Serialize, Deserialize)]
pub struct ExplicitCase {
    pub circuit: String,
    pub bit: usize,
    pub support: Vec<usize>,
}

fn exec_explicit(t: &Table, c: &ExplicitCase, rec: &mut Rec) {
    let op = t.op;
    let (nodes, width) = (&t.bits[c.bit].0, t.bits[c.bit].1);
    let mut m = Robdd::new(&op.order());
    let f = symbolic(&mut m, nodes, width, &|i| i);
    let sup = &c.support;
    let k = sup.len();
    let in_mask: u64 = if op.input_bits() == 64 { u64::MAX } else { u32::MAX as u64 };
    let sup_mask: u64 = sup.iter().fold(0u64, |acc, &v| acc | (1 << v));
    // backgrounds for the inputs outside the support: all zero, all one, and a fixed mixed pattern
    let backgrounds = [0u64, u64::MAX, 0xA5A5_5A5A_C3C3_3C3Cu64];
    let mut buf = vec![];
    let mut ones = 0u64;
    for (bi, bg) in backgrounds.iter().enumerate() {
        for asg in 0u64..(1u64 << k) {
            let mut x = bg & !sup_mask & in_mask;
            for (j, &v) in sup.iter().enumerate() {
                x |= ((asg >> j) & 1) << v;
            }
            let (a, b) = (x as u32, (x >> 32) as u32);
            let interp = interpret_u64(nodes, width, x, &mut buf);
            let want = (word_op(op, a, b) >> c.bit) & 1 == 1;
            let sym = m.eval(f, &|v| (x >> v) & 1 == 1);
            ones += interp as u64;
            if interp != want || sym != want {
                rec.fail(json!({"op": op.name(), "backend": "interpreter", "kind": if interp != want {"wrong_value"} else {"engine_disagreement"},
                    "case": c, "inner": {"a": a, "b": b, "background": bi}, "interpreter_bit": interp, "robdd_bit": sym, "u32_operator_bit": want}));
                return;
            }
        }
        rec.evals(1u64 << k);
    }
    rec.distinct(fnv(format!("{}:{}", op.name(), c.bit).as_bytes()));
    rec.outcome(fnv(format!("{}:{}:{}", op.name(), c.bit, ones).as_bytes()));
    rec.sample(|| json!({"circuit": op.name(), "bit": c.bit, "support_size": k, "assignments": 3u64 << k}));
}

// ---------------------------------------------------------------------------------------------------------------
// mutants
// ---------------------------------------------------------------------------------------------------------------

#[derive(Clone, Debug, Serialize, Deserialize)]
pub struct MutCase {
    pub circuit: String,
    pub bit: usize,
}

fn exec_mutants(t: &Table, c: &MutCase, stride: usize, rec: &mut Rec) {
    let op = t.op;
    let cj = serde_json::to_value(c).unwrap();
    let mut m = Robdd::new(&op.order());
    let spec = spec_bits(&mut m, op);
    let n = t.bits[c.bit].0.len();
    for idx in (0..n).filter(|i| i % stride == (c.bit % stride)) {
        let CNode::Cmux(s, h, l) = t.bits[c.bit].0[idx] else { continue };
        if h == l {
            rec.add("mutants_trivial_hi_eq_lo", 1);
            continue;
        }
        let mut mt = t.clone();
        mt.bits[c.bit].0[idx] = CNode::Cmux(s, l, h);
        let mut scratch = Rec::new();
        let (_, verdict) = decide_bit(&mut m, &spec, &mt, c.bit, &cj, "mutants", &mut scratch, false);
        rec.evals(1);
        match verdict {
            None => {
                // the swap did not change the function (both operands hold the same function on the reachable part)
                rec.add("mutants_equivalent", 1);
            }
            Some(d) => {
                let kind = d["kind"].as_str().unwrap_or("").to_string();
                if kind == "wrong_function" {
                    if d["counterexample_confirmed"] == json!(true) {
                        rec.add("mutants_detected", 1);
                        rec.distinct(fnv(format!("{}:{}:{}", op.name(), c.bit, idx).as_bytes()));
                        rec.outcome(fnv(d["differing_assignments"].as_str().unwrap_or("").as_bytes()));
                        rec.sample(|| json!({"circuit": op.name(), "bit": c.bit, "node": idx, "swapped": format!("Cmux({s},{h},{l}) -> Cmux({s},{l},{h})"),
                            "counterexample": {"a": d["a"], "b": d["b"]}, "differing_assignments": d["differing_assignments"]}));
                    } else {
                        rec.fail(json!({"op": op.name(), "backend": "symbolic", "kind": "selftest_counterexample_not_real", "case": c, "inner": {"node": idx}, "report": d}));
                    }
                } else {
                    // structural report (a swap cannot create one: same operands are read)
                    rec.fail(json!({"op": op.name(), "backend": "symbolic", "kind": "selftest_unexpected_structural", "case": c, "inner": {"node": idx}, "report": d}));
                }
            }
        }
    }
}

// ---------------------------------------------------------------------------------------------------------------

fn table_of<'a>(tables: &'a [Table], name: &str) -> &'a Table {
    tables.iter().find(|t| t.op.name() == name).unwrap_or_else(|| panic!("no circuit {name}"))
}

fn explicit_cases(tables: &[Table], limit: usize) -> (Vec<ExplicitCase>, Vec<Value>) {
    let mut out = vec![];
    let mut skipped = vec![];
    for t in tables {
        let mut m = Robdd::new(&t.op.order());
        for bit in 0..t.bits.len() {
            let (nodes, width) = (&t.bits[bit].0, t.bits[bit].1);
            if check_structure(nodes, width, t.input_size).is_err() {
                continue;
            }
            let f = symbolic(&mut m, nodes, width, &|i| i);
            let sup = m.support(f);
            if sup.len() <= limit {
                out.push(ExplicitCase {
                    circuit: t.op.name().into(),
                    bit,
                    support: sup,
                });
            } else {
                skipped.push(json!({"circuit": t.op.name(), "bit": bit, "support": sup.len()}));
            }
        }
    }
    out.sort_by_key(|c| c.support.len());
    (out, skipped)
}

pub fn run(run: &mut Run) {
    let mut tables = load_tables();
    let mutated = apply_env_mutation(&mut tables);
    if let Some(s) = &mutated {
        run.note("DEMONSTRATION_mutated_table", json!(s));
        eprintln!("[C13] VERIF_C13_MUTATE={s}: hi/lo swapped in the harness's copy of that node");
    }
    run.assume("circuit tables are read through verif_hooks::u32_circuits(), which returns references to the same statics the word operations use (22-line accessor, by inspection); the bind families additionally run the public word operations");
    run.assume("input numbering: input i < 32 is bit i of a, input 32+i is bit i of b (FheUintHelper::get_bit); identity reads one word; bound to the code by the bind families");
    run.assume("RISC-V word semantics: add/sub wrapping, shift amount = b & 31, sra arithmetic, slt signed / sltu unsigned with a single output bit (the evaluator zeroes the other 31), bitwise and/or/xor, identity");
    run.assume("definedness rule: slots 0 and 1 are defined initially (constants 0 and 1), a level defines exactly the slots it writes (Cmux/Copy), a None slot is undefined afterwards although the evaluator's buffer still holds the value of two levels earlier; the symbolic run nevertheless follows the evaluator's real two-buffer semantics");
    // checks of the circuit set itself
    run.single("circuit-set", "the hook returns exactly the 11 u32 circuits, each once", |rec| {
        rec.evals(1);
        let names: Vec<&str> = tables.iter().map(|t| t.op.name()).collect();
        let mut sorted = names.clone();
        sorted.sort();
        sorted.dedup();
        if tables.len() != ALL_WORD_OPS.len() || sorted.len() != ALL_WORD_OPS.len() {
            rec.fail(json!({"op": "u32_circuits", "backend": "symbolic", "kind": "structural:circuit_set", "case": {}, "inner": {}, "names": names}));
        }
    });

    // ---- symbolic ----
    let cases: Vec<SymCase> = tables.iter().map(|t| SymCase { circuit: t.op.name().into() }).collect();
    run.family(
        "symbolic",
        "outer = circuit; inner = every output bit: structural invariants, then ROBDD of the table (evaluator semantics, 64 variables) == ROBDD of the bit-blasted word operation by canonical node identity, i.e. on all 2^64 input pairs; distinct = output bits decided; outcomes = (ROBDD size, support size) classes",
        cases,
        |c, rec| exec_symbolic(table_of(&tables, &c.circuit), c, rec),
    );
    if let Some(f) = run.families.iter().find(|f| f.name == "symbolic") {
        let g = |k: &str| f.rec.extra.get(k).copied().unwrap_or(0);
        run.states += g("robdd_nodes");
        run.transitions += g("ite_steps");
        let note = json!({"robdd_nodes_created": g("robdd_nodes"), "ite_steps": g("ite_steps"), "of_which_specification_nodes": g("spec_robdd_nodes"),
            "of_which_specification_ite_steps": g("spec_ite_steps"), "output_bits_decided": g("output_bits"), "cmux_nodes_in_tables": g("cmux_nodes"), "levels_in_tables": g("levels"),
            "input_pairs_covered_per_bit": "2^64 (2^32 for identity)"});
        run.note("symbolic", note);
    }

    // ---- explicit ----
    let limit = std::env::var("VERIF_C13_SUPPORT").ok().and_then(|s| s.parse().ok()).unwrap_or(run.tier.pick(20, 26));
    if run.wants("explicit") {
        let (cases, skipped) = explicit_cases(&tables, limit);
        run.note(
            "explicit",
            json!({"support_limit": limit, "bits_enumerated": cases.len(), "bits_beyond_limit": skipped.len(), "backgrounds_for_non_support_inputs": 3}),
        );
        run.family(
            "explicit",
            "outer = (circuit, output bit) with ROBDD support <= limit; inner = every assignment of the support x 3 backgrounds of the other inputs; plain interpreter == ROBDD evaluation == Rust u32 operator",
            cases,
            |c, rec| exec_explicit(table_of(&tables, &c.circuit), c, rec),
        );
    }

    // ---- mutants (pristine tables: the demonstration mutation is not part of the self-test) ----
    if run.wants("mutants") {
        let pristine = load_tables();
        let stride = 1;
        let mut cases = vec![];
        for t in &pristine {
            for bit in 0..t.bits.len() {
                cases.push(MutCase {
                    circuit: t.op.name().into(),
                    bit,
                });
            }
        }
        run.family(
            "mutants",
            "detection self-test: outer = (circuit, output bit); inner = every Cmux node with hi/lo swapped in an in-memory copy; the symbolic check must report the mutant unless the swap is function-preserving (canonical equality), and the extracted counterexample must be confirmed by interpreter vs u32 operator",
            cases,
            |c, rec| exec_mutants(table_of(&pristine, &c.circuit), c, stride, rec),
        );
        if let Some(f) = run.families.iter().find(|f| f.name == "mutants") {
            let g = |k: &str| f.rec.extra.get(k).copied().unwrap_or(0);
            run.note(
                "mutants",
                json!({"tried": f.rec.evaluations, "detected_with_confirmed_counterexample": g("mutants_detected"), "function_preserving": g("mutants_equivalent"), "trivial_hi_eq_lo": g("mutants_trivial_hi_eq_lo")}),
            );
        }
    }

    // ---- binding to the implementation ----
    c13_bind::run(run, &tables);
}

pub fn replay(run: &mut Run, d: &Value) {
    let fam = d["family"].as_str().unwrap_or("").to_string();
    let mut tables = load_tables();
    apply_env_mutation(&mut tables);
    if fam == "symbolic" {
        let c: SymCase = serde_json::from_value(d["case"].clone()).expect("case");
        run.single("symbolic", "replay", |rec| exec_symbolic(table_of(&tables, &c.circuit), &c, rec));
    } else if fam == "explicit" {
        let c: ExplicitCase = serde_json::from_value(d["case"].clone()).expect("case");
        run.single("explicit", "replay", |rec| exec_explicit(table_of(&tables, &c.circuit), &c, rec));
    } else if fam == "mutants" {
        let c: MutCase = serde_json::from_value(d["case"].clone()).expect("case");
        run.single("mutants", "replay", |rec| exec_mutants(table_of(&tables, &c.circuit), &c, 1, rec));
    } else if fam.starts_with("bind") {
        c13_bind::replay(run, &tables, d);
    } else {
        panic!("C13 replay: unknown family {fam}");
    }
}
